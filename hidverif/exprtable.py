"""Grouping table of the expression grammar: every operator pair (and, in the thorough tier, triples) of the documented
precedence table, parsed by the interpreted front end (hidverif.frontend) and compared with a reference precedence-climbing
parser built from the documented table alone."""
from __future__ import annotations

import itertools

# tightest first; (kind, {spelling: class})
LEVELS = [
    ('unary', {'+': 'Pos', '-': 'Neg', 'not': 'Not'}),
    ('is', {'is': 'Is'}),
    ('binary', {'*': 'Mul', '/': 'Div', '%': 'Mod'}),
    ('binary', {'+': 'Add', '-': 'Sub'}),
    ('binary', {'==': 'Eq', '!=': 'Ne', '<': 'Lt', '<=': 'Le', '>': 'Gt', '>=': 'Ge'}),
    ('binary', {'and': 'And'}),
    ('binary', {'or': 'Or'}),
    ('spec', {'??': 'Speculation'}),
]
BINARY = {sp: (i, cls) for i, (k, t) in enumerate(LEVELS) if k == 'binary' for sp, cls in t.items()}
UNARY = LEVELS[0][1]


class RefError(Exception):
    pass


def ref_parse(tokens):
    """Reference: tokens (list of spellings; operands are single letters / digits) -> tree, by precedence climbing."""
    pos = [0]

    def peek():
        return tokens[pos[0]] if pos[0] < len(tokens) else None

    def take():
        pos[0] += 1
        return tokens[pos[0] - 1]

    def primary():
        t = peek()
        if t is None:
            raise RefError('end')
        if t == '(':
            take()
            e = expr()
            if peek() != ')':
                raise RefError('expected )')
            take()
            return e
        if t.isalnum() and t not in ('not', 'and', 'or', 'is', 'int', 'length'):
            take()
            if t.isalpha() and peek() == '(':
                take()
                args = []
                if peek() != ')':
                    args.append(expr())
                    while peek() == ',':
                        take()
                        args.append(expr())
                if peek() != ')':
                    raise RefError('expected )')
                take()
                return ('call', t, args)
            return ('var', t) if t.isalpha() else ('int', int(t))
        raise RefError(f'unexpected {t}')

    def postfix():
        e = primary()
        while True:
            if peek() == '.':
                take()
                if peek() != 'length':
                    raise RefError('expected length')
                take()
                e = ('LengthLookup', e)
            elif peek() == '[':
                take()
                i = expr()
                if peek() != ']':
                    raise RefError('expected ]')
                take()
                e = ('ArrayLookup', e, i)
            else:
                return e

    def unary():
        if peek() in UNARY:
            op = take()
            return (UNARY[op], unary())
        return postfix()

    def is_level():
        e = unary()
        if peek() == 'is':
            take()
            if peek() != 'int':
                raise RefError('expected type')
            take()
            tp = 'int'
            if peek() == '[':
                take()
                if peek() != ']':
                    raise RefError('expected ]')
                take()
                tp = 'int[]'
            return ('Is', e, tp)
        return e

    def binary(level):
        if level < 2:
            return is_level()
        e = binary(level - 1)
        while peek() in BINARY and BINARY[peek()][0] == level:
            op = take()
            e = (BINARY[op][1], e, binary(level - 1))
        return e

    def expr():
        e = binary(6)
        if peek() == '??':
            take()
            r = binary(6)
            return ('Speculation', e, r)
        return e
    e = expr()
    if pos[0] != len(tokens):
        raise RefError(f'unprocessed {peek()}')
    return e


def tree_of(node):
    """Interpreted tree -> the reference's shape (by class name and the fields the classes declare)."""
    if isinstance(node, tuple) and node and node[0] == 'error':
        return 'error'
    n = type(node).__name__
    if n == 'VariableLookup':
        return ('var', node.var.name)
    if n == 'IntValue':
        return ('int', node.data)
    if n == 'FuncCall':
        return ('call', node.func.base_name, [tree_of(a) for a in node.args])
    if n == 'LengthLookup':
        return ('LengthLookup', tree_of(node.source))
    if n == 'ArrayLookup':
        return ('ArrayLookup', tree_of(node.source), tree_of(node.index))
    if n == 'Is':
        t = node.type
        tn = type(t).__name__
        if tn == 'ArrayType':
            tp = f'{t.el_type.value}[]'
        else:
            tp = str(getattr(t, 'value', t))
        return ('Is', tree_of(node.expr), tp)
    if hasattr(node, 'left') and hasattr(node, 'right'):
        return (n, tree_of(node.left), tree_of(node.right))
    if hasattr(node, 'arg'):
        return (n, tree_of(node.arg))
    return ('?', n)


def cases(thorough=False):
    """(label, token list) - the table."""
    b = list(BINARY)
    u = list(UNARY)
    reps = ['*', '+', '<', '==', 'and', 'or']
    out = []
    pairs = list(itertools.product(b, b)) if thorough else sorted(set(
        [(x, y) for x in b for y in reps] + [(y, x) for x in b for y in reps]))
    for o1, o2 in pairs:
        out.append((f'a {o1} b {o2} c', ['a', o1, 'b', o2, 'c']))
    for o1, o2 in (pairs if thorough else [(x, y) for x in reps for y in reps] + [(x, x) for x in b]):
        out.append((f'(a {o1} b) {o2} c', ['(', 'a', o1, 'b', ')', o2, 'c']))
        out.append((f'a {o1} (b {o2} c)', ['a', o1, '(', 'b', o2, 'c', ')']))
    for un in u:
        for o in b:
            out.append((f'{un} a {o} b', [un, 'a', o, 'b']))
            out.append((f'a {o} {un} b', ['a', o, un, 'b']))
        for u2 in u:
            out.append((f'{un} {u2} a', [un, u2, 'a']))
        out.append((f'{un} a is int', [un, 'a', 'is', 'int']))
        out.append((f'{un} a [ 1 ]', [un, 'a', '[', '1', ']']))
        out.append((f'{un} a . length', [un, 'a', '.', 'length']))
        out.append((f'{un} ( a + b )', [un, '(', 'a', '+', 'b', ')']))
    for o in b:
        out.append((f'a {o} b is int', ['a', o, 'b', 'is', 'int']))
        out.append((f'a is int {o} b', ['a', 'is', 'int', o, 'b']))
        out.append((f'a is int [ ] {o} b', ['a', 'is', 'int', '[', ']', o, 'b']))
        out.append((f'a {o} b [ c ]', ['a', o, 'b', '[', 'c', ']']))
        out.append((f'a {o} b . length', ['a', o, 'b', '.', 'length']))
        out.append((f'a [ b {o} c ]', ['a', '[', 'b', o, 'c', ']']))
        out.append((f'a {o} b ?? c {o} d', ['a', o, 'b', '??', 'c', o, 'd']))
        out.append((f'a {o} ( b ?? c )', ['a', o, '(', 'b', '??', 'c', ')']))
    out += [('a ?? b', ['a', '??', 'b']), ('a ?? b ?? c', ['a', '??', 'b', '??', 'c']), ('not a ?? - b', ['not', 'a', '??', '-', 'b']),
            ('a is int ?? b', ['a', 'is', 'int', '??', 'b']), ('a [ 1 ] . length [ 2 ]', ['a', '[', '1', ']', '.', 'length', '[', '2', ']']),
            ('a . length is int', ['a', '.', 'length', 'is', 'int']), ('( ( a ) )', ['(', '(', 'a', ')', ')']),
            ('a is int is int', ['a', 'is', 'int', 'is', 'int']),
            ('f ( ) [ 0 ]', ['f', '(', ')', '[', '0', ']']), ('f ( x ) . length', ['f', '(', 'x', ')', '.', 'length']),
            ('- f ( ) [ i ]', ['-', 'f', '(', ')', '[', 'i', ']']), ('a + f ( b , c * d ) [ 1 ] * e', ['a', '+', 'f', '(', 'b', ',', 'c', '*', 'd', ')', '[', '1', ']', '*', 'e']),
            ('f ( a + b ) is int', ['f', '(', 'a', '+', 'b', ')', 'is', 'int']), ('not f ( ) and g ( 1 )', ['not', 'f', '(', ')', 'and', 'g', '(', '1', ')']),
            ('a +', ['a', '+']), ('( a', ['(', 'a']), ('a b', ['a', 'b']), ('- - - a * b', ['-', '-', '-', 'a', '*', 'b']),
            ('a or b and c == d + e * - f [ 1 ]', ['a', 'or', 'b', 'and', 'c', '==', 'd', '+', 'e', '*', '-', 'f', '[', '1', ']']),
            ('a [ 1 ] * - b + c < d and e or f', ['a', '[', '1', ']', '*', '-', 'b', '+', 'c', '<', 'd', 'and', 'e', 'or', 'f'])]
    trip = list(itertools.product(b, b, b)) if thorough else list(itertools.product(['*', '+', '==', 'and', 'or'], repeat=3))
    for o1, o2, o3 in trip:
        out.append((f'a {o1} b {o2} c {o3} d', ['a', o1, 'b', o2, 'c', o3, 'd']))
    return out


def _chunk(args):
    root, thorough, k, jobs = args
    from .pyfacts import Repo
    from .frontend import Frontend
    fe = Frontend(Repo(root))
    return run_table(fe, thorough, cases(thorough)[k::jobs])


def run_table_parallel(root, thorough=False, jobs=8):
    """run_table over `jobs` processes (each with its own interpreter); falls back to one process."""
    from concurrent.futures import ProcessPoolExecutor
    bad, n = [], 0
    try:
        with ProcessPoolExecutor(max_workers=jobs) as ex:
            for b_, n_ in ex.map(_chunk, [(root, thorough, k, jobs) for k in range(jobs)]):
                bad += b_
                n += n_
    except (OSError, RuntimeError):
        from .pyfacts import Repo
        from .frontend import Frontend
        return run_table(Frontend(Repo(root)), thorough)
    return sorted(bad), n


def run_table(fe, thorough=False, todo=None):
    """[(label, got, want)] for the cases where the interpreted parser and the reference disagree, and the case count."""
    bad = []
    n = 0
    for label, toks in (cases(thorough) if todo is None else todo):
        try:
            want = ref_parse(toks)
        except RefError:
            want = 'error'
        try:
            got = tree_of(fe.expr(' '.join(toks), 'YOU'))
        except Exception as e:      # noqa: BLE001
            got = f'{type(e).__name__}: {e}'
        n += 1
        if got != want:
            bad.append((label, got, want))
    return bad, n
