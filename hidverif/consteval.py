"""CONSTEVAL: a small interpreter over syntax trees, used to *tabulate pure helper functions of the
repository over exhaustively enumerated finite domains* (enum powersets, the 15-element type domain,
the 256 byte values).  It never imports or compiles repository code: module bodies, class bodies and
function bodies are walked node by node by this interpreter.  Only a whitelisted set of standard
library modules and builtins is reachable; anything outside the supported subset raises
``Unsupported`` (reported by callers as ANALYSIS-ERROR or as an undischarged obligation).

Generators, async functions, I/O, and the compiler pipeline itself are not interpreted.
"""
from __future__ import annotations

import ast
import builtins
import dataclasses
import enum
import functools
import operator
import os

from .pyfacts import AnalysisError, Repo, src


class Unsupported(AnalysisError):
    pass


class _Return(Exception):
    def __init__(self, value):
        self.value = value


class _Break(Exception):
    pass


class _Continue(Exception):
    pass


SAFE_BUILTINS = {
    name: getattr(builtins, name) for name in (
        'len dict set frozenset tuple list sorted str bytes bytearray ord chr int bool isinstance issubclass '
        'type getattr hasattr all any map filter zip range enumerate min max sum iter next repr abs divmod '
        'property staticmethod classmethod object reversed hash callable format id '
        'Exception ValueError TypeError KeyError IndexError AttributeError StopIteration ZeroDivisionError '
        'NotImplementedError OverflowError UnicodeEncodeError UnicodeDecodeError AssertionError '
        'NotImplemented True False None LookupError RuntimeError OSError ArithmeticError'
    ).split() if hasattr(builtins, name)
}

STEP_LIMIT = 5_000_000


def _stable_key(x):
    return repr(x)


class SetFwd(set):
    """A set whose iteration order is fixed by the interpreter instead of by the per-process hash seed (Interp.set_order):
    interpreting the same code under SetFwd and SetRev puts every pair of elements in both relative orders, so a result
    that depends on the iteration order of a set differs between the two interpretations."""
    __slots__ = ()

    def __iter__(self):
        return iter(sorted(set.__iter__(self), key=_stable_key))

    def pop(self):
        x = next(iter(self))
        self.discard(x)
        return x


class SetRev(SetFwd):
    __slots__ = ()

    def __iter__(self):
        return iter(sorted(set.__iter__(self), key=_stable_key, reverse=True))

BINOPS = {
    ast.Add: operator.add, ast.Sub: operator.sub, ast.Mult: operator.mul, ast.Div: operator.truediv,
    ast.FloorDiv: operator.floordiv, ast.Mod: operator.mod, ast.Pow: operator.pow,
    ast.LShift: operator.lshift, ast.RShift: operator.rshift, ast.BitOr: operator.or_,
    ast.BitAnd: operator.and_, ast.BitXor: operator.xor, ast.MatMult: operator.matmul,
}
UNOPS = {ast.Not: operator.not_, ast.USub: operator.neg, ast.UAdd: operator.pos, ast.Invert: operator.invert}
CMPOPS = {
    ast.Eq: operator.eq, ast.NotEq: operator.ne, ast.Lt: operator.lt, ast.LtE: operator.le,
    ast.Gt: operator.gt, ast.GtE: operator.ge, ast.Is: operator.is_, ast.IsNot: operator.is_not,
    ast.In: lambda a, b: a in b, ast.NotIn: lambda a, b: a not in b,
}


class Env:
    __slots__ = ('vars', 'globals', 'defcls')

    def __init__(self, globals_, vars_=None, defcls=None):
        self.globals = globals_
        self.vars = vars_ if vars_ is not None else {}
        self.defcls = defcls


class IFunc:
    """An interpreted function (closure over its module namespace)."""
    # the interpreter's own fields live in slots: functools.wraps copies the wrapped function's __dict__ into the wrapper
    __slots__ = ('interp', 'node', 'globals', 'defcls', 'closure', '__dict__', '__weakref__')

    def __init__(self, interp, node, globals_, defcls=None, closure=None):
        self.interp = interp
        self.node = node
        self.globals = globals_
        self.defcls = defcls
        self.closure = closure
        self.__name__ = getattr(node, 'name', '<lambda>')
        self.__doc__ = None
        self.__isabstractmethod__ = False

    def __get__(self, obj, objtype=None):
        if obj is None:
            return self
        return functools.partial(self, obj)

    def __call__(self, *args, **kwargs):
        return self.interp.call(self, args, kwargs)


class Interp:
    def __init__(self, repo: Repo, stubs=None):
        self.repo = repo
        self.modules = {}
        self.steps = 0
        self.stubs = stubs or {}
        self.loading = set()

    # ------------------------------------------------------------------ modules
    STD = {'dataclasses', 'enum', 'operator', 'typing', 'abc', 'collections', 'collections.abc',
           'functools', 're', 'itertools', 'bisect', 'contextlib', 'textwrap', 'unicodedata', 'string', 'math'}

    def _std(self, name):
        if name not in self.STD:
            raise Unsupported(f'import of {name} is outside the interpreter whitelist')
        import importlib
        return importlib.import_module(name)

    def rel_of(self, dotted):
        p = dotted.replace('.', '/')
        for cand in (p + '.py', p + '/__init__.py'):
            if self.repo.has_module(cand):
                return cand
        return None

    def load(self, rel):
        if rel in self.modules:
            return self.modules[rel]
        ns = {'__name__': rel[:-3].replace('/', '.').removesuffix('.__init__'), '__rel__': rel}
        self.modules[rel] = ns
        if rel in self.stubs:
            ns.update(self.stubs[rel])
            return ns
        env = Env(ns, ns)
        for st in self.repo.module(rel).body:
            self.exec_stmt(st, env)
        return ns

    def _import_from(self, st, env):
        rel = env.globals.get('__rel__', '')
        pkg = os.path.dirname(rel).replace('/', '.')
        if rel.endswith('__init__.py'):
            pkg = os.path.dirname(rel).replace('/', '.')
        mod = st.module or ''
        if st.level:
            base = pkg.split('.')
            base = base[:len(base) - (st.level - 1)]
            dotted = '.'.join(base + ([mod] if mod else []))
        else:
            dotted = mod
        target = self.rel_of(dotted) if dotted.startswith('hidc') else None
        if target is not None and target.endswith('__init__.py') and all(
                a.name != '*' and self.rel_of(dotted + '.' + a.name) is not None for a in st.names):
            # `from package import submodule`: bind the submodules without running the package body again
            for a in st.names:
                env.vars[a.asname or a.name] = _ModuleView(self.load(self.rel_of(dotted + '.' + a.name)))
            return
        if target is not None:
            ns = self.load(target)
            for a in st.names:
                if a.name == '*':
                    for k, v in list(ns.items()):
                        if not k.startswith('_'):
                            env.vars[k] = v
                else:
                    if a.name in ns:
                        env.vars[a.asname or a.name] = ns[a.name]
                    else:
                        sub = self.rel_of(dotted + '.' + a.name)
                        if sub is None:
                            raise Unsupported(f'cannot import {a.name} from {dotted}')
                        env.vars[a.asname or a.name] = _ModuleView(self.load(sub))
            return
        if dotted.startswith('hidc'):
            # namespace package (no __init__.py): only submodules can be imported from it
            if all(a.name != '*' and self.rel_of(dotted + '.' + a.name) is not None for a in st.names):
                for a in st.names:
                    env.vars[a.asname or a.name] = _ModuleView(self.load(self.rel_of(dotted + '.' + a.name)))
                return
            raise Unsupported(f'repository module {dotted} not found')
        m = self._std(dotted)
        for a in st.names:
            env.vars[a.asname or a.name] = getattr(m, a.name)

    # ------------------------------------------------------------------ calls
    def call(self, f: IFunc, args, kwargs):
        node = f.node
        a = node.args
        local = {}
        if f.closure:
            local.update(f.closure)
        params = [p.arg for p in a.posonlyargs + a.args]
        defaults = a.defaults
        args = list(args)
        if len(args) > len(params) and not a.vararg:
            raise TypeError(f'{f.__name__}() takes {len(params)} positional arguments but {len(args)} were given')
        for p, v in zip(params, args):
            local[p] = v
        if a.vararg:
            local[a.vararg.arg] = tuple(args[len(params):])
        denv = Env(f.globals, dict(f.closure or {}), f.defcls)
        first_default = len(params) - len(defaults)
        for i, p in enumerate(params):
            if p in local:
                continue
            if p in kwargs:
                local[p] = kwargs.pop(p)
            elif i >= first_default:
                local[p] = self.eval(defaults[i - first_default], denv)
            else:
                raise TypeError(f'{f.__name__}() missing argument {p}')
        for p, d in zip(a.kwonlyargs, a.kw_defaults):
            if p.arg in kwargs:
                local[p.arg] = kwargs.pop(p.arg)
            elif d is not None:
                local[p.arg] = self.eval(d, denv)
            else:
                raise TypeError(f'{f.__name__}() missing keyword argument {p.arg}')
        if a.kwarg:
            local[a.kwarg.arg] = dict(kwargs)
        elif kwargs:
            raise TypeError(f'{f.__name__}() got unexpected keyword arguments {sorted(kwargs)}')
        env = Env(f.globals, local, f.defcls)
        if isinstance(node, ast.Lambda):
            return self.eval(node.body, env)
        if isinstance(node, ast.AsyncFunctionDef):
            if not getattr(self, 'allow_async', False):
                raise Unsupported(f'async function {node.name} is not interpreted')
            return Coro(self, node, env)
        is_gen = getattr(node, '_is_gen', None)
        if is_gen is None:
            is_gen = node._is_gen = any(isinstance(n, (ast.Yield, ast.YieldFrom)) for n in _own_nodes(node))
        if is_gen:
            if not getattr(self, 'allow_generators', False):
                raise Unsupported(f'generator function {node.name} is not interpreted')
            # eager evaluation of a pure producer: yielded values are collected, the return value is kept
            # (valid for the small emission helpers of asm.py, which never receive sent values)
            out = EagerGen()
            env.vars['__yield_sink__'] = out
            try:
                self.exec_block(node.body, env)
            except _Return as r:
                out.value = r.value
            return out
        try:
            self.exec_block(node.body, env)
        except _Return as r:
            return r.value
        return None

    # ------------------------------------------------------------------ statements
    def exec_block(self, stmts, env):
        for st in stmts:
            self.exec_stmt(st, env)

    def tick(self):
        self.steps += 1
        if self.steps > getattr(self, 'step_limit', STEP_LIMIT):
            raise Unsupported('interpreter step limit exceeded')

    def assign(self, target, value, env):
        if isinstance(target, ast.Name):
            env.vars[target.id] = value
        elif isinstance(target, (ast.Tuple, ast.List)):
            vals = list(value)
            star = [i for i, t in enumerate(target.elts) if isinstance(t, ast.Starred)]
            if star:
                i = star[0]
                after = len(target.elts) - i - 1
                if len(vals) < len(target.elts) - 1:
                    raise ValueError('not enough values to unpack')
                for t, v in zip(target.elts[:i], vals[:i]):
                    self.assign(t, v, env)
                self.assign(target.elts[i].value, vals[i:len(vals) - after], env)
                for t, v in zip(target.elts[i + 1:], vals[len(vals) - after:]):
                    self.assign(t, v, env)
            else:
                if len(vals) != len(target.elts):
                    raise ValueError(f'unpack: expected {len(target.elts)} values, got {len(vals)}')
                for t, v in zip(target.elts, vals):
                    self.assign(t, v, env)
        elif isinstance(target, ast.Attribute):
            setattr(self.eval(target.value, env), target.attr, value)
        elif isinstance(target, ast.Subscript):
            self.eval(target.value, env)[self.eval(target.slice, env)] = value
        else:
            raise Unsupported(f'assignment target {type(target).__name__}')

    def exec_stmt(self, st, env):
        self.tick()
        t = type(st)
        if t is ast.Expr:
            self.eval(st.value, env)
        elif t is ast.Assign:
            v = self.eval(st.value, env)
            for tg in st.targets:
                self.assign(tg, v, env)
        elif t is ast.AnnAssign:
            if st.value is not None:
                self.assign(st.target, self.eval(st.value, env), env)
        elif t is ast.AugAssign:
            cur = self.eval(_load(st.target), env)
            val = self.eval(st.value, env)
            op = BINOPS[type(st.op)]
            iop = getattr(operator, 'i' + op.__name__.strip('_'), None)
            self.assign(st.target, (iop or op)(cur, val), env)
        elif t is ast.Return:
            raise _Return(self.eval(st.value, env) if st.value is not None else None)
        elif t is ast.If:
            self.exec_block(st.body if self.eval(st.test, env) else st.orelse, env)
        elif t is ast.For:
            broke = False
            for item in self.eval(st.iter, env):
                self.assign(st.target, item, env)
                try:
                    self.exec_block(st.body, env)
                except _Break:
                    broke = True
                    break
                except _Continue:
                    continue
            if not broke:
                self.exec_block(st.orelse, env)
        elif t is ast.While:
            broke = False
            while self.eval(st.test, env):
                self.tick()
                try:
                    self.exec_block(st.body, env)
                except _Break:
                    broke = True
                    break
                except _Continue:
                    continue
            if not broke:
                self.exec_block(st.orelse, env)
        elif t is ast.Break:
            raise _Break()
        elif t is ast.Continue:
            raise _Continue()
        elif t is ast.Pass:
            pass
        elif t is ast.Raise:
            if st.exc is None:
                raise Unsupported('bare raise')
            exc = self.eval(st.exc, env)
            if isinstance(exc, type):
                exc = exc()
            raise exc
        elif t is ast.Assert:
            if not self.eval(st.test, env):
                raise AssertionError(src(st.test))
        elif t is ast.Try:
            try:
                self.exec_block(st.body, env)
            except (_Return, _Break, _Continue, Unsupported):
                if st.finalbody:
                    self.exec_block(st.finalbody, env)
                raise
            except Exception as e:
                for h in st.handlers:
                    typ = self.eval(h.type, env) if h.type is not None else Exception
                    if isinstance(e, typ):
                        if h.name:
                            env.vars[h.name] = e
                        self.exec_block(h.body, env)
                        break
                else:
                    if st.finalbody:
                        self.exec_block(st.finalbody, env)
                    raise
            else:
                self.exec_block(st.orelse, env)
            if st.finalbody:
                self.exec_block(st.finalbody, env)
        elif t is ast.FunctionDef or t is ast.AsyncFunctionDef:
            env.vars[st.name] = self.make_function(st, env)
        elif t is ast.ClassDef:
            env.vars[st.name] = self.make_class(st, env)
        elif t is ast.Import:
            for a in st.names:
                if a.name.startswith('hidc'):
                    raise Unsupported('import hidc.x form')
                m = self._std(a.name)
                if a.asname:
                    env.vars[a.asname] = m
                else:
                    env.vars[a.name.split('.')[0]] = self._std(a.name.split('.')[0])
        elif t is ast.ImportFrom:
            self._import_from(st, env)
        elif t is ast.Match:
            subject = self.eval(st.subject, env)
            for case in st.cases:
                binds = {}
                if self.match(case.pattern, subject, env, binds):
                    env.vars.update(binds)
                    if case.guard is None or self.eval(case.guard, env):
                        self.exec_block(case.body, env)
                        break
        elif t is ast.Delete:
            for tg in st.targets:
                if isinstance(tg, ast.Name):
                    env.vars.pop(tg.id, None)
                elif isinstance(tg, ast.Subscript):
                    del self.eval(tg.value, env)[self.eval(tg.slice, env)]
                else:
                    raise Unsupported('del target')
        elif t is ast.Global or t is ast.Nonlocal:
            pass
        elif t is ast.With:
            raise Unsupported('with statement')
        else:
            raise Unsupported(f'statement {t.__name__}')

    # ------------------------------------------------------------------ functions / classes
    def make_function(self, node, env, defcls=None, deco_env=None):
        closure = env.vars if env.vars is not env.globals else None
        f = IFunc(self, node, env.globals, defcls, closure)
        result = f
        for d in reversed(getattr(node, 'decorator_list', [])):
            text = src(d)
            if text in ('property', 'staticmethod', 'classmethod'):
                result = {'property': property, 'staticmethod': staticmethod, 'classmethod': classmethod}[text](result)
            elif text in ('abstractmethod', 'abc.abstractmethod'):
                pass
            elif text in ('cached_property', 'functools.cached_property'):
                result = property(result)
            elif (text.startswith('Parser.routine') and not getattr(self, 'allow_async', False)) or text.startswith('contextlib.'):
                pass
            else:
                dec = self.eval(d, deco_env or env)
                result = dec(result)
        return result

    SKIP_BASES = {'ABC', 'abc.ABC', 'DataABC', 'Sequence', 'ChainMap', 'Statement_'}

    def make_class(self, node, env):
        bases = []
        for b in node.bases:
            text = src(b)
            if text in ('ABC', 'abc.ABC', 'DataABC'):
                continue
            bases.append(self.eval(b, env))
        for k in node.keywords:
            if k.arg == 'metaclass':
                pass
        is_enum = any(isinstance(b, type) and issubclass(b, enum.Enum) for b in bases)
        decos = [src(d) for d in node.decorator_list]
        dc_deco = None
        for d in node.decorator_list:
            text = src(d)
            if text.startswith(('dc.dataclass', 'dataclasses.dataclass', 'dataclass')):
                dc_deco = d
        if is_enum:
            return self._make_enum(node, env, bases, decos)
        import typing as _typing
        if any(b is _typing.NamedTuple for b in bases):
            return self._make_namedtuple(node, env)
        ns = {}
        fields = []
        cenv = Env(env.globals, _ChainDict(ns, env.vars), None)
        holder = []
        for st in node.body:
            if isinstance(st, (ast.FunctionDef, ast.AsyncFunctionDef)):
                f = self.make_function(st, Env(env.globals, env.vars if env.vars is not env.globals else env.globals),
                                       deco_env=cenv)
                _set_defcls(f, holder)
                if st.name in ('__init_subclass__', '__class_getitem__') and isinstance(f, IFunc):
                    f = classmethod(f)
                ns[st.name] = f
            elif isinstance(st, ast.AnnAssign) and isinstance(st.target, ast.Name):
                anno = src(st.annotation)
                if 'Abstract[' in anno or anno.startswith('ty.ClassVar') or anno.startswith('ClassVar'):
                    if st.value is not None:
                        ns[st.target.id] = self.eval(st.value, cenv)
                    continue
                if dc_deco is not None:
                    if st.value is not None:
                        fields.append((st.target.id, object, self.eval(st.value, cenv)))
                    else:
                        fields.append((st.target.id, object))
                elif st.value is not None:
                    ns[st.target.id] = self.eval(st.value, cenv)
            elif isinstance(st, ast.Expr) and isinstance(st.value, ast.Constant):
                continue
            elif isinstance(st, ast.Pass):
                continue
            else:
                self.exec_stmt(st, cenv)
        ns.pop('__slots__', None)
        if dc_deco is not None:
            kw = {}
            if isinstance(dc_deco, ast.Call):
                for k in dc_deco.keywords:
                    kw[k.arg] = self.eval(k.value, env)
            user_init = ns.get('__init__')
            cls = dataclasses.make_dataclass(node.name, fields, bases=tuple(bases), namespace=ns, **kw)
        else:
            cls = type(node.name, tuple(bases) or (object,), ns)
        holder.append(cls)
        for d in node.decorator_list:
            text = src(d)
            if text.startswith(('dc.dataclass', 'dataclasses.dataclass', 'dataclass')):
                continue
            cls = self.eval(d, env)(cls) or cls
        return cls

    def _make_namedtuple(self, node, env):
        """`class X(typing.NamedTuple)`: annotated fields (with optional defaults), interpreted methods / properties."""
        import collections as _collections
        names, defaults = [], []
        ns = {}
        holder = []
        cenv = Env(env.globals, _ChainDict(ns, env.vars), None)
        for st in node.body:
            if isinstance(st, ast.AnnAssign) and isinstance(st.target, ast.Name):
                names.append(st.target.id)
                if st.value is not None:
                    defaults.append(self.eval(st.value, cenv))
                elif defaults:
                    raise Unsupported(f'NamedTuple {node.name}: field without default after a field with default')
            elif isinstance(st, (ast.FunctionDef, ast.AsyncFunctionDef)):
                f = self.make_function(st, Env(env.globals, env.vars if env.vars is not env.globals else env.globals), deco_env=cenv)
                _set_defcls(f, holder)
                ns[st.name] = f
            elif isinstance(st, ast.Expr) and isinstance(st.value, ast.Constant) or isinstance(st, ast.Pass):
                continue
            else:
                self.exec_stmt(st, cenv)
        base = _collections.namedtuple(node.name, names, defaults=defaults or None)
        ns.setdefault('__slots__', ())
        cls = type(node.name, (base,), ns)
        holder.append(cls)
        return cls

    def _make_enum(self, node, env, bases, decos):
        members = []
        methods = {}
        scope = {}
        cenv = Env(env.globals, _ChainDict(scope, env.vars), None)
        auto_n = [0]
        base = bases[-1]
        is_flag = issubclass(base, enum.Flag)
        holder = []
        for st in node.body:
            if isinstance(st, ast.Assign) and len(st.targets) == 1 and isinstance(st.targets[0], ast.Name):
                name = st.targets[0].id
                if src(st.value) in ('enum.auto()', 'auto()'):
                    auto_n[0] += 1
                    val = (1 << (auto_n[0] - 1)) if is_flag else auto_n[0]
                else:
                    val = self.eval(st.value, cenv)
                if name.startswith('_'):
                    continue
                scope[name] = val
                members.append((name, val))
            elif isinstance(st, (ast.FunctionDef, ast.AsyncFunctionDef)):
                f = self.make_function(st, Env(env.globals, env.globals))
                _set_defcls(f, holder)
                methods[st.name] = f
            elif isinstance(st, ast.Expr) and isinstance(st.value, ast.Constant):
                continue
            elif isinstance(st, ast.Pass):
                continue
            else:
                raise Unsupported(f'enum body statement {type(st).__name__} in {node.name}')
        # mixin bases other than enum classes (e.g. Token) are kept as plain bases
        mixins = tuple(b for b in bases if not (isinstance(b, type) and issubclass(b, enum.Enum)))
        enum_bases = [b for b in bases if isinstance(b, type) and issubclass(b, enum.Enum)]
        ebase = enum_bases[-1]
        if not members:
            # an enum base class with behaviour only (e.g. EnumToken)
            ns = enum.EnumType.__prepare__(node.name, mixins + (ebase,))
            for k, v in methods.items():
                if k == '__new__':
                    continue
                ns[k] = v
            cls = enum.EnumType(node.name, mixins + (ebase,), ns)
            cls.__hv_methods__ = methods
            holder.append(cls)
            return cls
        ns = enum.EnumType.__prepare__(node.name, mixins + (ebase,))
        for k, v in methods.items():
            if k in ('__new__', '_missing_'):
                continue
            ns[k] = v
        for name, val in members:
            ns[name] = val
        cls = enum.EnumType(node.name, mixins + (ebase,), ns)
        holder.append(cls)
        for d in node.decorator_list:
            cls = self.eval(d, env)(cls) or cls
        return cls

    # ------------------------------------------------------------------ pattern matching
    def match(self, pat, subject, env, binds):
        if isinstance(pat, ast.MatchValue):
            return subject == self.eval(pat.value, env)
        if isinstance(pat, ast.MatchSingleton):
            return subject is pat.value
        if isinstance(pat, ast.MatchAs):
            if pat.pattern is not None and not self.match(pat.pattern, subject, env, binds):
                return False
            if pat.name:
                binds[pat.name] = subject
            return True
        if isinstance(pat, ast.MatchOr):
            for p in pat.patterns:
                b = {}
                if self.match(p, subject, env, b):
                    binds.update(b)
                    return True
            return False
        if isinstance(pat, ast.MatchSequence):
            if isinstance(subject, (str, bytes, bytearray)) or not isinstance(subject, (tuple, list)):
                return False
            pats = pat.patterns
            stars = [i for i, p in enumerate(pats) if isinstance(p, ast.MatchStar)]
            if stars:
                i = stars[0]
                after = len(pats) - i - 1
                if len(subject) < len(pats) - 1:
                    return False
                head, mid, tail = subject[:i], subject[i:len(subject) - after], subject[len(subject) - after:] if after else []
                if not all(self.match(p, s_, env, binds) for p, s_ in zip(pats[:i], head)):
                    return False
                if not all(self.match(p, s_, env, binds) for p, s_ in zip(pats[i + 1:], tail)):
                    return False
                if pats[i].name is not None:
                    binds[pats[i].name] = list(mid)
                return True
            if len(pats) != len(subject):
                return False
            return all(self.match(p, s, env, binds) for p, s in zip(pats, subject))
        if isinstance(pat, ast.MatchClass):
            cls = self.eval(pat.cls, env)
            if not isinstance(subject, cls):
                return False
            if pat.patterns:
                margs = getattr(cls, '__match_args__', None)
                if margs is None:
                    if cls in (int, str, bytes, bool, float, tuple, list, dict, set, frozenset) and len(pat.patterns) == 1:
                        return self.match(pat.patterns[0], subject, env, binds)
                    raise TypeError(f'{cls.__name__}() accepts 0 positional sub-patterns')
                if len(pat.patterns) > len(margs):
                    raise TypeError('too many positional sub-patterns')
                for p, name in zip(pat.patterns, margs):
                    if not hasattr(subject, name) or not self.match(p, getattr(subject, name), env, binds):
                        return False
            for name, p in zip(pat.kwd_attrs, pat.kwd_patterns):
                if not hasattr(subject, name) or not self.match(p, getattr(subject, name), env, binds):
                    return False
            return True
        raise Unsupported(f'pattern {type(pat).__name__}')

    # ------------------------------------------------------------------ expressions
    def lookup(self, name, env):
        if name in env.vars:
            return env.vars[name]
        if name in env.globals:
            return env.globals[name]
        if name in SAFE_BUILTINS:
            if name == 'set' and getattr(self, 'set_order', None):
                return self._set_cls()
            return SAFE_BUILTINS[name]
        raise NameError(f'name {name!r} is not defined (interpreted)')

    def eval(self, node, env):
        self.tick()
        t = type(node)
        if t is ast.Constant:
            return node.value
        if t is ast.Name:
            return self.lookup(node.id, env)
        if t is ast.Attribute:
            return getattr(self.eval(node.value, env), node.attr)
        if t is ast.Call:
            return self.eval_call(node, env)
        if t is ast.BinOp:
            r = BINOPS[type(node.op)](self.eval(node.left, env), self.eval(node.right, env))
            if type(r) is set and getattr(self, 'set_order', None):
                r = self._set_cls()(r)
            return r
        if t is ast.UnaryOp:
            return UNOPS[type(node.op)](self.eval(node.operand, env))
        if t is ast.BoolOp:
            if isinstance(node.op, ast.And):
                v = True
                for x in node.values:
                    v = self.eval(x, env)
                    if not v:
                        return v
                return v
            v = False
            for x in node.values:
                v = self.eval(x, env)
                if v:
                    return v
            return v
        if t is ast.Compare:
            left = self.eval(node.left, env)
            for op, right in zip(node.ops, node.comparators):
                r = self.eval(right, env)
                if not CMPOPS[type(op)](left, r):
                    return False
                left = r
            return True
        if t is ast.IfExp:
            return self.eval(node.body if self.eval(node.test, env) else node.orelse, env)
        if t is ast.Tuple:
            return tuple(self._elts(node.elts, env))
        if t is ast.List:
            return list(self._elts(node.elts, env))
        if t is ast.Set:
            return self._set_cls()(self._elts(node.elts, env))
        if t is ast.Dict:
            d = {}
            for k, v in zip(node.keys, node.values):
                if k is None:
                    d.update(self.eval(v, env))
                else:
                    d[self.eval(k, env)] = self.eval(v, env)
            return d
        if t is ast.Subscript:
            return self.eval(node.value, env)[self.eval(node.slice, env)]
        if t is ast.Slice:
            return slice(self.eval(node.lower, env) if node.lower else None,
                         self.eval(node.upper, env) if node.upper else None,
                         self.eval(node.step, env) if node.step else None)
        if t is ast.JoinedStr:
            out = []
            for v in node.values:
                if isinstance(v, ast.Constant):
                    out.append(v.value)
                else:
                    val = self.eval(v.value, env)
                    if v.conversion == ord('r'):
                        val = repr(val)
                    elif v.conversion == ord('s'):
                        val = str(val)
                    spec = self.eval(v.format_spec, env) if v.format_spec is not None else ''
                    out.append(format(val, spec))
            return ''.join(out)
        if t is ast.NamedExpr:
            v = self.eval(node.value, env)
            env.vars[node.target.id] = v
            return v
        if t is ast.Lambda:
            return IFunc(self, node, env.globals, env.defcls, dict(env.vars) if env.vars is not env.globals else None)
        if t in (ast.ListComp, ast.SetComp, ast.GeneratorExp, ast.DictComp):
            return self._comp(node, env)
        if t is ast.Yield or t is ast.YieldFrom:
            sink = env.vars.get('__yield_sink__')
            if sink is None:
                raise Unsupported('yield outside an eagerly evaluated generator')
            if t is ast.Yield:
                sink.items.append(self.eval(node.value, env) if node.value is not None else None)
                return None
            inner = self.eval(node.value, env)
            if isinstance(inner, EagerGen):
                sink.items.extend(inner.items)
                return inner.value
            sink.items.extend(list(inner))
            return None
        if t is ast.Starred:
            raise Unsupported('starred expression outside call')
        if t is ast.Await:
            return self.do_await(self.eval(node.value, env))
        raise Unsupported(f'expression {t.__name__}')

    def _elts(self, elts, env):
        # (a list, not a generator: a StopIteration raised by interpreted code must pass through unchanged)
        out = []
        for e in elts:
            if isinstance(e, ast.Starred):
                out.extend(self.eval(e.value, env))
            else:
                out.append(self.eval(e, env))
        return out

    def _comp(self, node, env):
        results = []
        local = Env(env.globals, _ChainDict({}, env.vars), env.defcls)

        def rec(gens):
            if not gens:
                if isinstance(node, ast.DictComp):
                    results.append((self.eval(node.key, local), self.eval(node.value, local)))
                else:
                    results.append(self.eval(node.elt, local))
                return
            g = gens[0]
            for item in self.eval(g.iter, local):
                self.assign(g.target, item, local)
                if all(self.eval(c, local) for c in g.ifs):
                    rec(gens[1:])
        rec(node.generators)
        if isinstance(node, ast.ListComp):
            return results
        if isinstance(node, ast.SetComp):
            return self._set_cls()(results)
        if isinstance(node, ast.DictComp):
            return dict(results)
        return iter(results)

    def do_await(self, v):
        """`await v`, synchronously.  A coroutine is run in place.  Anything else is an awaitable of the driver protocol of
        hidc.parser.rules (its __await__ hands the object to the driver, which answers with `obj.process(position)`): the
        innermost driver frame (pushed by the native stand-in for the driver loop, see hidverif/frontend.py) plays that part."""
        if isinstance(v, Coro):
            return v.run()
        drivers = getattr(self, 'drivers', None)
        if not drivers:
            raise Unsupported('await outside an interpreted driver')
        frame = drivers[-1]
        result, cur = v.process(frame['cur'])
        frame['cur'] = cur
        if not frame['backtrack']:
            frame['start'] = cur
        return result

    def _set_cls(self):
        order = getattr(self, 'set_order', None)
        return SetFwd if order == 'fwd' else SetRev if order == 'rev' else set

    def eval_call(self, node, env):
        # zero-argument super()
        if isinstance(node.func, ast.Name) and node.func.id == 'super' and not node.args:
            defcls = env.defcls[0] if env.defcls else None
            if defcls is None:
                raise Unsupported('super() outside a class')
            first = next(iter(env.vars.values())) if env.vars else None
            selfobj = env.vars.get('self', env.vars.get('cls', first))
            return super(defcls, selfobj)
        f = self.eval(node.func, env)
        args = list(self._elts(node.args, env))
        kwargs = {}
        for k in node.keywords:
            if k.arg is None:
                kwargs.update(self.eval(k.value, env))
            else:
                kwargs[k.arg] = self.eval(k.value, env)
        if f in (getattr(builtins, n) for n in ('open', 'exec', 'eval', 'compile', '__import__', 'input')):
            raise Unsupported('forbidden builtin')
        return f(*args, **kwargs)


class _EagerIter:
    """Iterator over an eagerly evaluated generator: ends with StopIteration carrying the generator's return value."""

    def __init__(self, gen):
        self.gen = gen
        self.pos = 0

    def __iter__(self):
        return self

    def __next__(self):
        if self.pos < len(self.gen.items):
            self.pos += 1
            return self.gen.items[self.pos - 1]
        raise StopIteration(self.gen.value)


class Coro:
    """The result of calling an interpreted `async def` (Interp.allow_async): arguments bound, body not yet run.  It is run,
    synchronously, when it is awaited."""

    def __init__(self, interp, node, env):
        self.interp, self.node, self.env = interp, node, env
        self.done = False

    def run(self):
        if self.done:
            raise RuntimeError('cannot reuse already awaited coroutine')
        self.done = True
        try:
            self.interp.exec_block(self.node.body, self.env)
        except _Return as r:
            return r.value
        return None


class EagerGen:
    """Result of eagerly evaluating a generator function: the yielded items and the return value."""

    def __init__(self):
        self.items = []
        self.value = None

    def __iter__(self):
        return _EagerIter(self)

    def __next__(self):
        # `next(gen)` on an eagerly evaluated generator: items in order, then StopIteration carrying the return value
        pos = self.__dict__.setdefault('_pos', 0)
        if pos < len(self.items):
            self.__dict__['_pos'] = pos + 1
            return self.items[pos]
        raise StopIteration(self.value)


def _own_nodes(fn):
    stack = list(fn.body) if hasattr(fn, 'body') and isinstance(fn.body, list) else [fn.body]
    while stack:
        n = stack.pop()
        yield n
        for c in ast.iter_child_nodes(n):
            if isinstance(c, (ast.FunctionDef, ast.AsyncFunctionDef, ast.ClassDef, ast.Lambda)):
                continue
            stack.append(c)


class _ModuleView:
    def __init__(self, ns):
        self.__dict__['_ns'] = ns

    def __getattr__(self, name):
        try:
            return self._ns[name]
        except KeyError:
            raise AttributeError(name)


class _ChainDict(dict):
    """dict that falls back to a parent mapping for reads."""

    def __init__(self, own, parent):
        super().__init__()
        self.own = own
        self.parent = parent

    def __contains__(self, k):
        return k in self.own or k in self.parent

    def __getitem__(self, k):
        if k in self.own:
            return self.own[k]
        return self.parent[k]

    def __setitem__(self, k, v):
        self.own[k] = v

    def get(self, k, d=None):
        return self[k] if k in self else d

    def pop(self, k, d=None):
        return self.own.pop(k, d)

    def update(self, other):
        self.own.update(other)

    def values(self):
        return list(self.own.values()) + list(self.parent.values())

    def items(self):
        return list(self.own.items())


def _set_defcls(f, holder):
    target = f
    if isinstance(f, property):
        target = f.fget
    elif isinstance(f, (staticmethod, classmethod)):
        target = f.__func__
    if isinstance(target, IFunc):
        target.defcls = holder


def _load(target):
    import copy
    t = copy.copy(target)
    t.ctx = ast.Load()
    return t
