"""CANON: alpha-normalisation of local variable names.

Several rules describe emission templates in terms of the local variable names the repository uses
today (``index``, ``left_bubble``, ``handler`` ...).  A behaviour-preserving rename of a local must not
raise an alarm, so before a function is analysed its locals are renamed back to the names recorded in
``/verif/spec/roles.json``.  A local is recognised by the *expression that defines it* (for example
``yield from self.get_expr_value(self.r1, idx_expr)``), never by its name or line; a local whose
definition is not in the table keeps its own name.  The table is generated from the repository by
``tools/gen_roles.py`` and committed.
"""
from __future__ import annotations

import ast
import json
import os

from .pyfacts import src

SPEC = os.path.join(os.path.dirname(os.path.dirname(os.path.abspath(__file__))), 'spec', 'roles.json')
_ROLES = None


def roles():
    global _ROLES
    if _ROLES is None:
        try:
            with open(SPEC) as f:
                _ROLES = json.load(f)
        except (OSError, ValueError):
            _ROLES = {}
    return _ROLES


def _ordered(node):
    """Pre-order traversal in source order, not descending into nested defs / lambdas / comprehensions."""
    for child in ast.iter_child_nodes(node):
        if isinstance(child, (ast.FunctionDef, ast.AsyncFunctionDef, ast.ClassDef, ast.Lambda)):
            continue
        yield child
        if isinstance(child, (ast.ListComp, ast.SetComp, ast.DictComp, ast.GeneratorExp)):
            continue
        yield from _ordered(child)


def binding_sites(fn):
    """[(name, kind, defining node)] in source order."""
    out = []
    params = {a.arg for a in fn.args.posonlyargs + fn.args.args + fn.args.kwonlyargs}
    if fn.args.vararg:
        params.add(fn.args.vararg.arg)
    if fn.args.kwarg:
        params.add(fn.args.kwarg.arg)
    for n in _ordered(fn):
        if isinstance(n, ast.Assign):
            for t in n.targets:
                if isinstance(t, ast.Name):
                    out.append((t.id, 'v', n.value))
                elif isinstance(t, (ast.Tuple, ast.List)):
                    for i, e in enumerate(t.elts):
                        if isinstance(e, ast.Name):
                            out.append((e.id, f'v#{i}', n.value))
        elif isinstance(n, ast.AnnAssign) and isinstance(n.target, ast.Name) and n.value is not None:
            out.append((n.target.id, 'v', n.value))
        elif isinstance(n, ast.NamedExpr):
            out.append((n.target.id, 'v', n.value))
        elif isinstance(n, (ast.For, ast.AsyncFor)):
            t = n.target
            if isinstance(t, ast.Name):
                out.append((t.id, 'for', n.iter))
            elif isinstance(t, (ast.Tuple, ast.List)):
                for i, e in enumerate(t.elts):
                    if isinstance(e, ast.Name):
                        out.append((e.id, f'for#{i}', n.iter))
        elif isinstance(n, (ast.With, ast.AsyncWith)):
            for item in n.items:
                if isinstance(item.optional_vars, ast.Name):
                    out.append((item.optional_vars.id, 'with', item.context_expr))
        elif isinstance(n, ast.ExceptHandler) and n.name:
            out.append((n.name, 'except', n.type))
        elif isinstance(n, ast.MatchAs) and n.name:
            out.append((n.name, 'match', n.pattern))
    return [(nm, k, v) for nm, k, v in out if nm not in params], params


class _Rename(ast.NodeTransformer):
    def __init__(self, mapping):
        self.mapping = mapping

    def visit_Name(self, node):
        if node.id in self.mapping:
            return ast.copy_location(ast.Name(id=self.mapping[node.id], ctx=node.ctx), node)
        return node

    def visit_MatchAs(self, node):
        self.generic_visit(node)
        if node.name in self.mapping:
            node.name = self.mapping[node.name]
        return node

    def visit_ExceptHandler(self, node):
        self.generic_visit(node)
        if node.name in self.mapping:
            node.name = self.mapping[node.name]
        return node


def _text(node, mapping):
    if node is None:
        return 'None'
    if not mapping:
        return src(node)
    import copy
    clone = _strip(node)
    return ast.unparse(_Rename(mapping).visit(clone))


def _strip(node):
    """Deep copy without _parent links / caches."""
    if isinstance(node, ast.AST):
        new = type(node).__new__(type(node))
        for name in node._fields:
            setattr(new, name, _strip(getattr(node, name, None)))
        for name in ('lineno', 'col_offset', 'end_lineno', 'end_col_offset'):
            if hasattr(node, name):
                setattr(new, name, getattr(node, name))
        return new
    if isinstance(node, list):
        return [_strip(x) for x in node]
    return node


def signatures(fn, table=None):
    """Per local variable (in order of first binding): list of signature keys.  When ``table`` is given, canonical
    names found so far are substituted into later signatures."""
    sites, params = binding_sites(fn)
    mapping = {}
    counts = {}
    per_var = {}
    order = []
    for name, kind, value in sites:
        text = f'{kind}:{_text(value, mapping)}'
        k = counts.get(text, 0)
        counts[text] = k + 1
        key = f'{text}@{k}'
        if name not in per_var:
            per_var[name] = []
            order.append(name)
            if table is not None:
                canon = table.get(key)
                if canon and canon != name:
                    mapping[name] = canon
        per_var[name].append(key)
    return order, per_var, mapping, params


def canonicalise(fn, key):
    """Return fn (possibly a renamed copy) with locals renamed to the names recorded for ``key``."""
    table = roles().get(key)
    if not table:
        return fn
    order, per_var, mapping, params = signatures(fn, table)
    if not mapping:
        return fn
    # a rename must not capture another name used in the function
    used = {n.id for n in ast.walk(fn) if isinstance(n, ast.Name)} | params
    safe = {}
    for old, new in mapping.items():
        if new in used and new not in mapping:
            # the canonical name is already in use here: merging is only safe when that use is the canonical
            # variable itself (all of its definitions are recorded under this very name), not a new meaning
            keys = per_var.get(new)
            if new in params or keys is None or not all(table.get(k) == new for k in keys):
                continue
        safe[old] = new
    if not safe:
        return fn
    clone = _Rename(safe).visit(_strip(fn))
    ast.fix_missing_locations(clone)
    for node in ast.walk(clone):
        for child in ast.iter_child_nodes(node):
            child._parent = node
    clone._parent = getattr(fn, '_parent', None)
    clone._canon_renamed = dict(safe)
    return clone


def build_table(fn):
    """signature key -> name, for generating spec/roles.json from the current tree."""
    order, per_var, _, _ = signatures(fn, None)
    table = {}
    clash = set()
    for name, keys in per_var.items():
        for k in keys:
            if k in table and table[k] != name:
                clash.add(k)
            table[k] = name
    for k in clash:
        table.pop(k, None)
    return table
