"""Placement table for the flavour / context rules (C06): every context-sensitive construct placed at every semantic
position that legal nesting can reach (function flavour x try body / handler / preempt body / loop / ?? operand, nesting
depth bounded), parsed by the interpreted front end (hidverif.frontend) and compared with the documented rule
(ctxflow.expected), which is written from the property text and knows nothing of the grammar."""
from __future__ import annotations

import itertools

from .ctxflow import Sem, expected

HEAD = {'NONE': 'empty f()', 'YOU': 'empty @f()', 'DEFEAT': 'empty !f()'}

# statement-level constructs: (name in expected(), source)
STATEMENTS = [
    ('call:NONE', 'g();'), ('call:YOU', '@g();'), ('call:DEFEAT', '!g();'),
    ('TryBlock', 'try { } undo { }'), ('TryBlock', 'try { } stop { }'), ('PreemptBlock', 'preempt { }'),
    ('Speculation', 'int v = 1 ?? 2;'), ('BreakStatement', 'break;'), ('ContinueStatement', 'continue;'),
]
# expression-level constructs placed inside an operand of ??
OPERANDS = [('call:NONE', 'g()'), ('call:YOU', '@g()'), ('call:DEFEAT', '!g()')]


def wrappers(sem, full=True):
    """Legal ways to go one level deeper from `sem`: (label, template with {}, new sem)."""
    out = [('while', 'while (true) { @@ }', Sem(sem.flavor, sem.try_body, True, sem.spec)),
           ('for', 'for (;;) { @@ }', Sem(sem.flavor, sem.try_body, True, sem.spec)),
           ('if', 'if (true) { @@ }', sem), ('else', 'if (true) { } else { @@ }', sem), ('block', '{ @@ }', sem)]
    if expected('TryBlock', sem):
        out.append(('try-body', 'try { @@ } undo { }', Sem(sem.flavor, True, sem.loop, sem.spec)))
        out.append(('undo', 'try { } undo { @@ }', sem))
        out.append(('stop', 'try { } stop { @@ }', sem))
    if expected('PreemptBlock', sem):
        out.append(('preempt', 'preempt { @@ }', sem))
    if not full:
        out = [w for w in out if w[0] in ('while', 'try-body', 'undo', 'preempt')]
    return out


def positions(depth, full=True):
    """(label, program template with one {}, sem) for every position reachable with up to `depth` wrappers."""
    out = []
    for flav, head in HEAD.items():
        base = (flav, head + ' { @@ }', Sem(flav))
        level = [base]
        out.append(base)
        for _ in range(depth):
            nxt = []
            for label, tmpl, sem in level:
                for wl, wt, wsem in wrappers(sem, full):
                    nxt.append((f'{label}>{wl}', tmpl.replace('@@', wt), wsem))
            out += nxt
            level = nxt
    return out


def cases(depth, full=True):
    seen = set()
    out = []
    for label, tmpl, sem in positions(depth, full):
        for name, text in STATEMENTS:
            want = expected(name, sem)
            out.append((f'{label}: {text}', tmpl.replace('@@', text), name, sem, want))
        # operands of ?? (only where ?? itself is legal: otherwise the rejection says nothing about the operand)
        if expected('Speculation', sem):
            osem = Sem(sem.flavor, sem.try_body, sem.loop, True)
            for name, text in OPERANDS:
                want = expected(name, osem)
                for form in (('int v = @@ ?? 2;', 'int v = 1 ?? @@;', 'int v = (@@) ?? 2;', 'int v = 1 ?? 2 + @@;') if full else
                             ('int v = @@ ?? 2;', 'int v = 1 ?? 2 + @@;')):
                    out.append((f'{label}: {form.replace("@@", text)}', tmpl.replace('@@', form.replace('@@', text)), name, osem, want))
    # globals are initialised without calls
    for name, text in OPERANDS:
        out.append((f'global: int x = {text};', f'int x = {text}; empty @is_you() {{ }}', name, Sem('GLOBAL'), False))
    out.append(('global: int x = 1 + 2;', 'int x = 1 + 2; empty @is_you() { }', 'plain', Sem('GLOBAL'), True))
    res = []
    for c in out:
        if c[1] not in seen:
            seen.add(c[1])
            res.append(c)
    return res


def _chunk(args):
    root, depth, full, k, jobs = args
    from .pyfacts import Repo
    from .frontend import Frontend
    return run_table(Frontend(Repo(root)), depth, full, cases(depth, full)[k::jobs])


def run_table_parallel(root, depth, full=True, jobs=8):
    from concurrent.futures import ProcessPoolExecutor
    bad, n, dist = [], 0, set()
    with ProcessPoolExecutor(max_workers=jobs) as ex:
        for b_, n_, d_ in ex.map(_chunk, [(root, depth, full, k, jobs) for k in range(jobs)]):
            bad += b_
            n += n_
            dist |= d_
    return sorted(bad), n, dist


def run_table(fe, depth, full=True, todo=None):
    """[(label, program, got, want)] where the interpreted parser and the documented rule disagree; counts."""
    bad = []
    n = 0
    n_dist = set()
    for label, prog, name, sem, want in (cases(depth, full) if todo is None else todo):
        if want is None:
            continue
        try:
            res = fe.parse(prog)
            accepted = not (isinstance(res, tuple) and res and res[0] == 'error')
            detail = res[2] if not accepted else ''
        except Exception as e:      # noqa: BLE001
            accepted, detail = None, f'{type(e).__name__}: {e}'
        n += 1
        n_dist.add((name, str(sem)))
        if accepted is not want:
            bad.append((label, prog, f'{"accepted" if accepted else "rejected" if accepted is False else "crashed"} {detail}'.strip(),
                        'accept' if want else 'reject'))
    return bad, n, n_dist
