"""ASMTEXT: the hand-written Sphinx assembly embedded in hidc/codegen/stdlib.py.

The text is taken from the string constant in the syntax tree; it is parsed into
labels + instructions and a control-flow graph under the Sphinx lemmas
(TJ: ``j`` has two successors; H: halt-class instructions may halt or fall through).
"""
from __future__ import annotations

import ast
import re
import textwrap
from dataclasses import dataclass, field

from .pyfacts import AnalysisError, src

STDLIB = 'hidc/codegen/stdlib.py'

COND_HALTS = {'heq', 'hne', 'hlt', 'hle', 'hgt', 'hge', 'hltu', 'hleu', 'hgtu', 'hgeu'}
INVERSE = {'heq': 'hne', 'hne': 'heq', 'hlt': 'hge', 'hge': 'hlt', 'hgt': 'hle', 'hle': 'hgt',
           'hltu': 'hgeu', 'hgeu': 'hltu', 'hgtu': 'hleu', 'hleu': 'hgtu'}
ARITH = {'add', 'sub', 'mul', 'div', 'mod', 'and', 'or', 'xor', 'asl', 'asr'}
LOADS = {'lws', 'lwc', 'lbs', 'lbc'}
LOADS_OFF = {'lwso', 'lwco', 'lbso', 'lbco'}
STORES = {'sws', 'sbs'}
STORES_OFF = {'swso', 'sbso'}
OBSERVABLE = {'yield', 'flag', 'sleep'}
KNOWN = COND_HALTS | ARITH | LOADS | LOADS_OFF | STORES | STORES_OFF | OBSERVABLE | {'j', 'halt', 'mov'}


@dataclass
class Ins:
    idx: int
    op: str
    args: list
    labels: list = field(default_factory=list)
    lineno: int = 0      # line within the text block
    raw: str = ''

    def __str__(self):
        return f'{self.op} {", ".join(self.args)}'.strip()


class AsmText:
    def __init__(self, repo):
        # The emitted library is whatever the module binds to `stdlib_lines`.  However the Python source composes it
        # (one literal, several pieces joined, helper functions producing repeated fragments), the value is a pure
        # function of the module text: it is obtained by interpreting the module's syntax tree (CONSTEVAL; the
        # repository is never imported), not by looking for one particular string constant.
        from .consteval import Interp
        cache = repo.__dict__.setdefault('_asmtext_cache', {})
        if 'lines' not in cache:
            it = Interp(repo)
            it.allow_generators = True
            try:
                ns = it.load(STDLIB)
                val = ns['stdlib_lines']
                val = list(val)
            except AnalysisError:
                raise
            except Exception as e:      # noqa: BLE001
                raise AnalysisError(f'stdlib_lines: cannot evaluate the library text of {STDLIB}: {type(e).__name__}: {e}')
            cache['lines'] = val
        val = cache['lines']
        self.emitted = val
        # shape of the value gen_lines will write out line by line
        self.shape_problem = None
        if not val or not all(isinstance(x, bytes) for x in val):
            self.shape_problem = 'stdlib_lines is not a non-empty list of bytes objects'
        elif any(b'\n' in x or b'\r' in x for x in val):
            self.shape_problem = 'an element of stdlib_lines contains a line break'
        elif any(not x.strip() for x in val):
            self.shape_problem = 'stdlib_lines contains blank elements'
        if self.shape_problem and not all(isinstance(x, bytes) for x in val or [0]):
            raise AnalysisError('stdlib_lines: ' + self.shape_problem)
        try:
            self.lines = [x.decode('utf-8') for x in val]
        except UnicodeDecodeError as e:
            raise AnalysisError(f'stdlib_lines: {e}')
        # best effort source line of the text (for messages only): the first long string constant of the module
        consts = [n for n in ast.walk(repo.module(STDLIB)) if isinstance(n, ast.Constant) and isinstance(n.value, str)
                  and '\n' in n.value and len(n.value) > 40]
        self.base_line = consts[0].lineno if len(consts) == 1 else 0
        self.ins = []
        self.labels = {}
        self._parse()

    def _parse(self):
        pending = []
        for n, raw in enumerate(self.lines):
            line = raw.strip()
            if not line:
                continue
            # strip comments (no ';' inside char literals in this text except none)
            if line.startswith(';'):
                continue
            m = re.match(r"^((?:[A-Za-z_][A-Za-z_0-9]*\s*:\s*)+)(.*)$", line)
            if m:
                for lab in re.findall(r'([A-Za-z_][A-Za-z_0-9]*)\s*:', m.group(1)):
                    if lab in self.labels or lab in pending:
                        raise AnalysisError(f'duplicate label {lab} in stdlib text')
                    pending.append(lab)
                line = m.group(2).strip()
            if not line:
                continue
            # split comment
            line = self._strip_comment(line)
            parts = line.split(None, 1)
            op = parts[0]
            args = self._split_args(parts[1]) if len(parts) > 1 else []
            ins = Ins(len(self.ins), op, args, pending, n, raw)
            for lab in pending:
                self.labels[lab] = ins.idx
            pending = []
            self.ins.append(ins)
        if pending:
            raise AnalysisError(f'labels {pending} at end of stdlib text label nothing')

    @staticmethod
    def _strip_comment(line):
        out = []
        in_q = False
        i = 0
        while i < len(line):
            c = line[i]
            if in_q:
                out.append(c)
                if c == '\\' and i + 1 < len(line):
                    out.append(line[i + 1])
                    i += 1
                elif c == "'":
                    in_q = False
            else:
                if c == ';':
                    break
                if c == "'":
                    in_q = True
                out.append(c)
            i += 1
        return ''.join(out).strip()

    @staticmethod
    def _split_args(text):
        args, cur, in_q = [], '', False
        i = 0
        while i < len(text):
            c = text[i]
            if in_q:
                cur += c
                if c == '\\' and i + 1 < len(text):
                    cur += text[i + 1]
                    i += 1
                elif c == "'":
                    in_q = False
            elif c == "'":
                in_q = True
                cur += c
            elif c == ',':
                args.append(cur.strip())
                cur = ''
            else:
                cur += c
            i += 1
        if cur.strip():
            args.append(cur.strip())
        return args

    # ------------------------------------------------------------------
    def successors(self, i):
        """CFG successors under TJ/H.  'HALT' marks a possible halt."""
        ins = self.ins[i]
        nxt = i + 1 if i + 1 < len(self.ins) else None
        if ins.op == 'halt':
            return ['HALT']
        if ins.op in COND_HALTS:
            return ['HALT'] + ([nxt] if nxt is not None else ['END'])
        if ins.op == 'j':
            tgt = ins.args[0]
            out = []
            if tgt in self.labels:
                out.append(self.labels[tgt])
            else:
                out.append('INDIRECT')
            out.append(nxt if nxt is not None else 'END')
            return out
        return [nxt if nxt is not None else 'END']

    def routine_of(self, i):
        """Nearest preceding label that is an entry point (not referenced only locally)."""
        while i >= 0:
            if self.ins[i].labels:
                return self.ins[i].labels[0]
            i -= 1
        return None


def parse_offset(text):
    """Parse an immediate like ``-3w``, ``-1w - 1``, ``1w``, ``10`` into (a, b) meaning a*w + b.
    Returns None if not of that form."""
    t = text.replace(' ', '')
    if not t:
        return None
    toks = re.findall(r'[+-]?[^+-]+', t)
    a = b = 0
    for tok in toks:
        m = re.fullmatch(r'([+-]?)(0x[0-9a-fA-F]+|\d+)(w?)', tok)
        if not m:
            return None
        sign = -1 if m.group(1) == '-' else 1
        val = int(m.group(2), 0) * sign
        if m.group(3):
            a += val
        else:
            b += val
    return (a, b)
