"""Static verification machinery for hidc (benburrill/halt_is_defeat).

Every module here reads the source of the repository with ``ast`` only;
nothing imports ``hidc`` or runs the compiler.
"""
