"""EFG: emission flow graph of instruction-generator functions.

For a generator function (one that ``yield``s instruction objects) this module
produces every acyclic control-flow path (loops unrolled 0..N times) as a list
of *events* in evaluation order:

  emit    ``yield <ctor>(args)``            an instruction / label / metadata
  sub     ``yield from <callee>(args)``     nested generator, spliced instructions
  splice  ``yield from <name>``             pre-built instruction tuple parameter
  silent  ``list(gen) / tuple(gen) / next(gen)``   generator run for book-keeping
  call    plain call ``self.m(...)`` / ``x.m(...)``  (no instructions)
  assign  ``name = value`` (also walrus, augmented, tuple targets)
  cond    a branch assumption (test text, truth)
  case    a match arm taken (subject text, pattern text)
  assert / raise / return / enter / exit (with-blocks) / iter (loop iteration)

Everything is derived from syntax; no repository code is executed.
"""
from __future__ import annotations

import ast
import copy
import functools
from dataclasses import dataclass, field

from .pyfacts import AnalysisError, src


_SWAP_CMP = {ast.Gt: ast.Lt, ast.GtE: ast.LtE}
_NEG_CMP = {ast.NotEq: ast.Eq, ast.NotIn: ast.In, ast.IsNot: ast.Is}


def _class_tuple(node):
    """`A | B | C` / `(A, B)` / `A`  ->  sorted list of class texts."""
    if isinstance(node, ast.BinOp) and isinstance(node.op, ast.BitOr):
        return _class_tuple(node.left) + _class_tuple(node.right)
    if isinstance(node, ast.Tuple):
        out = []
        for e in node.elts:
            out += _class_tuple(e)
        return out
    return [src(node)]


def norm_test(node):
    """Canonical spelling of a primitive branch test: (text, flip).

    Equivalent spellings a refactoring may swap get one text; `flip` says that the canonical test is the negation
    of the written one:  not X -> X (flip);  a != b -> a == b (flip), operands of == / is in text order;
    x not in S -> x in S (flip);  a > b -> b < a;  a >= b -> b <= a;  isinstance(x, A | B) -> isinstance(x, (A, B))
    with the classes in text order.  Everything else keeps its own text."""
    flip = False
    while isinstance(node, ast.UnaryOp) and isinstance(node.op, ast.Not):
        node, flip = node.operand, not flip
    if isinstance(node, ast.Compare) and len(node.ops) == 1:
        op, left, right = type(node.ops[0]), node.left, node.comparators[0]
        if op in _NEG_CMP:
            op, flip = _NEG_CMP[op], not flip
        if op in _SWAP_CMP:
            op, left, right = _SWAP_CMP[op], right, left
        lt, rt = src(left), src(right)
        if op in (ast.Eq, ast.Is) and rt < lt:
            lt, rt = rt, lt
        sym = {ast.Eq: '==', ast.Is: 'is', ast.In: 'in', ast.Lt: '<', ast.LtE: '<='}.get(op)
        if sym:
            return f'{lt} {sym} {rt}', flip
    if isinstance(node, ast.Call) and src(node.func) == 'isinstance' and len(node.args) == 2 and not node.keywords:
        classes = sorted(set(_class_tuple(node.args[1])))
        cl = classes[0] if len(classes) == 1 else '(' + ', '.join(classes) + ')'
        return f'isinstance({src(node.args[0])}, {cl})', flip
    return src(node), flip


@functools.lru_cache(maxsize=4096)
def norm_text(text):
    """norm_test for a test given as source text (used by rules to spell the test they ask about)."""
    try:
        node = ast.parse(text, mode='eval').body
    except SyntaxError:
        return text, False
    return norm_test(node)


class Conds(dict):
    """{canonical test text: truth} of one path; lookups accept any equivalent spelling of the test."""

    def __init__(self, events=()):
        super().__init__()
        for e in events:
            if e.kind == 'cond':
                super().__setitem__(e.text, e.truth)

    def get(self, text, default=None):
        t, flip = norm_text(text)
        if dict.__contains__(self, t):
            v = dict.__getitem__(self, t)
            return (not v) if flip else v
        return default

    def __getitem__(self, text):
        t, flip = norm_text(text)
        v = dict.__getitem__(self, t)
        return (not v) if flip else v

    def __contains__(self, text):
        return dict.__contains__(self, norm_text(text)[0])

    def pop(self, text, *default):
        return dict.pop(self, norm_text(text)[0], *default)


def assert_text(test):
    """Canonical spelling of an asserted test (equivalent spellings give one text)."""
    if isinstance(test, ast.AST):
        t, flip = norm_test(test)
    else:
        t, flip = norm_text(test)
    return ('not ' if flip else '') + t


def cond_is(e, text):
    """For a cond event: the truth it assigns to the test spelled `text` (None if it is about another test)."""
    if e.kind != 'cond':
        return None
    t, flip = norm_text(text)
    if e.text != t:
        return None
    return (not e.truth) if flip else e.truth


@dataclass
class Ev:
    kind: str
    line: int = 0
    node: object = None
    ctor: str = ''          # emit: constructor expression text
    func: str = ''          # sub/silent/call: callee text, e.g. 'self.goto', '.to'
    recv: object = None     # sub/call on a receiver: ast node of receiver
    args: list = field(default_factory=list)
    kwargs: dict = field(default_factory=dict)
    bound: object = None    # name (str) or tuple of names the result is bound to
    target: str = ''        # assign target text
    value: object = None    # assign / return value node
    text: str = ''          # cond / case / assert text
    truth: bool = True
    origin: tuple = ()      # inline stack: names of helper functions this event came from

    def argsrc(self, i):
        return src(self.args[i]) if i < len(self.args) else None

    @property
    def argtexts(self):
        return [src(a) for a in self.args]

    def short(self):
        if self.kind == 'emit':
            return f'{self.ctor}({", ".join(self.argtexts)})'
        if self.kind in ('sub', 'silent', 'call'):
            r = src(self.recv) if self.recv is not None else ''
            b = f'{self.bound} = ' if self.bound else ''
            kw = ''.join(f', {k}={src(v)}' for k, v in self.kwargs.items())
            return f'{b}{self.kind}:{r}{self.func}({", ".join(self.argtexts)}{kw})'
        if self.kind == 'splice':
            return f'splice:{self.text}'
        if self.kind == 'assign':
            return f'{self.target} = {src(self.value)}'
        if self.kind == 'cond':
            return f'[{"" if self.truth else "not "}{self.text}]'
        if self.kind == 'case':
            return f'[case {self.text}]'
        if self.kind == 'return':
            return f'return {src(self.value)}'
        return f'{self.kind}:{self.text}'


GEN_WRAPPERS = {'list', 'tuple', 'next'}


def is_generator_function(fn):
    for n in ast.walk(fn):
        if isinstance(n, (ast.Yield, ast.YieldFrom)):
            # make sure the yield belongs to fn and not a nested def
            p = n
            while p is not fn:
                p = getattr(p, '_parent', None)
                if isinstance(p, (ast.FunctionDef, ast.AsyncFunctionDef, ast.Lambda)) and p is not fn:
                    break
            else:
                return True
            if p is fn:
                return True
    return False


class Extractor:
    """Turns expressions / statements into event lists, in evaluation order."""

    def __init__(self, self_methods=None):
        self.self_methods = self_methods or set()

    # -- expressions --------------------------------------------------------
    def expr_events(self, node, bound=None):
        """Events produced by evaluating ``node`` (post-order = evaluation order)."""
        out = []
        self._walk(node, out, bound)
        return out

    def _call_parts(self, call):
        """(func_text, recv_node) for a Call node."""
        f = call.func
        if isinstance(f, ast.Attribute):
            if isinstance(f.value, ast.Name) and f.value.id in ('self', 'asm', 'stdlib', 'ast'):
                return f'{f.value.id}.{f.attr}', None
            return f'.{f.attr}', f.value
        return src(f), None

    def _walk(self, node, out, bound=None):
        if node is None:
            return
        if isinstance(node, ast.YieldFrom):
            v = node.value
            if isinstance(v, ast.Call):
                for a in v.args:
                    self._walk(a, out)
                for k in v.keywords:
                    self._walk(k.value, out)
                func, recv = self._call_parts(v)
                if recv is not None:
                    self._walk(recv, out)
                out.append(Ev('sub', v.lineno, node, func=func, recv=recv, args=list(v.args),
                              kwargs={k.arg: k.value for k in v.keywords}, bound=bound))
            elif isinstance(v, ast.Name):
                out.append(Ev('splice', v.lineno, node, text=v.id, bound=bound))
            elif isinstance(v, ast.Tuple) and not v.elts:
                pass  # yield from ()
            else:
                self._walk(v, out)
                out.append(Ev('splice', node.lineno, node, text=src(v), bound=bound))
            return
        if isinstance(node, ast.Yield):
            v = node.value
            if isinstance(v, ast.Call):
                for a in v.args:
                    self._walk(a, out)
                for k in v.keywords:
                    self._walk(k.value, out)
                out.append(Ev('emit', v.lineno, node, ctor=src(v.func), args=list(v.args),
                              kwargs={k.arg: k.value for k in v.keywords}))
            elif v is None:
                out.append(Ev('emit', node.lineno, node, ctor='<bare-yield>'))
            else:
                self._walk(v, out)
                out.append(Ev('emit', node.lineno, node, ctor='<value>', args=[v]))
            return
        if isinstance(node, ast.NamedExpr):
            self._walk(node.value, out, bound=node.target.id)
            out.append(Ev('assign', node.lineno, node, target=node.target.id, value=node.value))
            return
        if isinstance(node, ast.Call):
            func, recv = self._call_parts(node)
            # generator consumed for book-keeping only
            if func in GEN_WRAPPERS and len(node.args) >= 1 and isinstance(node.args[0], ast.Call):
                inner = node.args[0]
                ifunc, irecv = self._call_parts(inner)
                for a in inner.args:
                    self._walk(a, out)
                for k in inner.keywords:
                    self._walk(k.value, out)
                if irecv is not None:
                    self._walk(irecv, out)
                out.append(Ev('silent', node.lineno, node, func=ifunc, recv=irecv,
                              args=list(inner.args),
                              kwargs={k.arg: k.value for k in inner.keywords},
                              bound=bound, text=func))
                return
            for a in node.args:
                self._walk(a, out)
            for k in node.keywords:
                self._walk(k.value, out)
            if recv is not None:
                self._walk(recv, out)
            out.append(Ev('call', node.lineno, node, func=func, recv=recv, args=list(node.args),
                          kwargs={k.arg: k.value for k in node.keywords}, bound=bound))
            return
        if isinstance(node, (ast.Lambda, ast.GeneratorExp, ast.ListComp, ast.SetComp, ast.DictComp)):
            # opaque: comprehension bodies do not emit (checked by the caller where relevant)
            for n in ast.walk(node):
                if isinstance(n, (ast.Yield, ast.YieldFrom)):
                    raise AnalysisError(f'yield inside comprehension/lambda at line {node.lineno}')
            # calls inside comprehensions are reported as calls (order approximate)
            for n in ast.walk(node):
                if isinstance(n, ast.Call) and n is not node:
                    func, recv = self._call_parts(n)
                    out.append(Ev('call', n.lineno, n, func=func, recv=recv, args=list(n.args),
                                  kwargs={k.arg: k.value for k in n.keywords}, text='in-comprehension'))
            return
        if isinstance(node, ast.IfExp):
            # conditional expression: both arms may be evaluated; handled by the caller for
            # statement-level splitting; here we approximate with test, then both arms
            self._walk(node.test, out)
            self._walk(node.body, out)
            self._walk(node.orelse, out)
            return
        for child in ast.iter_child_nodes(node):
            if isinstance(child, ast.expr):
                self._walk(child, out)


@dataclass
class Path:
    events: list
    outcome: str = 'fall'   # fall | return | raise
    fn: str = ''

    def __iter__(self):
        return iter(self.events)

    def emits(self):
        return [e for e in self.events if e.kind == 'emit']

    def text(self):
        return ' ; '.join(e.short() for e in self.events)

    def conds(self):
        return [(e.text, e.truth) for e in self.events if e.kind == 'cond']

    def holds(self, text):
        """Truth value assumed for condition ``text`` (any equivalent spelling) on this path (None if unconstrained)."""
        for e in self.events:
            v = cond_is(e, text)
            if v is not None:
                return v
        return None


class PathEnumerator:
    def __init__(self, fn, unroll=(0, 1, 2), max_paths=20000, name=None):
        self.fn = fn
        self.unroll = unroll
        self.max_paths = max_paths
        self.ex = Extractor()
        self.name = name or fn.name
        self.count = 0
        # subjects an `if isinstance(S, C)` chain may dispatch on like a match statement does: plain names that are
        # parameters or loop / match-bound variables of fn and that no match statement of fn already dispatches on
        params = {a.arg for a in fn.args.args + fn.args.kwonlyargs} - {'self'}
        loopvars = {n.id for st in ast.walk(fn) if isinstance(st, ast.For) for n in ast.walk(st.target) if isinstance(n, ast.Name)}
        matched = {src(st.subject) for st in ast.walk(fn) if isinstance(st, ast.Match)}
        self.dispatch_subjects = (params | loopvars) - matched

    # assumptions: dict text -> bool ; invalidated by assignment to a name occurring in text
    def paths(self):
        out = []
        for events, assumptions, outcome in self._block(self.fn.body, [], {}):
            events = self._alias_conds(events)
            if events is None:
                continue
            out.append(Path(events, 'fall' if outcome == 'fall' else outcome, self.name))
            if len(out) > self.max_paths:
                raise AnalysisError(f'path explosion in {self.name} (> {self.max_paths})')
        return out

    # ------------------------------------------------------------------
    def _names_in(self, text_node):
        return {n.id for n in ast.walk(text_node) if isinstance(n, ast.Name)} | \
               {src(n) for n in ast.walk(text_node) if isinstance(n, ast.Attribute)}

    def _invalidate(self, assumptions, events):
        assigned = set()
        for e in events:
            if e.kind == 'assign':
                assigned.add(e.target)
                for part in e.target.replace('(', '').replace(')', '').split(','):
                    assigned.add(part.strip())
            elif e.bound:
                if isinstance(e.bound, str):
                    assigned.add(e.bound)
        if not assigned:
            return assumptions
        new = {}
        for text, (truth, names) in assumptions.items():
            if names & assigned:
                continue
            new[text] = (truth, names)
        return new

    def _branch(self, test, assumptions):
        """Yield (events, assumptions, truth) for each consistent outcome of ``test``."""
        if isinstance(test, ast.UnaryOp) and isinstance(test.op, ast.Not):
            for ev, asm_, truth in self._branch(test.operand, assumptions):
                yield ev, asm_, not truth
            return
        if isinstance(test, ast.BoolOp):
            is_and = isinstance(test.op, ast.And)

            def rec(values, assumptions):
                first, rest = values[0], values[1:]
                for ev, asm_, truth in self._branch(first, assumptions):
                    if not rest:
                        yield ev, asm_, truth
                    elif truth != is_and:
                        # short circuit
                        yield ev, asm_, truth
                    else:
                        for ev2, asm2, truth2 in rec(rest, asm_):
                            yield ev + ev2, asm2, truth2
            yield from rec(test.values, assumptions)
            return
        events = self.ex.expr_events(test)
        assumptions = self._invalidate(assumptions, events)
        if isinstance(test, ast.Constant):
            yield events, assumptions, bool(test.value)
            return
        # the event records the canonical spelling of the test (norm_test) and the truth of THAT spelling;
        # the branch outcome is the truth of the test as written
        text, flip = norm_test(test)
        if text != src(test):
            # keep node, text and truth in agreement: the event's node is the canonical test
            try:
                cnode = ast.parse(text, mode='eval').body
                for x in ast.walk(cnode):
                    ast.copy_location(x, test)
                test_node = cnode
            except SyntaxError:
                test_node, text, flip = test, src(test), False
        else:
            test_node = test
        if text in assumptions:
            ctruth = assumptions[text][0]
            yield events + [Ev('cond', test.lineno, test_node, text=text, truth=ctruth)], assumptions, ctruth != flip
            return
        names = self._names_in(test)
        for truth in (True, False):
            a = dict(assumptions)
            a[text] = (truth != flip, names)
            extra = []
            if (truth != flip) and self._is_dispatch(test_node):
                cl = _class_tuple(test_node.args[1])
                extra = [Ev('case', test.lineno, test_node, text=f'{src(test_node.args[0])}: ' + ' | '.join(c + '()' for c in cl),
                            ctor='isinstance')]
            yield events + [Ev('cond', test.lineno, test_node, text=text, truth=truth != flip)] + extra, a, truth

    def _block(self, stmts, prefix, assumptions):
        """Yield (events, assumptions, outcome) for every path through stmts."""
        if not stmts:
            yield list(prefix), assumptions, 'fall'
            return
        first, rest = stmts[0], stmts[1:]
        for events, asm_, outcome in self._stmt(first, assumptions):
            if outcome == 'fall':
                yield from self._block(rest, prefix + events, asm_)
            else:
                yield prefix + events, asm_, outcome

    @staticmethod
    def _alias_conds(events):
        """A decision on a bare name that was bound, earlier on the path, to a side-effect-free test also decides that
        test: `negated = type(expr) is ast.Not ... if negated:` says what `if type(expr) is ast.Not:` says.  The implied
        cond events are added right after the decision (marked ctor='alias').  A path on which the same test is decided
        both ways is contradictory and dropped (returns None)."""
        if not any(e.kind == 'cond' and e.text.isidentifier() for e in events):
            return events
        out = []
        facts = {}
        for i, e in enumerate(events):
            out.append(e)
            if e.kind == 'assign':
                for k in [k for k, (names, _) in facts.items() if e.target in names]:
                    facts.pop(k, None)
            if e.kind != 'cond':
                continue
            if e.text.isidentifier():
                v = reaching_value(events, i, e.text)
                implied = []
                if isinstance(v, ast.expr):
                    def walk(node, truth):
                        if isinstance(node, ast.UnaryOp) and isinstance(node.op, ast.Not):
                            walk(node.operand, not truth)
                        elif isinstance(node, ast.BoolOp):
                            if isinstance(node.op, ast.And) and truth or isinstance(node.op, ast.Or) and not truth:
                                for x in node.values:
                                    walk(x, truth)
                        elif isinstance(node, (ast.Compare, ast.Call, ast.Attribute)) and not any(
                                isinstance(x, (ast.Yield, ast.YieldFrom, ast.Await, ast.NamedExpr)) for x in ast.walk(node)):
                            t, flip = norm_test(node)
                            implied.append((t, truth != flip, node))
                    walk(v, e.truth)
                for t, truth, node in implied:
                    try:
                        cnode = ast.parse(t, mode='eval').body
                    except SyntaxError:
                        cnode = node
                    out.append(Ev('cond', e.line, cnode, text=t, truth=truth, ctor='alias'))
        # contradiction check between decisions on the same test with no intervening rebinding of its names
        seen = {}
        for e in out:
            if e.kind == 'assign':
                for k in [k for k in seen if e.target in seen[k][1]]:
                    seen.pop(k, None)
            elif e.kind == 'cond':
                names = {n.id for n in ast.walk(e.node) if isinstance(n, ast.Name)} if isinstance(e.node, ast.AST) else set()
                if e.text in seen and seen[e.text][0] != e.truth:
                    return None
                seen[e.text] = (e.truth, names)
        return out

    @staticmethod
    def _parse(text):
        try:
            return ast.parse(text, mode='eval').body
        except SyntaxError:
            return None

    def _is_dispatch(self, test):
        return isinstance(test, ast.Call) and src(test.func) == 'isinstance' and len(test.args) == 2 \
            and isinstance(test.args[0], ast.Name) and test.args[0].id in self.dispatch_subjects \
            and all(c.startswith('ast.') for c in _class_tuple(test.args[1]))

    @staticmethod
    def _pattern_test(subject, pattern):
        """Canonical text of the test a simple match pattern performs on the subject (None for anything richer)."""
        if isinstance(pattern, ast.MatchAs) and pattern.pattern is not None:
            pattern = pattern.pattern
        subj = src(subject)

        def classes(p):
            if isinstance(p, ast.MatchClass) and not p.patterns and not p.kwd_patterns:
                return [src(p.cls)]
            if isinstance(p, ast.MatchOr):
                out = []
                for q in p.patterns:
                    c = classes(q)
                    if c is None:
                        return None
                    out += c
                return out
            return None
        cl = classes(pattern)
        if cl:
            cl = sorted(set(cl))
            return f'isinstance({subj}, {cl[0]})' if len(cl) == 1 else f'isinstance({subj}, (' + ', '.join(cl) + '))'
        if isinstance(pattern, ast.MatchValue) and isinstance(pattern.value, (ast.Attribute, ast.Constant)):
            return norm_text(f'{subj} == {src(pattern.value)}')[0]
        return None

    def _simple(self, events, assumptions):
        return events, self._invalidate(assumptions, events), 'fall'

    def _target_text(self, t):
        return src(t)

    def _stmt(self, st, assumptions):
        ex = self.ex
        if isinstance(st, ast.Expr):
            if isinstance(st.value, ast.Constant):
                yield [], assumptions, 'fall'
                return
            yield self._simple(ex.expr_events(st.value), assumptions)
            return
        if isinstance(st, ast.Assign):
            tgt = st.targets[0]
            bound = None
            if isinstance(tgt, ast.Name):
                bound = tgt.id
            elif isinstance(tgt, ast.Tuple) and all(isinstance(e, ast.Name) for e in tgt.elts):
                bound = tuple(e.id for e in tgt.elts)
            evs = ex.expr_events(st.value, bound=bound)
            for t in st.targets:
                if not isinstance(t, (ast.Name, ast.Tuple)):
                    evs += ex.expr_events(t)
                evs.append(Ev('assign', st.lineno, st, target=self._target_text(t), value=st.value))
            yield self._simple(evs, assumptions)
            return
        if isinstance(st, ast.AnnAssign):
            evs = []
            if st.value is not None:
                bound = st.target.id if isinstance(st.target, ast.Name) else None
                evs = ex.expr_events(st.value, bound=bound)
                evs.append(Ev('assign', st.lineno, st, target=self._target_text(st.target), value=st.value))
            yield self._simple(evs, assumptions)
            return
        if isinstance(st, ast.AugAssign):
            evs = ex.expr_events(st.value)
            evs.append(Ev('assign', st.lineno, st, target=self._target_text(st.target),
                          value=st, text='aug'))
            yield self._simple(evs, assumptions)
            return
        if isinstance(st, ast.Return):
            evs = ex.expr_events(st.value) if st.value is not None else []
            evs.append(Ev('return', st.lineno, st, value=st.value))
            yield evs, assumptions, 'return'
            return
        if isinstance(st, ast.Raise):
            evs = ex.expr_events(st.exc) if st.exc is not None else []
            evs.append(Ev('raise', st.lineno, st, text=src(st.exc)))
            yield evs, assumptions, 'raise'
            return
        if isinstance(st, ast.Assert):
            # assert False / assert 0 terminates the path
            if isinstance(st.test, ast.Constant) and not st.test.value:
                yield [Ev('raise', st.lineno, st, text='assert False')], assumptions, 'raise'
                return
            evs = ex.expr_events(st.test)
            evs.append(Ev('assert', st.lineno, st, text=assert_text(st.test)))
            yield self._simple(evs, assumptions)
            return
        if isinstance(st, ast.Pass):
            yield [], assumptions, 'fall'
            return
        if isinstance(st, ast.Delete):
            evs = []
            for t in st.targets:
                evs.append(Ev('assign', st.lineno, st, target=src(t), value=None, text='del'))
            yield self._simple(evs, assumptions)
            return
        if isinstance(st, ast.If):
            for evs, asm_, truth in self._branch(st.test, assumptions):
                body = st.body if truth else st.orelse
                for e2, a2, outcome in self._block(body, evs, asm_):
                    yield e2, a2, outcome
            return
        if isinstance(st, ast.Match):
            subj_events = ex.expr_events(st.subject)
            subj = src(st.subject)
            has_wild = False
            earlier = []        # tests implied false by the arms that did not match
            for case in st.cases:
                pat = src(case.pattern)
                evs = list(subj_events) + [Ev('case', case.pattern.lineno, case, text=f'{subj}: {pat}')]
                # a class pattern without sub-patterns is `isinstance(subject, C)`, a dotted-name pattern is `subject == V`:
                # recorded as cond events too, so that a rule sees the same facts whether the dispatch is written as
                # match/case or as an if/elif chain
                implied = self._pattern_test(st.subject, case.pattern)
                for t_text in earlier:
                    evs.append(Ev('cond', case.pattern.lineno, self._parse(t_text), text=t_text, truth=False, ctor='match'))
                if implied and case.guard is None:
                    evs.append(Ev('cond', case.pattern.lineno, self._parse(implied), text=implied, truth=True, ctor='match'))
                if implied and case.guard is None:
                    earlier.append(implied)
                binds = [n.name for n in ast.walk(case.pattern)
                         if isinstance(n, (ast.MatchAs, ast.MatchStar)) and n.name]
                for b in binds:
                    evs.append(Ev('assign', case.pattern.lineno, case, target=b, value=st.subject,
                                  text='match-bind'))
                if isinstance(case.pattern, ast.MatchAs) and case.pattern.pattern is None:
                    has_wild = True
                if case.guard is not None:
                    for gev, gasm, truth in self._branch(case.guard, assumptions):
                        if truth:
                            yield from self._block(case.body, evs + gev, gasm)
                else:
                    yield from self._block(case.body, evs, self._invalidate(assumptions, evs))
            if not has_wild:
                yield list(subj_events) + [Ev('case', st.lineno, st, text=f'{subj}: <no case>')], \
                    assumptions, 'fall'
            return
        if isinstance(st, (ast.For, ast.While)):
            if isinstance(st, ast.For):
                head = ex.expr_events(st.iter)
                it_text = f'for {src(st.target)} in {src(st.iter)}'
            else:
                head = []
                it_text = f'while {src(st.test)}'

            def iterate(n, prefix, asm_):
                if n == 0:
                    yield prefix, asm_, 'fall'
                    return
                evs = [Ev('iter', st.lineno, st, text=it_text)]
                if isinstance(st, ast.For):
                    evs.append(Ev('assign', st.lineno, st, target=src(st.target), value=st.iter,
                                  text='for-target'))
                else:
                    evs += ex.expr_events(st.test)
                a = self._invalidate(asm_, evs)
                for e2, a2, outcome in self._block(st.body, prefix + evs, a):
                    if outcome in ('fall', 'continue'):
                        yield from iterate(n - 1, e2, a2)
                    elif outcome == 'break':
                        yield e2, a2, 'broke'
                    else:
                        yield e2, a2, outcome
            for n in self.unroll:
                for e2, a2, outcome in iterate(n, list(head), self._invalidate(assumptions, head)):
                    if outcome == 'broke':
                        yield e2, a2, 'fall'       # a break skips the else clause
                    elif outcome == 'fall' and st.orelse:
                        yield from self._block(st.orelse, e2, a2)
                    else:
                        yield e2, a2, outcome
            return
        if isinstance(st, ast.Break):
            yield [], assumptions, 'break'
            return
        if isinstance(st, ast.Continue):
            yield [], assumptions, 'continue'
            return
        if isinstance(st, ast.With):
            evs = []
            for item in st.items:
                evs += ex.expr_events(item.context_expr)
                evs.append(Ev('enter', st.lineno, st, text=src(item.context_expr)))
            for e2, a2, outcome in self._block(st.body, evs, self._invalidate(assumptions, evs)):
                ex_evs = [Ev('exit', st.lineno, st, text=src(i.context_expr)) for i in reversed(st.items)]
                yield e2 + ex_evs, a2, outcome
            return
        if isinstance(st, ast.Try):
            # normal completion of the body
            for e2, a2, outcome in self._block(st.body, [], assumptions):
                if st.finalbody:
                    for e3, a3, o3 in self._block(st.finalbody, e2, a2):
                        yield e3, a3, (outcome if o3 == 'fall' else o3)
                else:
                    if outcome == 'fall' and st.orelse:
                        yield from self._block(st.orelse, e2, a2)
                    else:
                        yield e2, a2, outcome
                # exceptional: cut after each generator-consuming / call event, enter handlers
                for h in st.handlers:
                    htext = src(h.type) if h.type is not None else 'BaseException'
                    cut_points = [i for i, e in enumerate(e2) if e.kind in ('silent',)
                                  or (e.kind == 'call' and htext not in ('StopIteration',))]
                    for i in cut_points[:8]:
                        pre = e2[:i + 1] + [Ev('except', h.lineno, h, text=htext)]
                        if h.name:
                            pre.append(Ev('assign', h.lineno, h, target=h.name, value=None, text='except-bind'))
                        yield from self._block(h.body, pre, a2)
            return
        if isinstance(st, (ast.FunctionDef, ast.AsyncFunctionDef, ast.ClassDef, ast.Import,
                           ast.ImportFrom, ast.Global, ast.Nonlocal)):
            yield [], assumptions, 'fall'
            return
        raise AnalysisError(f'{self.name}: unsupported statement {type(st).__name__} at line {st.lineno}')


def enumerate_paths(fn, unroll=(0, 1, 2), name=None, max_paths=20000):
    paths = PathEnumerator(fn, unroll=unroll, name=name, max_paths=max_paths).paths()
    for p in paths:
        _resolve_value_emits(p.events)
    return paths


def _resolve_value_emits(events):
    """`x = Ctor(a, b)` ... `yield x` emits Ctor(a, b): an emission of a plain name whose value on this path is a constructor
    call (and whose operands are not rebound in between) is recorded as the emission of that call."""
    from .normalise import is_pure
    for idx, e in enumerate(events):
        if e.kind != 'emit' or e.ctor != '<value>' or not e.args or not isinstance(e.args[0], ast.Name):
            continue
        name = e.args[0].id
        val = None
        j0 = None
        for j in range(idx - 1, -1, -1):
            d = events[j]
            if d.kind == 'assign' and d.target == name and d.text not in ('aug', 'del', 'for-target', 'match-bind'):
                val, j0 = d.value, j
                break
            if d.kind in ('sub', 'call', 'silent') and d.bound == name:
                break
        if not isinstance(val, ast.Call) or val.keywords and any(k.arg is None for k in val.keywords):
            continue
        f = val.func
        ctor_like = isinstance(f, ast.Name) or (isinstance(f, ast.Attribute) and f.attr[:1].isupper()) or \
            (isinstance(f, ast.Subscript) and isinstance(f.value, ast.Name))
        if not ctor_like or not all(is_pure(a) for a in val.args):
            continue
        used = {n.id for n in ast.walk(val) if isinstance(n, ast.Name)}
        if any(d.kind == 'assign' and d.target in used for d in events[j0 + 1:idx]) or \
                any(d.kind in ('sub', 'call', 'silent') and d.bound in used for d in events[j0 + 1:idx]):
            continue
        e.ctor = src(f)
        e.args = list(val.args)
        e.kwargs = {k.arg: k.value for k in val.keywords}


# ---------------------------------------------------------------------------
# helpers over paths

def _clone(node, mapping):
    """Structural copy of an expression tree with Names substituted (never follows _parent)."""
    if isinstance(node, ast.Name) and node.id in mapping:
        return _clone(mapping[node.id], {})
    if isinstance(node, ast.AST):
        new = type(node).__new__(type(node))
        for name in node._fields:
            setattr(new, name, _clone(getattr(node, name, None), mapping))
        for name in ('lineno', 'col_offset', 'end_lineno', 'end_col_offset'):
            if hasattr(node, name):
                setattr(new, name, getattr(node, name))
        return new
    if isinstance(node, list):
        return [_clone(x, mapping) for x in node]
    return node


def substitute(node, mapping):
    if node is None:
        return None
    if not mapping:
        return node
    return _clone(node, mapping)


def _subst_text(text, mapping, as_test=False):
    """Substitute parameter names in a piece of source text (cond / ctor / splice text)."""
    if not mapping:
        return text, False
    try:
        node = ast.parse(text, mode='eval').body
    except SyntaxError:
        return text, False
    if not any(isinstance(n, ast.Name) and n.id in mapping for n in ast.walk(node)):
        return text, False
    new = substitute(node, mapping)
    if as_test:
        return norm_test(new)
    return src(new), False


def inline(path_events, helpers, depth=3, transparent=()):
    """Replace ``sub`` events calling one of ``helpers`` (name -> list[Path]) by the helper's
    own events, with parameters substituted by the argument expressions (in operands, receivers, values,
    condition texts, constructor names and spliced parameters).  A helper path that returns a constant is only
    combined with caller paths whose decision on that result agrees.  Returns a list of event lists (one per
    combination of helper paths)."""
    results = [[]]
    for pos, e in enumerate(path_events):
        key = e.func if e.kind in ('sub', 'silent') else None
        if key in helpers and depth > 0 and e.kind == 'sub':
            fn, hpaths = helpers[key]
            params = [a.arg for a in fn.args.args + fn.args.kwonlyargs if a.arg != 'self']
            mapping = {}
            for p, a in zip(params, e.args):
                mapping[p] = a
            for k, v in e.kwargs.items():
                mapping[k] = v
            # defaults of parameters not passed
            pos_params = [a.arg for a in fn.args.args if a.arg != 'self']
            for pname, d in zip(pos_params[len(pos_params) - len(fn.args.defaults):], fn.args.defaults):
                mapping.setdefault(pname, d)
            for a, d in zip(fn.args.kwonlyargs, fn.args.kw_defaults):
                if d is not None:
                    mapping.setdefault(a.arg, d)
            # locals of the helper shadow nothing of the caller: only parameters are substituted
            # the caller's decision on the helper's result (if it branches on it)
            decision = None
            call_text = src(e.node) if e.node is not None else None
            for later in path_events[pos + 1:]:
                if later.kind == 'cond' and ((isinstance(e.bound, str) and later.text == e.bound)
                                             or (call_text and call_text in later.text and 'yield from' in later.text)):
                    decision = later.truth
                    break
                if later.kind in ('sub', 'emit', 'splice'):
                    if not (isinstance(e.bound, str)):
                        break
            new_results = []
            for hp in hpaths:
                if hp.outcome == 'raise':
                    continue
                rets = [he for he in hp.events if he.kind == 'return']
                if decision is not None and rets and isinstance(rets[-1].value, ast.Constant):
                    if bool(rets[-1].value.value) != decision:
                        continue
                if decision is not None and not rets and decision:
                    continue            # falls off the end: returns None
                inl = []
                for he in hp.events:
                    ne = copy.copy(he)
                    ne.args = [substitute(a, mapping) for a in he.args]
                    ne.kwargs = {k: substitute(v, mapping) for k, v in he.kwargs.items()}
                    if he.recv is not None:
                        ne.recv = substitute(he.recv, mapping)
                    if he.kind in ('assign', 'return') and he.value is not None and isinstance(he.value, ast.expr):
                        ne.value = substitute(he.value, mapping)
                    if he.kind == 'cond':
                        t, flip = _subst_text(he.text, mapping, as_test=True)
                        if t != he.text:
                            try:
                                ne.node = ast.parse(t, mode='eval').body
                            except SyntaxError:
                                pass
                        ne.text = t
                        if flip:
                            ne.truth = not he.truth
                    if he.kind == 'emit' and he.ctor:
                        ne.ctor = _subst_text(he.ctor, mapping)[0]
                    if he.kind == 'splice' and he.text in mapping:
                        arg = mapping[he.text]
                        if isinstance(arg, ast.Name):
                            ne.text = arg.id
                        elif isinstance(arg, ast.Call):
                            # a generator call passed as instruction sequence: it is what gets spliced in
                            ne.kind = 'sub'
                            ne.func = src(arg.func)
                            ne.recv = None
                            ne.args = list(arg.args)
                            ne.kwargs = {k.arg: k.value for k in arg.keywords if k.arg}
                            ne.node = arg
                    ne.origin = e.origin + (() if key in transparent else (key,)) + he.origin
                    ne.line = e.line
                    if he.kind == 'return':
                        ne.kind = 'subreturn'
                    if he.kind == 'case' and key in transparent:
                        # the dispatch of a helper is not the dispatch of the function it is spliced into
                        ne.origin = e.origin + (key,) + he.origin
                    inl.append(ne)
                for sub_inl in inline(inl, helpers, depth - 1, transparent):
                    for r in results:
                        new_results.append(r + sub_inl)
            results = new_results
        else:
            for r in results:
                r.append(e)
    return results


def expand(events, idx, node, depth=3, keep=()):
    """`node` (an expression, or its text) with local names replaced by the side-effect-free expressions most recently
    assigned to them before events[idx] on this path (names in `keep`, parameters and anything else stay).  Returns text."""
    from .normalise import is_pure
    if isinstance(node, str):
        try:
            node = ast.parse(node, mode='eval').body
        except SyntaxError:
            return node
    for _ in range(depth):
        mapping = {}
        for n in ast.walk(node):
            if isinstance(n, ast.Name) and n.id not in keep and n.id not in mapping:
                v = reaching_value(events, idx, n.id)
                if isinstance(v, ast.expr) and not isinstance(v, (ast.YieldFrom, ast.Yield, ast.Await)) and is_pure(v) \
                        and not any(isinstance(x, ast.Name) and x.id == n.id for x in ast.walk(v)):
                    mapping[n.id] = v
        if not mapping:
            break
        node = substitute(node, mapping)
    return src(node)


def reaching_value(events, idx, name):
    """Value node most recently assigned to ``name`` before events[idx] (None if a parameter)."""
    for j in range(idx - 1, -1, -1):
        e = events[j]
        if e.kind == 'assign' and e.target == name and e.text not in ('aug', 'del', 'for-target', 'match-bind'):
            return e.value
        if e.kind in ('sub', 'call', 'silent') and e.bound == name:
            return e.node
    return None


def resolve_ctor(events, idx):
    """Canonical constructor of emit event idx: follows local aliases."""
    e = events[idx]
    text = e.ctor
    seen = 0
    while seen < 5:
        seen += 1
        try:
            node = ast.parse(text, mode='eval').body
        except SyntaxError:
            return text
        if isinstance(node, ast.Name):
            val = reaching_value(events, idx, node.id)
            if val is None or not isinstance(val, ast.expr):
                return f'param:{node.id}'
            text = src(val)
            continue
        return text
    return text
