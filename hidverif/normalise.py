"""NORMALISE: syntax-level normal form applied to every function before it is analysed.

Rules describe what the repository's functions do in terms of the expressions they evaluate.  Clean-up commits
routinely change how those expressions are *spelled* without changing what is evaluated:

  * a sub-expression gets a name (``el_type = expr.type.el_type``; ``falls_through = not exited and ...``;
    ``cleanup = self.pop(...)`` followed by ``yield from cleanup``),
  * ``x = a if c else b`` is written as an if statement or the other way round.

This module undoes both, so that the event stream a rule sees does not depend on such choices:

  inline_temporaries  a local that did not exist when the rules were written (it is not in spec/roles.json), is bound
                      exactly once to a side-effect-free expression (or to a not-yet-started generator call), and whose
                      operands cannot change between the binding and a use, is replaced at that use by its definition;
  desugar_ifexp       ``T = A if c else B`` / ``return A if c else B`` / ``yield from (A if c else B)`` become if
                      statements, so that both spellings give the same branch events.

Nothing here executes repository code.  A temporary that does not meet the conditions is left alone (the rules then see
an unknown name and, at worst, report it - never the other way round).
"""
from __future__ import annotations

import ast

from .pyfacts import src

PURE_BUILTINS = {'isinstance', 'len', 'type', 'tuple', 'bool', 'int', 'getattr', 'min', 'max', 'frozenset', 'abs', 'bytes', 'ord', 'str',
                 'repr', 'any', 'all', 'sorted', 'hasattr', 'issubclass', 'id'}
PURE_METHODS = {'get', 'exit_modes', 'access_byte', 'max_length', 'frame_size', 'array_size', 'is_safe', 'is_goto', 'items', 'keys',
                'values', 'bit_length', 'startswith', 'endswith', 'removesuffix', 'removeprefix', 'encode', 'decode', 'format',
                'type_equiv_assignment', 'coercible', 'at', 'with_value', 'lookup_var'}
DRAIN_FUNCS = {'list', 'tuple'}


def _strip(node):
    if isinstance(node, ast.AST):
        new = type(node).__new__(type(node))
        for name in node._fields:
            setattr(new, name, _strip(getattr(node, name, None)))
        for name in ('lineno', 'col_offset', 'end_lineno', 'end_col_offset', '_from_temp'):
            if hasattr(node, name):
                setattr(new, name, getattr(node, name))
        return new
    if isinstance(node, list):
        return [_strip(x) for x in node]
    return node


def _relink(fn, parent=None):
    ast.fix_missing_locations(fn)
    for node in ast.walk(fn):
        for child in ast.iter_child_nodes(node):
            child._parent = node
    fn._parent = parent
    return fn


def _own_nodes(fn):
    """Nodes of fn not inside nested function / class / lambda definitions."""
    stack = list(ast.iter_child_nodes(fn))
    while stack:
        n = stack.pop()
        yield n
        if isinstance(n, (ast.FunctionDef, ast.AsyncFunctionDef, ast.ClassDef, ast.Lambda)):
            continue
        stack.extend(ast.iter_child_nodes(n))


def is_pure(node, gen_methods=()):
    """Side-effect free and cheap to re-evaluate: no yield / await / walrus, calls only to constructors and known pure
    helpers."""
    for n in ast.walk(node):
        if isinstance(n, (ast.Yield, ast.YieldFrom, ast.Await, ast.NamedExpr, ast.Lambda, ast.ListComp, ast.SetComp, ast.DictComp,
                          ast.GeneratorExp, ast.Starred)):
            return False
        if isinstance(n, ast.Call):
            f = n.func
            if isinstance(f, ast.Name):
                if f.id in PURE_BUILTINS or f.id[:1].isupper():
                    continue
                return False
            if isinstance(f, ast.Attribute):
                base = src(f.value)
                if f.attr in PURE_METHODS and f.attr not in gen_methods:
                    continue
                if base in ('asm', 'ast', 'stdlib', 'tokens', 'dc') and f.attr[:1].isupper():
                    continue
                if f.attr[:1].isupper():
                    continue
                return False
            return False
    return True


def _assigned_texts(stmt):
    """Texts (names / attribute paths) a statement node binds."""
    out = set()

    def target(t):
        if isinstance(t, ast.Name):
            out.add(t.id)
        elif isinstance(t, (ast.Tuple, ast.List)):
            for e in t.elts:
                target(e)
        elif isinstance(t, ast.Starred):
            target(t.value)
        elif isinstance(t, ast.Attribute):
            out.add(src(t))
        elif isinstance(t, ast.Subscript):
            out.add(src(t.value))
    if isinstance(stmt, ast.Assign):
        for t in stmt.targets:
            target(t)
    elif isinstance(stmt, (ast.AugAssign, ast.AnnAssign)):
        target(stmt.target)
    elif isinstance(stmt, (ast.For, ast.AsyncFor)):
        target(stmt.target)
    elif isinstance(stmt, (ast.With, ast.AsyncWith)):
        for it in stmt.items:
            if it.optional_vars is not None:
                target(it.optional_vars)
    elif isinstance(stmt, ast.NamedExpr):
        target(stmt.target)
    elif isinstance(stmt, ast.MatchAs) and stmt.name:
        out.add(stmt.name)
    elif isinstance(stmt, ast.Delete):
        for t in stmt.targets:
            target(t)
    return out


def _enclosing(node, kinds, stop):
    p = getattr(node, '_parent', None)
    while p is not None and p is not stop:
        if isinstance(p, kinds):
            return p
        p = getattr(p, '_parent', None)
    return None


class _Subst(ast.NodeTransformer):
    def __init__(self, name, value, only):
        self.name, self.value, self.only = name, value, only

    def visit_Name(self, node):
        if node.id == self.name and isinstance(node.ctx, ast.Load) and id(node) in self.only:
            new = ast.copy_location(_strip(self.value), node)
            for x in ast.walk(new):
                x._from_temp = True        # spelled out from a named temporary (see _Desugar._lift_arg)
            return new
        return node


def inline_temporaries(fn, known, gen_methods=()):
    """See module docstring.  `known`: names the rules may refer to (canonical locals of this function); `gen_methods`:
    names of generator methods of the class (a call to one only creates a generator object)."""
    if not isinstance(fn, (ast.FunctionDef, ast.AsyncFunctionDef)):
        return fn
    params = {a.arg for a in fn.args.posonlyargs + fn.args.args + fn.args.kwonlyargs}
    work = None
    for _round in range(8):
        cur = work if work is not None else fn
        nodes = list(_own_nodes(cur))
        binds = {}
        for n in nodes:
            for t in _assigned_texts(n):
                binds.setdefault(t, []).append(n)
        cand = None
        for n in sorted((x for x in nodes if isinstance(x, ast.Assign)), key=lambda x: x.lineno):
            if len(n.targets) != 1 or not isinstance(n.targets[0], ast.Name):
                continue
            name = n.targets[0].id
            if name in known or name in params or len(binds.get(name, [])) != 1 or name.startswith('__'):
                continue
            val = n.value
            deferred = isinstance(val, ast.Call) and isinstance(val.func, ast.Attribute) and src(val.func.value) == 'self' \
                and val.func.attr in gen_methods and all(is_pure(a) for a in list(val.args) + [k.value for k in val.keywords])
            if not deferred and not is_pure(val, gen_methods):
                continue
            uses = [x for x in nodes if isinstance(x, ast.Name) and x.id == name and isinstance(x.ctx, ast.Load)]
            if not uses:
                continue
            if deferred:
                ok = True
                for u in uses:
                    p = getattr(u, '_parent', None)
                    if isinstance(p, ast.YieldFrom):
                        continue
                    if isinstance(p, ast.For) and p.iter is u:
                        continue
                    if isinstance(p, ast.Call) and isinstance(p.func, ast.Name) and p.func.id in DRAIN_FUNCS and p.args == [u]:
                        continue
                    ok = False
                if not ok:
                    continue
            free = {x.id for x in ast.walk(val) if isinstance(x, ast.Name)} | \
                   {src(x) for x in ast.walk(val) if isinstance(x, ast.Attribute)}
            reads_self_state = any(isinstance(x, ast.Attribute) and src(x.value) == 'self' and x.attr not in gen_methods
                                   for x in ast.walk(val))
            def_loop = _enclosing(n, (ast.For, ast.While, ast.AsyncFor), cur)
            good = set()
            for u in uses:
                if u.lineno <= n.lineno:
                    continue
                u_loop = _enclosing(u, (ast.For, ast.While, ast.AsyncFor), cur)
                lo, hi = n.lineno, u.lineno
                if u_loop is not None and u_loop is not def_loop and not (u_loop.lineno <= n.lineno <= u_loop.end_lineno):
                    lo2, hi2 = u_loop.lineno, u_loop.end_lineno
                else:
                    lo2 = hi2 = None
                unsafe = False
                for m in nodes:
                    ln = getattr(m, 'lineno', None)
                    if ln is None or m is n:
                        continue
                    inside = (lo < ln < hi) or (lo == ln and m is not n and False) or (lo2 is not None and lo2 <= ln <= hi2)
                    if not inside:
                        continue
                    if _assigned_texts(m) & free:
                        unsafe = True
                        break
                    if reads_self_state and isinstance(m, (ast.Call, ast.YieldFrom, ast.Yield, ast.Await)) and lo < ln < hi:
                        if isinstance(m, ast.Call) and is_pure(m, gen_methods):
                            continue
                        # only a problem if it lies on a different statement than the use itself
                        if ln != hi:
                            unsafe = True
                            break
                if not unsafe:
                    good.add(id(u))
            if good and len(good) == len(uses):
                # all or nothing: a temporary that survives at some uses would make the two spellings of one fact
                # (the name, the expression) look independent to the path enumeration
                cand = (n, name, val, good, True)
                break
        if cand is None:
            break
        n, name, val, good, all_uses = cand
        if work is None:
            # operate on a private copy; recompute the candidate on it
            work = _relink(_strip(fn), getattr(fn, '_parent', None))
            continue
        _Subst(name, val, good).visit(cur)
        if all_uses:
            parent = n._parent
            for field in ('body', 'orelse', 'finalbody', 'handlers'):
                lst = getattr(parent, field, None)
                if isinstance(lst, list) and n in lst:
                    lst.remove(n)
                    if not lst:
                        lst.append(ast.copy_location(ast.Pass(), n))
        else:
            # keep the definition but never offer it again
            known = set(known) | {name}
        _relink(cur, getattr(fn, '_parent', None))
    out = work if work is not None else fn
    if work is not None:
        out._normalised = True
    return out


def _fold_int(node, consts):
    """Value of an integer expression over literals and already known constant names; None if it is anything else."""
    import operator as _op
    ops = {ast.Add: _op.add, ast.Sub: _op.sub, ast.Mult: _op.mul, ast.FloorDiv: _op.floordiv, ast.Mod: _op.mod, ast.LShift: _op.lshift,
           ast.RShift: _op.rshift, ast.BitAnd: _op.and_, ast.BitOr: _op.or_, ast.BitXor: _op.xor, ast.Pow: _op.pow}
    if isinstance(node, ast.Constant) and isinstance(node.value, int) and not isinstance(node.value, bool):
        return node.value
    if isinstance(node, ast.Name) and node.id in consts and isinstance(consts[node.id], ast.Constant) and \
            isinstance(consts[node.id].value, int) and not isinstance(consts[node.id].value, bool):
        return consts[node.id].value
    if isinstance(node, ast.UnaryOp) and isinstance(node.op, (ast.USub, ast.UAdd, ast.Invert)):
        v = _fold_int(node.operand, consts)
        if v is None:
            return None
        return -v if isinstance(node.op, ast.USub) else (+v if isinstance(node.op, ast.UAdd) else ~v)
    if isinstance(node, ast.BinOp) and type(node.op) in ops:
        a, b = _fold_int(node.left, consts), _fold_int(node.right, consts)
        if a is None or b is None:
            return None
        try:
            if isinstance(node.op, (ast.Pow, ast.LShift)) and (b < 0 or b > 256):
                return None
            return ops[type(node.op)](a, b)
        except (ZeroDivisionError, ValueError, OverflowError):
            return None
    return None


def module_constants(tree, known_names):
    """{name: value node} of module-level names that did not exist when the rules were written, are bound exactly once,
    at module level, to a literal table / constant built from side-effect-free parts (a dict, tuple, list, set,
    frozenset(...), tuple(...) of names, attributes and constants), and are never rebound or mutated by name."""
    out = {}
    counts = {}
    for n in ast.walk(tree):
        for t in _assigned_texts(n):
            counts[t] = counts.get(t, 0) + 1
        if isinstance(n, ast.Global):
            for nm in n.names:
                counts[nm] = counts.get(nm, 0) + 5
    for n in tree.body:
        if isinstance(n, ast.Assign) and len(n.targets) == 1 and isinstance(n.targets[0], ast.Name):
            name, val = n.targets[0].id, n.value
        elif isinstance(n, ast.AnnAssign) and isinstance(n.target, ast.Name) and n.value is not None:
            name, val = n.target.id, n.value
        else:
            continue
        if name in known_names or counts.get(name, 0) != 1 or name.startswith('__'):
            continue
        inner = val
        if isinstance(inner, ast.Call) and isinstance(inner.func, ast.Name) and inner.func.id in ('frozenset', 'tuple', 'set', 'dict', 'list') \
                and len(inner.args) == 1 and not inner.keywords:
            inner = inner.args[0]
        if isinstance(inner, (ast.BinOp, ast.UnaryOp)):
            # integer arithmetic over literals and earlier new constants (BOOL_BIT_MASK = BOOLS_PER_BYTE - 1): folded
            folded = _fold_int(inner, out)
            if folded is None:
                continue
            out[name] = ast.copy_location(ast.Constant(value=folded), val)
            continue
        if not isinstance(inner, (ast.Dict, ast.Tuple, ast.List, ast.Set, ast.Constant)):
            continue
        if not is_pure(val):
            continue
        inner_calls = [x for x in ast.walk(val) if isinstance(x, ast.Call) and x is not val]
        if any(not (isinstance(x.func, ast.Attribute) and x.func.attr[:1].isupper()
                    or isinstance(x.func, ast.Name) and x.func.id[:1].isupper()
                    or src(x.func) == 're.compile') for x in inner_calls):
            continue
        # mutated through a method call (append / update / ...) anywhere?  then it is not a constant
        mutated = False
        for x in ast.walk(tree):
            if isinstance(x, ast.Call) and isinstance(x.func, ast.Attribute) and isinstance(x.func.value, ast.Name) \
                    and x.func.value.id == name and x.func.attr in ('append', 'extend', 'update', 'add', 'insert', 'pop', 'remove', 'clear',
                                                                     'setdefault', 'discard', 'sort', 'reverse', 'popitem'):
                mutated = True
            if isinstance(x, (ast.Subscript,)) and isinstance(x.value, ast.Name) and x.value.id == name and isinstance(x.ctx, (ast.Store, ast.Del)):
                mutated = True
        if not mutated:
            out[name] = val
    return out


def inline_module_constants(fn, consts):
    """Uses of new module-level constant tables (see module_constants) are replaced by the literal, unless the function
    binds the name itself."""
    if not consts or not isinstance(fn, (ast.FunctionDef, ast.AsyncFunctionDef)):
        return fn
    nodes = list(_own_nodes(fn))
    local = set()
    for n in nodes:
        local |= _assigned_texts(n)
    local |= {a.arg for a in fn.args.posonlyargs + fn.args.args + fn.args.kwonlyargs}
    uses = [x for x in nodes if isinstance(x, ast.Name) and isinstance(x.ctx, ast.Load) and x.id in consts and x.id not in local]
    if not uses:
        return fn
    work = _relink(_strip(fn), getattr(fn, '_parent', None))

    class _T(ast.NodeTransformer):
        def visit_Name(self, node):
            if isinstance(node.ctx, ast.Load) and node.id in consts and node.id not in local:
                return ast.copy_location(_strip(consts[node.id]), node)
            return node

        def visit_FunctionDef(self, node):
            if node is work:
                self.generic_visit(node)
            return node
        visit_AsyncFunctionDef = visit_FunctionDef

        def visit_Lambda(self, node):
            return node
    _T().visit(work)
    _relink(work, getattr(fn, '_parent', None))
    work._normalised = True
    return work


def simple_members(class_node, is_known):
    """{name: ('property' | 'method', params, expr)} for members of a class that did not exist when the rules were written
    and merely name an expression: a property / method whose body is `return <side-effect-free expression>`."""
    out = {}
    if class_node is None:
        return out
    for m in class_node.body:
        if not isinstance(m, ast.FunctionDef) or is_known(m.name) or m.name.startswith('__'):
            continue
        body = [st for st in m.body if not (isinstance(st, ast.Expr) and isinstance(st.value, ast.Constant))]
        if len(body) != 1 or not isinstance(body[0], ast.Return) or body[0].value is None:
            continue
        expr = body[0].value
        if not is_pure(expr):
            continue
        decos = [src(d) for d in m.decorator_list]
        params = [a.arg for a in m.args.args]
        if m.args.vararg or m.args.kwarg or m.args.kwonlyargs or m.args.defaults:
            continue
        if any(d in ('property', 'functools.cached_property', 'cached_property') for d in decos) and params == ['self']:
            out[m.name] = ('property', [], expr)
        elif not decos and params[:1] == ['self']:
            out[m.name] = ('method', params[1:], expr)
        elif decos == ['staticmethod']:
            out[m.name] = ('method', params, expr)
    return out


def inline_simple_members(fn, members):
    """`self.<new property>` and `self.<new pure one-line method>(args)` are replaced by the expression they name."""
    if not members or not isinstance(fn, (ast.FunctionDef, ast.AsyncFunctionDef)) or fn.name in members:
        return fn
    hit = any(isinstance(n, ast.Attribute) and n.attr in members and isinstance(n.value, ast.Name) and n.value.id == 'self'
              for n in _own_nodes(fn))
    if not hit:
        return fn
    work = _relink(_strip(fn), getattr(fn, '_parent', None))

    class _T(ast.NodeTransformer):
        def visit_Call(self, node):
            self.generic_visit(node)
            f = node.func
            if isinstance(f, ast.Attribute) and isinstance(f.value, ast.Name) and f.value.id == 'self' and f.attr in members:
                kind, params, expr = members[f.attr]
                if kind == 'method' and not node.keywords and len(node.args) == len(params) and all(is_pure(a) for a in node.args):
                    mapping = dict(zip(params, node.args))

                    class _S(ast.NodeTransformer):
                        def visit_Name(self, n):
                            if isinstance(n.ctx, ast.Load) and n.id in mapping:
                                return ast.copy_location(_strip(mapping[n.id]), n)
                            return n
                    new = _S().visit(_strip(expr))
                    for x in ast.walk(new):
                        x._from_temp = True
                    return ast.copy_location(new, node)
            return node

        def visit_Attribute(self, node):
            self.generic_visit(node)
            if isinstance(node.ctx, ast.Load) and isinstance(node.value, ast.Name) and node.value.id == 'self' and node.attr in members \
                    and members[node.attr][0] == 'property':
                new = _strip(members[node.attr][2])
                for x in ast.walk(new):
                    x._from_temp = True
                return ast.copy_location(new, node)
            return node

        def visit_FunctionDef(self, node):
            if node is work:
                self.generic_visit(node)
            return node
        visit_AsyncFunctionDef = visit_FunctionDef

        def visit_Lambda(self, node):
            return node
    for _ in range(3):
        _T().visit(work)
        _relink(work, getattr(fn, '_parent', None))
    work._normalised = True
    return work


def context_managers(class_node, is_known):
    """{name: (params, pre statements, yielded value or None, post statements)} for @contextmanager methods of a class that
    did not exist when the rules were written and have the plain shape  pre...; yield [v]; post...  (the yield possibly
    inside `try: yield finally: post`)."""
    out = {}
    if class_node is None:
        return out
    for m in class_node.body:
        if not isinstance(m, ast.FunctionDef) or is_known(m.name):
            continue
        if not any('contextmanager' in src(d) for d in m.decorator_list):
            continue
        if m.args.vararg or m.args.kwarg or m.args.kwonlyargs or m.args.defaults:
            continue
        body = [st for st in m.body if not (isinstance(st, ast.Expr) and isinstance(st.value, ast.Constant))]
        pre, post, yielded, seen = [], [], None, False
        ok = True
        for st in body:
            is_yield = isinstance(st, ast.Expr) and isinstance(st.value, ast.Yield)
            is_try = isinstance(st, ast.Try) and len(st.body) == 1 and isinstance(st.body[0], ast.Expr) and \
                isinstance(st.body[0].value, ast.Yield) and not st.handlers and not st.orelse
            if (is_yield or is_try) and not seen:
                seen = True
                y = st.value if is_yield else st.body[0].value
                yielded = y.value
                if is_try:
                    post += st.finalbody
            elif any(isinstance(x, (ast.Yield, ast.YieldFrom)) for x in ast.walk(st)):
                ok = False
            elif seen:
                post.append(st)
            else:
                pre.append(st)
        if ok and seen:
            out[m.name] = ([a.arg for a in m.args.args if a.arg != 'self'], pre, yielded, post)
    return out


def inline_context_managers(fn, cms):
    """`with self.<new context manager>(args) [as x]: BODY` becomes  pre; [x = value]; BODY; post."""
    if not cms or not isinstance(fn, (ast.FunctionDef, ast.AsyncFunctionDef)) or fn.name in cms:
        return fn

    def target_of(item):
        c = item.context_expr
        if isinstance(c, ast.Call) and isinstance(c.func, ast.Attribute) and isinstance(c.func.value, ast.Name) and c.func.value.id == 'self' \
                and c.func.attr in cms and not c.keywords and len(c.args) == len(cms[c.func.attr][0]) and all(is_pure(a) for a in c.args):
            return c
        return None
    if not any(isinstance(n, ast.With) and len(n.items) == 1 and target_of(n.items[0]) for n in _own_nodes(fn)):
        return fn
    work = _relink(_strip(fn), getattr(fn, '_parent', None))
    for _ in range(6):
        w = next((n for n in _own_nodes(work) if isinstance(n, ast.With) and len(n.items) == 1 and target_of(n.items[0])), None)
        if w is None:
            break
        call = target_of(w.items[0])
        params, pre, yielded, post = cms[call.func.attr]
        mapping = dict(zip(params, call.args))

        class _S(ast.NodeTransformer):
            def visit_Name(self, n):
                if isinstance(n.ctx, ast.Load) and n.id in mapping:
                    return ast.copy_location(_strip(mapping[n.id]), n)
                return n
        new = [_S().visit(_strip(st)) for st in pre]
        if w.items[0].optional_vars is not None:
            val = _S().visit(_strip(yielded)) if yielded is not None else ast.Constant(value=None)
            new.append(ast.Assign(targets=[_strip(w.items[0].optional_vars)], value=val, type_comment=None))
        new += w.body
        new += [_S().visit(_strip(st)) for st in post]
        for st in new:
            ast.copy_location(st, w) if not hasattr(st, 'lineno') else None
        parent = w._parent
        for field in ('body', 'orelse', 'finalbody'):
            lst = getattr(parent, field, None)
            if isinstance(lst, list) and w in lst:
                i = lst.index(w)
                lst[i:i + 1] = new
        _relink(work, getattr(fn, '_parent', None))
    work._normalised = True
    return work


def uncollect_generators(fn, gen_methods=()):
    """`X = list(self.gen(..))` immediately followed by `if C: yield from X` (X used nowhere else) runs the generator for
    its book-keeping and emits what it produced only under C - the same as `if C: yield from self.gen(..)  else:
    list(self.gen(..))`.  Rewritten to that form (C must be side-effect free)."""
    if not isinstance(fn, (ast.FunctionDef, ast.AsyncFunctionDef)):
        return fn

    def find(root):
        for n in _own_nodes(root):
            for field in ('body', 'orelse', 'finalbody'):
                lst = getattr(n, field, None)
                if not isinstance(lst, list):
                    continue
                for i, st in enumerate(lst[:-1]):
                    if not (isinstance(st, ast.Assign) and len(st.targets) == 1 and isinstance(st.targets[0], ast.Name)):
                        continue
                    v = st.value
                    if not (isinstance(v, ast.Call) and isinstance(v.func, ast.Name) and v.func.id in ('list', 'tuple') and len(v.args) == 1
                            and isinstance(v.args[0], ast.Call) and isinstance(v.args[0].func, ast.Attribute)
                            and src(v.args[0].func.value) == 'self' and v.args[0].func.attr in gen_methods):
                        continue
                    name = st.targets[0].id
                    nxt = lst[i + 1]
                    if not (isinstance(nxt, ast.If) and not nxt.orelse and len(nxt.body) == 1 and isinstance(nxt.body[0], ast.Expr)
                            and isinstance(nxt.body[0].value, ast.YieldFrom) and isinstance(nxt.body[0].value.value, ast.Name)
                            and nxt.body[0].value.value.id == name and is_pure(nxt.test)):
                        continue
                    uses = [x for x in _own_nodes(root) if isinstance(x, ast.Name) and x.id == name]
                    if len(uses) != 2:
                        continue
                    return lst, i, st, nxt, v.args[0]
        return None
    if find(fn) is None:
        return fn
    work = _relink(_strip(fn), getattr(fn, '_parent', None))
    for _ in range(4):
        hit = find(work)
        if hit is None:
            break
        lst, i, st, nxt, call = hit
        new = ast.If(test=nxt.test,
                     body=[ast.Expr(value=ast.YieldFrom(value=_strip(call)))],
                     orelse=[ast.Expr(value=ast.Call(func=ast.Name(id='list', ctx=ast.Load()), args=[_strip(call)], keywords=[]))])
        ast.copy_location(new, st)
        lst[i:i + 2] = [new]
        _relink(work, getattr(fn, '_parent', None))
    work._normalised = True
    return work


def unroll_literal_loops(fn):
    """`for a, b in ((x1, y1), (x2, y2)): BODY` over a short literal sequence of side-effect-free items is the sequence
    BODY[x1, y1]; BODY[x2, y2] - the same statements a hand-written chain has.  Only loops without break / continue /
    else whose target is not rebound in the body are unrolled."""
    if not isinstance(fn, (ast.FunctionDef, ast.AsyncFunctionDef)):
        return fn

    def eligible(loop):
        it = loop.iter
        if not isinstance(it, (ast.Tuple, ast.List)) or not (1 <= len(it.elts) <= 8) or loop.orelse:
            return None
        tgt = loop.target
        names = [tgt.id] if isinstance(tgt, ast.Name) else ([e.id for e in tgt.elts] if isinstance(tgt, ast.Tuple) and all(
            isinstance(e, ast.Name) for e in tgt.elts) else None)
        if names is None:
            return None
        rows = []
        for el in it.elts:
            if isinstance(tgt, ast.Name):
                row = [el]
            elif isinstance(el, (ast.Tuple, ast.List)) and len(el.elts) == len(names):
                row = list(el.elts)
            else:
                return None
            if not all(is_pure(x) and isinstance(x, (ast.Name, ast.Attribute, ast.Constant)) for x in row):
                return None
            rows.append(row)
        in_target = {id(x) for x in ast.walk(loop.target)}
        for n in ast.walk(loop):
            if n is loop or id(n) in in_target:
                continue
            if isinstance(n, (ast.Break, ast.Continue)):
                inner = _enclosing(n, (ast.For, ast.While, ast.AsyncFor), None)
                if inner is loop:
                    return None
            if _assigned_texts(n) & set(names):
                return None
            if isinstance(n, ast.Name) and n.id in names and not isinstance(n.ctx, ast.Load):
                return None
        return names, rows
    loops = [n for n in _own_nodes(fn) if isinstance(n, ast.For) and eligible(n)]
    if not loops:
        return fn
    work = _relink(_strip(fn), getattr(fn, '_parent', None))
    for _ in range(6):
        target = next((n for n in _own_nodes(work) if isinstance(n, ast.For) and eligible(n)), None)
        if target is None:
            break
        names, rows = eligible(target)
        new_body = []
        for row in rows:
            mapping = dict(zip(names, row))

            class _S(ast.NodeTransformer):
                def visit_Name(self, node):
                    if isinstance(node.ctx, ast.Load) and node.id in mapping:
                        return ast.copy_location(_strip(mapping[node.id]), node)
                    return node
            for st in target.body:
                new_body.append(_S().visit(_strip(st)))
        parent = target._parent
        for field in ('body', 'orelse', 'finalbody'):
            lst = getattr(parent, field, None)
            if isinstance(lst, list) and target in lst:
                i = lst.index(target)
                lst[i:i + 1] = new_body
        _relink(work, getattr(fn, '_parent', None))
    work._normalised = True
    return work


# ---------------------------------------------------------------------------------------------------------------------
def _branching(value):
    return isinstance(value, ast.IfExp)


class _Desugar(ast.NodeTransformer):
    """Statement-level conditional expressions become if statements (nested defs are left alone)."""

    def visit_FunctionDef(self, node):
        if getattr(self, '_entered', False):
            return node
        self._entered = True
        self.generic_visit(node)
        return node

    visit_AsyncFunctionDef = visit_FunctionDef

    def visit_Lambda(self, node):
        return node

    def _split(self, stmt, value, rebuild):
        t = ast.If(test=_strip(value.test), body=[rebuild(_strip(value.body))], orelse=[rebuild(_strip(value.orelse))])
        ast.copy_location(t, stmt)
        for b in t.body + t.orelse:
            ast.copy_location(b, stmt)
        # nested conditional expressions
        t.body = [self.visit(b) for b in t.body]
        t.orelse = [self.visit(b) for b in t.orelse]
        t.body = [x for b in t.body for x in (b if isinstance(b, list) else [b])]
        t.orelse = [x for b in t.orelse for x in (b if isinstance(b, list) else [b])]
        return t

    def visit_Assign(self, node):
        if _branching(node.value) and len(node.targets) == 1 and isinstance(node.targets[0], (ast.Name, ast.Attribute, ast.Tuple)):
            return self._split(node, node.value, lambda v: ast.Assign(targets=[_strip(node.targets[0])], value=v, type_comment=None))
        t = node.targets[0] if len(node.targets) == 1 else None
        if isinstance(t, ast.Tuple) and isinstance(node.value, ast.Tuple) and len(t.elts) == len(node.value.elts) \
                and all(isinstance(e, ast.Name) for e in t.elts) and all(is_pure(v) for v in node.value.elts) \
                and not ({e.id for e in t.elts} & {n.id for v in node.value.elts for n in ast.walk(v) if isinstance(n, ast.Name)}):
            # `a, b = x, y` with independent pure sides is `a = x; b = y`
            out = []
            for e, v in zip(t.elts, node.value.elts):
                out.append(ast.copy_location(ast.Assign(targets=[_strip(e)], value=_strip(v), type_comment=None), node))
            return out
        return self._lift_arg(node)

    def _lift_arg(self, stmt):
        """`... f(a, (X if c else Y), b)` at statement level with side-effect-free a, c: the choice is hoisted out of the
        call (`if c: ... f(a, X, b) else: ... f(a, Y, b)`), the same events a statement-level branch gives."""
        v = getattr(stmt, 'value', None)
        inner = v
        while isinstance(inner, (ast.YieldFrom, ast.Await, ast.Yield)):
            inner = inner.value
        if not isinstance(inner, ast.Call):
            return stmt
        if isinstance(inner.func, ast.IfExp) and getattr(inner.func, '_from_temp', False) and is_pure(inner.func.test):
            out = []
            for choice in (inner.func.body, inner.func.orelse):
                s2 = _strip(stmt)
                c2 = s2.value
                while isinstance(c2, (ast.YieldFrom, ast.Await, ast.Yield)):
                    c2 = c2.value
                c2.func = _strip(choice)
                out.append(s2)
            t = ast.If(test=_strip(inner.func.test), body=[out[0]], orelse=[out[1]])
            return ast.copy_location(t, stmt)
        slots = [('args', i, a) for i, a in enumerate(inner.args)] + [('kw', i, k.value) for i, k in enumerate(inner.keywords)]
        for n, (kind, i, a) in enumerate(slots):
            if isinstance(a, ast.IfExp) and getattr(a, '_from_temp', False):
                before = [x for _, _, x in slots[:n]]
                if not (is_pure(a.test) and all(is_pure(x) for x in before) and is_pure(inner.func)):
                    return stmt
                out = []
                for choice in (a.body, a.orelse):
                    s2 = _strip(stmt)
                    c2 = s2.value
                    while isinstance(c2, (ast.YieldFrom, ast.Await, ast.Yield)):
                        c2 = c2.value
                    if kind == 'args':
                        c2.args[i] = _strip(choice)
                    else:
                        c2.keywords[i].value = _strip(choice)
                    out.append(s2)
                t = ast.If(test=_strip(a.test), body=[out[0]], orelse=[out[1]])
                ast.copy_location(t, stmt)
                t.body = [x for b in t.body for x in ([self.visit(b)] if not isinstance(self.visit(b), list) else self.visit(b))]
                t.orelse = [x for b in t.orelse for x in ([self.visit(b)] if not isinstance(self.visit(b), list) else self.visit(b))]
                return t
        return stmt

    def visit_AnnAssign(self, node):
        if node.value is not None and _branching(node.value) and isinstance(node.target, (ast.Name, ast.Attribute)):
            return self._split(node, node.value, lambda v: ast.Assign(targets=[_strip(node.target)], value=v, type_comment=None))
        return node

    def visit_Return(self, node):
        if node.value is not None and _branching(node.value):
            return self._split(node, node.value, lambda v: ast.Return(value=v))
        return node

    def visit_Expr(self, node):
        v = node.value
        if isinstance(v, ast.YieldFrom) and _branching(v.value):
            return self._split(node, v.value, lambda x: ast.Expr(value=ast.YieldFrom(value=x)))
        if isinstance(v, ast.Yield) and v.value is not None and _branching(v.value):
            return self._split(node, v.value, lambda x: ast.Expr(value=ast.Yield(value=x)))
        return self._lift_arg(node)


def desugar_ifexp(fn):
    if not isinstance(fn, (ast.FunctionDef, ast.AsyncFunctionDef)):
        return fn
    has = False
    for n in _own_nodes(fn):
        if isinstance(n, (ast.Assign, ast.AnnAssign, ast.Return)) and getattr(n, 'value', None) is not None and _branching(n.value):
            has = True
        if isinstance(n, ast.Assign) and len(n.targets) == 1 and isinstance(n.targets[0], ast.Tuple) and isinstance(n.value, ast.Tuple):
            has = True
        elif isinstance(n, ast.Expr) and isinstance(n.value, (ast.Yield, ast.YieldFrom)) and n.value.value is not None \
                and _branching(n.value.value):
            has = True
        if isinstance(n, ast.Call) and any(isinstance(a, ast.IfExp) and getattr(a, '_from_temp', False)
                                           for a in list(n.args) + [k.value for k in n.keywords] + [n.func]):
            has = True
    if not has:
        return fn
    clone = _strip(fn)
    clone = _Desugar().visit(clone)
    _relink(clone, getattr(fn, '_parent', None))
    clone._normalised = True
    for attr in ('_canon_renamed',):
        if hasattr(fn, attr):
            setattr(clone, attr, getattr(fn, attr))
    return clone


def module_functions(tree, is_known):
    """New plain module-level functions (unknown to the role table) that can be substituted at their call sites:
    name -> (params, body).  Only positional parameters without defaults, no generator, no nested scopes, not recursive."""
    out = {}
    for n in tree.body:
        if not isinstance(n, ast.FunctionDef) or is_known(n.name) or n.decorator_list:
            continue
        a = n.args
        if a.vararg or a.kwarg or a.kwonlyargs or a.defaults or a.posonlyargs:
            continue
        inner = list(ast.walk(n))[1:]
        if any(isinstance(x, (ast.Yield, ast.YieldFrom, ast.FunctionDef, ast.AsyncFunctionDef, ast.Lambda, ast.ClassDef,
                              ast.Global, ast.Nonlocal)) for x in inner):
            continue
        if any(isinstance(x, ast.Name) and x.id == n.name for x in inner):
            continue
        body = [st for i, st in enumerate(n.body)
                if not (i == 0 and isinstance(st, ast.Expr) and isinstance(st.value, ast.Constant) and isinstance(st.value.value, str))]
        if not body:
            continue
        out[n.name] = ([p.arg for p in a.args], body)
    return out


def inline_module_functions(fn, funcs):
    """A call of a new module-level helper is replaced by the helper's body when the call is a whole statement:
    `return f(..)` (the helper's returns become the caller's; falling off the end returns None), `f(..)` (helper without a
    value-returning `return` except as its last statement) and `x = f(..)` (helper whose only `return` is its last
    statement).  Parameters are bound by assignment in front of the body unless the argument is the parameter's own name.
    Nothing is done when the helper's locals collide with the caller's."""
    if not funcs or not isinstance(fn, (ast.FunctionDef, ast.AsyncFunctionDef)) or fn.name in funcs:
        return fn

    def call_of(st):
        v = None
        if isinstance(st, ast.Return):
            v = st.value
        elif isinstance(st, ast.Expr):
            v = st.value
        elif isinstance(st, ast.Assign) and len(st.targets) == 1 and isinstance(st.targets[0], ast.Name):
            v = st.value
        if isinstance(v, ast.Call) and isinstance(v.func, ast.Name) and v.func.id in funcs and not v.keywords \
                and not any(isinstance(a, ast.Starred) for a in v.args) and len(v.args) == len(funcs[v.func.id][0]):
            return v
        return None

    def returns_of(body):
        return [x for st in body for x in ast.walk(st) if isinstance(x, ast.Return)]

    def usable(st, call):
        params, body = funcs[call.func.id]
        rets = returns_of(body)
        if isinstance(st, ast.Return):
            return True
        last_only = all(r is body[-1] for r in rets)
        if isinstance(st, ast.Expr):
            return last_only or all(r.value is None for r in rets) and False
        return len(rets) == 1 and rets[0] is body[-1] and rets[0].value is not None

    def find(root):
        for n in [root] + list(_own_nodes(root)):
            for field in ('body', 'orelse', 'finalbody'):
                lst = getattr(n, field, None)
                if not isinstance(lst, list):
                    continue
                for i, st in enumerate(lst):
                    c = call_of(st)
                    if c is not None and usable(st, c):
                        return lst, i, st, c
        return None
    if find(fn) is None:
        return fn
    work = _relink(_strip(fn), getattr(fn, '_parent', None))
    for _ in range(8):
        hit = find(work)
        if hit is None:
            break
        lst, i, st, call = hit
        params, body = funcs[call.func.id]
        callee_locals = {x.id for b in body for x in ast.walk(b) if isinstance(x, ast.Name) and isinstance(x.ctx, ast.Store)}
        bound = {p for p, a in zip(params, call.args) if not (isinstance(a, ast.Name) and a.id == p)}
        # names of the caller that are still read after the call (or anywhere in a loop around it) must not be overwritten
        # by the helper's locals; nor may a parameter binding overwrite a name a later argument reads
        end = getattr(st, 'end_lineno', getattr(st, 'lineno', 0))
        live = {x.id for x in _own_nodes(work) if isinstance(x, ast.Name) and isinstance(x.ctx, ast.Load) and getattr(x, 'lineno', 0) > end}
        loop = _enclosing(st, (ast.For, ast.While), work)
        if loop is not None:
            live |= {x.id for x in ast.walk(loop) if isinstance(x, ast.Name) and isinstance(x.ctx, ast.Load)}
        arg_reads = {x.id for a in call.args for x in ast.walk(a) if isinstance(x, ast.Name)}
        ren = {nm: f'{nm}__{call.func.id}' for nm in (callee_locals | bound) if nm in live or (nm in bound and nm in arg_reads)}

        class _R(ast.NodeTransformer):
            def visit_Name(self, n):
                if n.id in ren:
                    return ast.copy_location(ast.Name(id=ren[n.id], ctx=n.ctx), n)
                return n
        new = []
        for p, a in zip(params, call.args):
            tgt = ren.get(p, p)
            if isinstance(a, ast.Name) and a.id == tgt:
                continue
            new.append(ast.Assign(targets=[ast.Name(id=tgt, ctx=ast.Store())], value=_strip(a), type_comment=None))
        copied = [_R().visit(_strip(b)) for b in body]
        if isinstance(st, ast.Return):
            if not isinstance(copied[-1], (ast.Return, ast.Raise)):
                copied.append(ast.Return(value=ast.Constant(value=None)))
        elif isinstance(st, ast.Expr):
            if isinstance(copied[-1], ast.Return):
                last = copied.pop()
                if last.value is not None and not is_pure(last.value):
                    copied.append(ast.Expr(value=last.value))
        else:
            last = copied.pop()
            copied.append(ast.Assign(targets=[_strip(st.targets[0])], value=last.value, type_comment=None))
        new += copied
        for x in new:
            for y in ast.walk(x):
                if not hasattr(y, 'lineno') or True:
                    y.lineno = getattr(st, 'lineno', 1)
                    y.col_offset = getattr(st, 'col_offset', 0)
                    y.end_lineno = getattr(st, 'end_lineno', y.lineno)
                    y.end_col_offset = getattr(st, 'end_col_offset', 0)
        lst[i:i + 1] = new
        _relink(work, getattr(fn, '_parent', None))
    work._normalised = True
    return work
