"""NORMALISE: syntax-level normal form applied to every function before it is analysed.

Rules describe what the repository's functions do in terms of the expressions they evaluate.  Clean-up commits
routinely change how those expressions are *spelled* without changing what is evaluated:

  * a sub-expression gets a name (``el_type = expr.type.el_type``; ``falls_through = not exited and ...``;
    ``cleanup = self.pop(...)`` followed by ``yield from cleanup``),
  * ``x = a if c else b`` is written as an if statement or the other way round.

This module undoes both, so that the event stream a rule sees does not depend on such choices:

  inline_temporaries  a local that did not exist when the rules were written (it is not in spec/roles.json), is bound
                      exactly once to a side-effect-free expression (or to a not-yet-started generator call), and whose
                      operands cannot change between the binding and a use, is replaced at that use by its definition;
  desugar_ifexp       ``T = A if c else B`` / ``return A if c else B`` / ``yield from (A if c else B)`` become if
                      statements, so that both spellings give the same branch events.

Nothing here executes repository code.  A temporary that does not meet the conditions is left alone (the rules then see
an unknown name and, at worst, report it - never the other way round).
"""
from __future__ import annotations

import ast

from .pyfacts import src

PURE_BUILTINS = {'isinstance', 'len', 'type', 'tuple', 'bool', 'int', 'getattr', 'min', 'max', 'frozenset', 'abs', 'bytes', 'ord', 'str',
                 'repr', 'any', 'all', 'sorted', 'hasattr', 'issubclass', 'id'}
PURE_METHODS = {'get', 'exit_modes', 'access_byte', 'max_length', 'frame_size', 'array_size', 'is_safe', 'is_goto', 'items', 'keys',
                'values', 'bit_length', 'startswith', 'endswith', 'removesuffix', 'removeprefix', 'encode', 'decode', 'format',
                'type_equiv_assignment', 'coercible', 'at', 'with_value', 'lookup_var'}
DRAIN_FUNCS = {'list', 'tuple'}


def _strip(node):
    if isinstance(node, ast.AST):
        new = type(node).__new__(type(node))
        for name in node._fields:
            setattr(new, name, _strip(getattr(node, name, None)))
        for name in ('lineno', 'col_offset', 'end_lineno', 'end_col_offset', '_from_temp'):
            if hasattr(node, name):
                setattr(new, name, getattr(node, name))
        return new
    if isinstance(node, list):
        return [_strip(x) for x in node]
    return node


def _relink(fn, parent=None):
    ast.fix_missing_locations(fn)
    for node in ast.walk(fn):
        for child in ast.iter_child_nodes(node):
            child._parent = node
    fn._parent = parent
    return fn


def _own_nodes(fn):
    """Nodes of fn not inside nested function / class / lambda definitions."""
    stack = list(ast.iter_child_nodes(fn))
    while stack:
        n = stack.pop()
        yield n
        if isinstance(n, (ast.FunctionDef, ast.AsyncFunctionDef, ast.ClassDef, ast.Lambda)):
            continue
        stack.extend(ast.iter_child_nodes(n))


def is_pure(node, gen_methods=(), pure_names=()):
    """Side-effect free and cheap to re-evaluate: no yield / await / walrus, calls only to constructors and known pure
    helpers."""
    for n in ast.walk(node):
        if isinstance(n, (ast.Yield, ast.YieldFrom, ast.Await, ast.NamedExpr, ast.Lambda, ast.ListComp, ast.SetComp, ast.DictComp,
                          ast.GeneratorExp, ast.Starred)):
            return False
        if isinstance(n, ast.Call):
            f = n.func
            if isinstance(f, ast.Name):
                if f.id in PURE_BUILTINS or f.id[:1].isupper() or f.id in pure_names:
                    continue
                return False
            if isinstance(f, ast.Attribute):
                base = src(f.value)
                if f.attr in PURE_METHODS and f.attr not in gen_methods:
                    continue
                if base in ('asm', 'ast', 'stdlib', 'tokens', 'dc') and f.attr[:1].isupper():
                    continue
                if f.attr[:1].isupper():
                    continue
                return False
            return False
    return True


def _assigned_texts(stmt):
    """Texts (names / attribute paths) a statement node binds."""
    out = set()

    def target(t):
        if isinstance(t, ast.Name):
            out.add(t.id)
        elif isinstance(t, (ast.Tuple, ast.List)):
            for e in t.elts:
                target(e)
        elif isinstance(t, ast.Starred):
            target(t.value)
        elif isinstance(t, ast.Attribute):
            out.add(src(t))
        elif isinstance(t, ast.Subscript):
            out.add(src(t.value))
    if isinstance(stmt, ast.Assign):
        for t in stmt.targets:
            target(t)
    elif isinstance(stmt, (ast.AugAssign, ast.AnnAssign)):
        target(stmt.target)
    elif isinstance(stmt, (ast.For, ast.AsyncFor)):
        target(stmt.target)
    elif isinstance(stmt, (ast.With, ast.AsyncWith)):
        for it in stmt.items:
            if it.optional_vars is not None:
                target(it.optional_vars)
    elif isinstance(stmt, ast.NamedExpr):
        target(stmt.target)
    elif isinstance(stmt, ast.MatchAs) and stmt.name:
        out.add(stmt.name)
    elif isinstance(stmt, ast.Delete):
        for t in stmt.targets:
            target(t)
    return out


def _enclosing(node, kinds, stop):
    p = getattr(node, '_parent', None)
    while p is not None and p is not stop:
        if isinstance(p, kinds):
            return p
        p = getattr(p, '_parent', None)
    return None


class _Subst(ast.NodeTransformer):
    def __init__(self, name, value, only):
        self.name, self.value, self.only = name, value, only

    def visit_Name(self, node):
        if node.id == self.name and isinstance(node.ctx, ast.Load) and id(node) in self.only:
            new = ast.copy_location(_strip(self.value), node)
            for x in ast.walk(new):
                x._from_temp = True        # spelled out from a named temporary (see _Desugar._lift_arg)
            return new
        return node


def inline_temporaries(fn, known, gen_methods=()):
    """See module docstring.  `known`: names the rules may refer to (canonical locals of this function); `gen_methods`:
    names of generator methods of the class (a call to one only creates a generator object)."""
    if not isinstance(fn, (ast.FunctionDef, ast.AsyncFunctionDef)):
        return fn
    params = {a.arg for a in fn.args.posonlyargs + fn.args.args + fn.args.kwonlyargs}
    work = None
    for _round in range(8):
        cur = work if work is not None else fn
        nodes = list(_own_nodes(cur))
        binds = {}
        for n in nodes:
            for t in _assigned_texts(n):
                binds.setdefault(t, []).append(n)
        cand = None
        for n in sorted((x for x in nodes if isinstance(x, ast.Assign)), key=lambda x: x.lineno):
            if len(n.targets) != 1 or not isinstance(n.targets[0], ast.Name):
                continue
            name = n.targets[0].id
            if name in known or name in params or len(binds.get(name, [])) != 1 or name.startswith('__'):
                continue
            val = n.value
            deferred = isinstance(val, ast.Call) and isinstance(val.func, ast.Attribute) and src(val.func.value) == 'self' \
                and val.func.attr in gen_methods and all(is_pure(a) for a in list(val.args) + [k.value for k in val.keywords])
            if not deferred and not is_pure(val, gen_methods):
                continue
            uses = [x for x in nodes if isinstance(x, ast.Name) and x.id == name and isinstance(x.ctx, ast.Load)]
            if not uses:
                continue
            if deferred:
                ok = True
                for u in uses:
                    p = getattr(u, '_parent', None)
                    if isinstance(p, ast.YieldFrom):
                        continue
                    if isinstance(p, ast.For) and p.iter is u:
                        continue
                    if isinstance(p, ast.Call) and isinstance(p.func, ast.Name) and p.func.id in DRAIN_FUNCS and p.args == [u]:
                        continue
                    ok = False
                if not ok:
                    continue
            free = {x.id for x in ast.walk(val) if isinstance(x, ast.Name)} | \
                   {src(x) for x in ast.walk(val) if isinstance(x, ast.Attribute)}
            reads_self_state = any(isinstance(x, ast.Attribute) and src(x.value) == 'self' and x.attr not in gen_methods
                                   for x in ast.walk(val))
            def_loop = _enclosing(n, (ast.For, ast.While, ast.AsyncFor), cur)
            good = set()
            for u in uses:
                if u.lineno <= n.lineno:
                    continue
                u_loop = _enclosing(u, (ast.For, ast.While, ast.AsyncFor), cur)
                lo, hi = n.lineno, u.lineno
                if u_loop is not None and u_loop is not def_loop and not (u_loop.lineno <= n.lineno <= u_loop.end_lineno):
                    lo2, hi2 = u_loop.lineno, u_loop.end_lineno
                else:
                    lo2 = hi2 = None
                unsafe = False
                for m in nodes:
                    ln = getattr(m, 'lineno', None)
                    if ln is None or m is n:
                        continue
                    inside = (lo < ln < hi) or (lo == ln and m is not n and False) or (lo2 is not None and lo2 <= ln <= hi2)
                    if not inside:
                        continue
                    if _assigned_texts(m) & free:
                        unsafe = True
                        break
                    if reads_self_state and isinstance(m, (ast.Call, ast.YieldFrom, ast.Yield, ast.Await)) and lo < ln < hi:
                        if isinstance(m, ast.Call) and is_pure(m, gen_methods):
                            continue
                        # only a problem if it lies on a different statement than the use itself
                        if ln != hi:
                            unsafe = True
                            break
                if not unsafe:
                    good.add(id(u))
            if good and len(good) == len(uses):
                # all or nothing: a temporary that survives at some uses would make the two spellings of one fact
                # (the name, the expression) look independent to the path enumeration
                cand = (n, name, val, good, True)
                break
        if cand is None:
            break
        n, name, val, good, all_uses = cand
        if work is None:
            # operate on a private copy; recompute the candidate on it
            work = _relink(_strip(fn), getattr(fn, '_parent', None))
            continue
        _Subst(name, val, good).visit(cur)
        if all_uses:
            parent = n._parent
            for field in ('body', 'orelse', 'finalbody', 'handlers'):
                lst = getattr(parent, field, None)
                if isinstance(lst, list) and n in lst:
                    lst.remove(n)
                    if not lst:
                        lst.append(ast.copy_location(ast.Pass(), n))
        else:
            # keep the definition but never offer it again
            known = set(known) | {name}
        _relink(cur, getattr(fn, '_parent', None))
    out = work if work is not None else fn
    if work is not None:
        out._normalised = True
    return out


def _fold_int(node, consts):
    """Value of an integer expression over literals and already known constant names; None if it is anything else."""
    import operator as _op
    ops = {ast.Add: _op.add, ast.Sub: _op.sub, ast.Mult: _op.mul, ast.FloorDiv: _op.floordiv, ast.Mod: _op.mod, ast.LShift: _op.lshift,
           ast.RShift: _op.rshift, ast.BitAnd: _op.and_, ast.BitOr: _op.or_, ast.BitXor: _op.xor, ast.Pow: _op.pow}
    if isinstance(node, ast.Constant) and isinstance(node.value, int) and not isinstance(node.value, bool):
        return node.value
    if isinstance(node, ast.Name) and node.id in consts and isinstance(consts[node.id], ast.Constant) and \
            isinstance(consts[node.id].value, int) and not isinstance(consts[node.id].value, bool):
        return consts[node.id].value
    if isinstance(node, ast.UnaryOp) and isinstance(node.op, (ast.USub, ast.UAdd, ast.Invert)):
        v = _fold_int(node.operand, consts)
        if v is None:
            return None
        return -v if isinstance(node.op, ast.USub) else (+v if isinstance(node.op, ast.UAdd) else ~v)
    if isinstance(node, ast.BinOp) and type(node.op) in ops:
        a, b = _fold_int(node.left, consts), _fold_int(node.right, consts)
        if a is None or b is None:
            return None
        try:
            if isinstance(node.op, (ast.Pow, ast.LShift)) and (b < 0 or b > 256):
                return None
            return ops[type(node.op)](a, b)
        except (ZeroDivisionError, ValueError, OverflowError):
            return None
    return None


def module_constants(tree, known_names):
    """{name: value node} of module-level names that did not exist when the rules were written, are bound exactly once,
    at module level, to a literal table / constant built from side-effect-free parts (a dict, tuple, list, set,
    frozenset(...), tuple(...) of names, attributes and constants), and are never rebound or mutated by name."""
    out = {}
    counts = {}
    for n in ast.walk(tree):
        for t in _assigned_texts(n):
            counts[t] = counts.get(t, 0) + 1
        if isinstance(n, ast.Global):
            for nm in n.names:
                counts[nm] = counts.get(nm, 0) + 5
    for n in tree.body:
        if isinstance(n, ast.Assign) and len(n.targets) == 1 and isinstance(n.targets[0], ast.Name):
            name, val = n.targets[0].id, n.value
        elif isinstance(n, ast.AnnAssign) and isinstance(n.target, ast.Name) and n.value is not None:
            name, val = n.target.id, n.value
        else:
            continue
        if name in known_names or counts.get(name, 0) != 1 or name.startswith('__'):
            continue
        inner = val
        if isinstance(inner, ast.Call) and isinstance(inner.func, ast.Name) and inner.func.id in ('frozenset', 'tuple', 'set', 'dict', 'list') \
                and len(inner.args) == 1 and not inner.keywords:
            inner = inner.args[0]
        if isinstance(inner, (ast.BinOp, ast.UnaryOp)):
            # integer arithmetic over literals and earlier new constants (BOOL_BIT_MASK = BOOLS_PER_BYTE - 1): folded
            folded = _fold_int(inner, out)
            if folded is None:
                continue
            out[name] = ast.copy_location(ast.Constant(value=folded), val)
            continue
        if not isinstance(inner, (ast.Dict, ast.Tuple, ast.List, ast.Set, ast.Constant)):
            continue
        if not is_pure(val):
            continue
        inner_calls = [x for x in ast.walk(val) if isinstance(x, ast.Call) and x is not val]
        if any(not (isinstance(x.func, ast.Attribute) and x.func.attr[:1].isupper()
                    or isinstance(x.func, ast.Name) and x.func.id[:1].isupper()
                    or src(x.func) == 're.compile') for x in inner_calls):
            continue
        # mutated through a method call (append / update / ...) anywhere?  then it is not a constant
        mutated = False
        for x in ast.walk(tree):
            if isinstance(x, ast.Call) and isinstance(x.func, ast.Attribute) and isinstance(x.func.value, ast.Name) \
                    and x.func.value.id == name and x.func.attr in ('append', 'extend', 'update', 'add', 'insert', 'pop', 'remove', 'clear',
                                                                     'setdefault', 'discard', 'sort', 'reverse', 'popitem'):
                mutated = True
            if isinstance(x, (ast.Subscript,)) and isinstance(x.value, ast.Name) and x.value.id == name and isinstance(x.ctx, (ast.Store, ast.Del)):
                mutated = True
        if not mutated:
            out[name] = val
    return out


def inline_module_constants(fn, consts):
    """Uses of new module-level constant tables (see module_constants) are replaced by the literal, unless the function
    binds the name itself."""
    if not consts or not isinstance(fn, (ast.FunctionDef, ast.AsyncFunctionDef)):
        return fn
    nodes = list(_own_nodes(fn))
    local = set()
    for n in nodes:
        local |= _assigned_texts(n)
    local |= {a.arg for a in fn.args.posonlyargs + fn.args.args + fn.args.kwonlyargs}
    uses = [x for x in nodes if isinstance(x, ast.Name) and isinstance(x.ctx, ast.Load) and x.id in consts and x.id not in local]
    if not uses:
        return fn
    work = _relink(_strip(fn), getattr(fn, '_parent', None))

    class _T(ast.NodeTransformer):
        def visit_Name(self, node):
            if isinstance(node.ctx, ast.Load) and node.id in consts and node.id not in local:
                return ast.copy_location(_strip(consts[node.id]), node)
            return node

        def visit_FunctionDef(self, node):
            if node is work:
                self.generic_visit(node)
            return node
        visit_AsyncFunctionDef = visit_FunctionDef

        def visit_Lambda(self, node):
            return node
    _T().visit(work)
    _relink(work, getattr(fn, '_parent', None))
    work._normalised = True
    return work


def simple_members(class_node, is_known):
    """{name: ('property' | 'method', params, expr)} for members of a class that did not exist when the rules were written
    and merely name an expression: a property / method whose body is `return <side-effect-free expression>`."""
    out = {}
    if class_node is None:
        return out
    for m in class_node.body:
        if not isinstance(m, ast.FunctionDef) or is_known(m.name) or m.name.startswith('__'):
            continue
        body = [st for st in m.body if not (isinstance(st, ast.Expr) and isinstance(st.value, ast.Constant))]
        if len(body) != 1 or not isinstance(body[0], ast.Return) or body[0].value is None:
            continue
        expr = body[0].value
        if not is_pure(expr):
            continue
        decos = [src(d) for d in m.decorator_list]
        params = [a.arg for a in m.args.args]
        if m.args.vararg or m.args.kwarg or m.args.kwonlyargs or m.args.defaults:
            continue
        if any(d in ('property', 'functools.cached_property', 'cached_property') for d in decos) and params == ['self']:
            out[m.name] = ('property', [], expr)
        elif not decos and params[:1] == ['self']:
            out[m.name] = ('method', params[1:], expr)
        elif decos == ['staticmethod']:
            out[m.name] = ('method', params, expr)
    return out


def inline_simple_members(fn, members):
    """`self.<new property>` and `self.<new pure one-line method>(args)` are replaced by the expression they name."""
    if not members or not isinstance(fn, (ast.FunctionDef, ast.AsyncFunctionDef)) or fn.name in members:
        return fn
    hit = any(isinstance(n, ast.Attribute) and n.attr in members and isinstance(n.value, ast.Name) and n.value.id == 'self'
              for n in _own_nodes(fn))
    if not hit:
        return fn
    work = _relink(_strip(fn), getattr(fn, '_parent', None))

    class _T(ast.NodeTransformer):
        def visit_Call(self, node):
            self.generic_visit(node)
            f = node.func
            if isinstance(f, ast.Attribute) and isinstance(f.value, ast.Name) and f.value.id == 'self' and f.attr in members:
                kind, params, expr = members[f.attr]
                if kind == 'method' and not node.keywords and len(node.args) == len(params) and all(is_pure(a) for a in node.args):
                    mapping = dict(zip(params, node.args))

                    class _S(ast.NodeTransformer):
                        def visit_Name(self, n):
                            if isinstance(n.ctx, ast.Load) and n.id in mapping:
                                return ast.copy_location(_strip(mapping[n.id]), n)
                            return n
                    new = _S().visit(_strip(expr))
                    for x in ast.walk(new):
                        x._from_temp = True
                    return ast.copy_location(new, node)
            return node

        def visit_Attribute(self, node):
            self.generic_visit(node)
            if isinstance(node.ctx, ast.Load) and isinstance(node.value, ast.Name) and node.value.id == 'self' and node.attr in members \
                    and members[node.attr][0] == 'property':
                new = _strip(members[node.attr][2])
                for x in ast.walk(new):
                    x._from_temp = True
                return ast.copy_location(new, node)
            return node

        def visit_FunctionDef(self, node):
            if node is work:
                self.generic_visit(node)
            return node
        visit_AsyncFunctionDef = visit_FunctionDef

        def visit_Lambda(self, node):
            return node
    for _ in range(3):
        _T().visit(work)
        _relink(work, getattr(fn, '_parent', None))
    work._normalised = True
    return work


def context_managers(class_node, is_known):
    """{name: (params, pre statements, yielded value or None, post statements)} for @contextmanager methods of a class that
    did not exist when the rules were written and have the plain shape  pre...; yield [v]; post...  (the yield possibly
    inside `try: yield finally: post`)."""
    out = {}
    if class_node is None:
        return out
    for m in class_node.body:
        if not isinstance(m, ast.FunctionDef) or is_known(m.name):
            continue
        if not any('contextmanager' in src(d) for d in m.decorator_list):
            continue
        if m.args.vararg or m.args.kwarg or m.args.kwonlyargs or m.args.defaults:
            continue
        body = [st for st in m.body if not (isinstance(st, ast.Expr) and isinstance(st.value, ast.Constant))]
        pre, post, yielded, seen = [], [], None, False
        ok = True
        for st in body:
            is_yield = isinstance(st, ast.Expr) and isinstance(st.value, ast.Yield)
            is_try = isinstance(st, ast.Try) and len(st.body) == 1 and isinstance(st.body[0], ast.Expr) and \
                isinstance(st.body[0].value, ast.Yield) and not st.handlers and not st.orelse
            if (is_yield or is_try) and not seen:
                seen = True
                y = st.value if is_yield else st.body[0].value
                yielded = y.value
                if is_try:
                    post += st.finalbody
            elif any(isinstance(x, (ast.Yield, ast.YieldFrom)) for x in ast.walk(st)):
                ok = False
            elif seen:
                post.append(st)
            else:
                pre.append(st)
        if ok and seen:
            out[m.name] = ([a.arg for a in m.args.args if a.arg != 'self'], pre, yielded, post)
    return out


def inline_context_managers(fn, cms):
    """`with self.<new context manager>(args) [as x]: BODY` becomes  pre; [x = value]; BODY; post."""
    if not cms or not isinstance(fn, (ast.FunctionDef, ast.AsyncFunctionDef)) or fn.name in cms:
        return fn

    def target_of(item):
        c = item.context_expr
        if isinstance(c, ast.Call) and isinstance(c.func, ast.Attribute) and isinstance(c.func.value, ast.Name) and c.func.value.id == 'self' \
                and c.func.attr in cms and not c.keywords and len(c.args) == len(cms[c.func.attr][0]) and all(is_pure(a) for a in c.args):
            return c
        return None
    if not any(isinstance(n, ast.With) and len(n.items) == 1 and target_of(n.items[0]) for n in _own_nodes(fn)):
        return fn
    work = _relink(_strip(fn), getattr(fn, '_parent', None))
    for _ in range(6):
        w = next((n for n in _own_nodes(work) if isinstance(n, ast.With) and len(n.items) == 1 and target_of(n.items[0])), None)
        if w is None:
            break
        call = target_of(w.items[0])
        params, pre, yielded, post = cms[call.func.attr]
        mapping = dict(zip(params, call.args))

        class _S(ast.NodeTransformer):
            def visit_Name(self, n):
                if isinstance(n.ctx, ast.Load) and n.id in mapping:
                    return ast.copy_location(_strip(mapping[n.id]), n)
                return n
        new = [_S().visit(_strip(st)) for st in pre]
        if w.items[0].optional_vars is not None:
            val = _S().visit(_strip(yielded)) if yielded is not None else ast.Constant(value=None)
            new.append(ast.Assign(targets=[_strip(w.items[0].optional_vars)], value=val, type_comment=None))
        new += w.body
        new += [_S().visit(_strip(st)) for st in post]
        for st in new:
            ast.copy_location(st, w) if not hasattr(st, 'lineno') else None
        parent = w._parent
        for field in ('body', 'orelse', 'finalbody'):
            lst = getattr(parent, field, None)
            if isinstance(lst, list) and w in lst:
                i = lst.index(w)
                lst[i:i + 1] = new
        _relink(work, getattr(fn, '_parent', None))
    work._normalised = True
    return work


def uncollect_generators(fn, gen_methods=()):
    """`X = list(self.gen(..))` immediately followed by `if C: yield from X` (X used nowhere else) runs the generator for
    its book-keeping and emits what it produced only under C - the same as `if C: yield from self.gen(..)  else:
    list(self.gen(..))`.  Rewritten to that form (C must be side-effect free)."""
    if not isinstance(fn, (ast.FunctionDef, ast.AsyncFunctionDef)):
        return fn

    def find(root):
        for n in _own_nodes(root):
            for field in ('body', 'orelse', 'finalbody'):
                lst = getattr(n, field, None)
                if not isinstance(lst, list):
                    continue
                for i, st in enumerate(lst[:-1]):
                    if not (isinstance(st, ast.Assign) and len(st.targets) == 1 and isinstance(st.targets[0], ast.Name)):
                        continue
                    v = st.value
                    if not (isinstance(v, ast.Call) and isinstance(v.func, ast.Name) and v.func.id in ('list', 'tuple') and len(v.args) == 1
                            and isinstance(v.args[0], ast.Call) and isinstance(v.args[0].func, ast.Attribute)
                            and src(v.args[0].func.value) == 'self' and v.args[0].func.attr in gen_methods):
                        continue
                    name = st.targets[0].id
                    nxt = lst[i + 1]
                    if not (isinstance(nxt, ast.If) and not nxt.orelse and len(nxt.body) == 1 and isinstance(nxt.body[0], ast.Expr)
                            and isinstance(nxt.body[0].value, ast.YieldFrom) and isinstance(nxt.body[0].value.value, ast.Name)
                            and nxt.body[0].value.value.id == name and is_pure(nxt.test)):
                        continue
                    uses = [x for x in _own_nodes(root) if isinstance(x, ast.Name) and x.id == name]
                    if len(uses) != 2:
                        continue
                    return lst, i, st, nxt, v.args[0]
        return None
    if find(fn) is None:
        return fn
    work = _relink(_strip(fn), getattr(fn, '_parent', None))
    for _ in range(4):
        hit = find(work)
        if hit is None:
            break
        lst, i, st, nxt, call = hit
        new = ast.If(test=nxt.test,
                     body=[ast.Expr(value=ast.YieldFrom(value=_strip(call)))],
                     orelse=[ast.Expr(value=ast.Call(func=ast.Name(id='list', ctx=ast.Load()), args=[_strip(call)], keywords=[]))])
        ast.copy_location(new, st)
        lst[i:i + 2] = [new]
        _relink(work, getattr(fn, '_parent', None))
    work._normalised = True
    return work


def unroll_literal_loops(fn):
    """`for a, b in ((x1, y1), (x2, y2)): BODY` over a short literal sequence of side-effect-free items is the sequence
    BODY[x1, y1]; BODY[x2, y2] - the same statements a hand-written chain has.  Only loops without break / continue /
    else whose target is not rebound in the body are unrolled."""
    if not isinstance(fn, (ast.FunctionDef, ast.AsyncFunctionDef)):
        return fn

    def eligible(loop):
        it = loop.iter
        if not isinstance(it, (ast.Tuple, ast.List)) or not (1 <= len(it.elts) <= 8) or loop.orelse:
            return None
        tgt = loop.target
        names = [tgt.id] if isinstance(tgt, ast.Name) else ([e.id for e in tgt.elts] if isinstance(tgt, ast.Tuple) and all(
            isinstance(e, ast.Name) for e in tgt.elts) else None)
        if names is None:
            return None
        rows = []
        for el in it.elts:
            if isinstance(tgt, ast.Name):
                row = [el]
            elif isinstance(el, (ast.Tuple, ast.List)) and len(el.elts) == len(names):
                row = list(el.elts)
            else:
                return None
            if not all(is_pure(x) and isinstance(x, (ast.Name, ast.Attribute, ast.Constant)) for x in row):
                return None
            rows.append(row)
        in_target = {id(x) for x in ast.walk(loop.target)}
        for n in ast.walk(loop):
            if n is loop or id(n) in in_target:
                continue
            if isinstance(n, (ast.Break, ast.Continue)):
                inner = _enclosing(n, (ast.For, ast.While, ast.AsyncFor), None)
                if inner is loop:
                    return None
            if _assigned_texts(n) & set(names):
                return None
            if isinstance(n, ast.Name) and n.id in names and not isinstance(n.ctx, ast.Load):
                return None
        return names, rows
    loops = [n for n in _own_nodes(fn) if isinstance(n, ast.For) and eligible(n)]
    if not loops:
        return fn
    work = _relink(_strip(fn), getattr(fn, '_parent', None))
    for _ in range(6):
        target = next((n for n in _own_nodes(work) if isinstance(n, ast.For) and eligible(n)), None)
        if target is None:
            break
        names, rows = eligible(target)
        new_body = []
        for row in rows:
            mapping = dict(zip(names, row))

            class _S(ast.NodeTransformer):
                def visit_Name(self, node):
                    if isinstance(node.ctx, ast.Load) and node.id in mapping:
                        return ast.copy_location(_strip(mapping[node.id]), node)
                    return node
            for st in target.body:
                new_body.append(_S().visit(_strip(st)))
        parent = target._parent
        for field in ('body', 'orelse', 'finalbody'):
            lst = getattr(parent, field, None)
            if isinstance(lst, list) and target in lst:
                i = lst.index(target)
                lst[i:i + 1] = new_body
        _relink(work, getattr(fn, '_parent', None))
    work._normalised = True
    return work


# ---------------------------------------------------------------------------------------------------------------------
def _branching(value):
    return isinstance(value, ast.IfExp)


class _Desugar(ast.NodeTransformer):
    """Statement-level conditional expressions become if statements (nested defs are left alone)."""

    def visit_FunctionDef(self, node):
        if getattr(self, '_entered', False):
            return node
        self._entered = True
        self.generic_visit(node)
        return node

    visit_AsyncFunctionDef = visit_FunctionDef

    def visit_Lambda(self, node):
        return node

    def _split(self, stmt, value, rebuild):
        t = ast.If(test=_strip(value.test), body=[rebuild(_strip(value.body))], orelse=[rebuild(_strip(value.orelse))])
        ast.copy_location(t, stmt)
        for b in t.body + t.orelse:
            ast.copy_location(b, stmt)
        # nested conditional expressions
        t.body = [self.visit(b) for b in t.body]
        t.orelse = [self.visit(b) for b in t.orelse]
        t.body = [x for b in t.body for x in (b if isinstance(b, list) else [b])]
        t.orelse = [x for b in t.orelse for x in (b if isinstance(b, list) else [b])]
        return t

    def visit_Assign(self, node):
        if _branching(node.value) and len(node.targets) == 1 and isinstance(node.targets[0], (ast.Name, ast.Attribute, ast.Tuple)):
            return self._split(node, node.value, lambda v: ast.Assign(targets=[_strip(node.targets[0])], value=v, type_comment=None))
        t = node.targets[0] if len(node.targets) == 1 else None
        if isinstance(t, ast.Tuple) and isinstance(node.value, ast.Tuple) and len(t.elts) == len(node.value.elts) \
                and all(isinstance(e, ast.Name) for e in t.elts) and all(is_pure(v) for v in node.value.elts) \
                and not ({e.id for e in t.elts} & {n.id for v in node.value.elts for n in ast.walk(v) if isinstance(n, ast.Name)}):
            # `a, b = x, y` with independent pure sides is `a = x; b = y`
            out = []
            for e, v in zip(t.elts, node.value.elts):
                out.append(ast.copy_location(ast.Assign(targets=[_strip(e)], value=_strip(v), type_comment=None), node))
            return out
        return self._lift_arg(node)

    def _lift_arg(self, stmt):
        """`... f(a, (X if c else Y), b)` at statement level with side-effect-free a, c: the choice is hoisted out of the
        call (`if c: ... f(a, X, b) else: ... f(a, Y, b)`), the same events a statement-level branch gives."""
        v = getattr(stmt, 'value', None)
        inner = v
        while isinstance(inner, (ast.YieldFrom, ast.Await, ast.Yield)):
            inner = inner.value
        if not isinstance(inner, ast.Call):
            return stmt
        if isinstance(inner.func, ast.IfExp) and getattr(inner.func, '_from_temp', False) and is_pure(inner.func.test):
            out = []
            for choice in (inner.func.body, inner.func.orelse):
                s2 = _strip(stmt)
                c2 = s2.value
                while isinstance(c2, (ast.YieldFrom, ast.Await, ast.Yield)):
                    c2 = c2.value
                c2.func = _strip(choice)
                out.append(s2)
            t = ast.If(test=_strip(inner.func.test), body=[out[0]], orelse=[out[1]])
            return ast.copy_location(t, stmt)
        slots = [('args', i, a) for i, a in enumerate(inner.args)] + [('kw', i, k.value) for i, k in enumerate(inner.keywords)]
        for n, (kind, i, a) in enumerate(slots):
            if isinstance(a, ast.IfExp) and getattr(a, '_from_temp', False):
                before = [x for _, _, x in slots[:n]]
                if not (is_pure(a.test) and all(is_pure(x) for x in before) and is_pure(inner.func)):
                    return stmt
                out = []
                for choice in (a.body, a.orelse):
                    s2 = _strip(stmt)
                    c2 = s2.value
                    while isinstance(c2, (ast.YieldFrom, ast.Await, ast.Yield)):
                        c2 = c2.value
                    if kind == 'args':
                        c2.args[i] = _strip(choice)
                    else:
                        c2.keywords[i].value = _strip(choice)
                    out.append(s2)
                t = ast.If(test=_strip(a.test), body=[out[0]], orelse=[out[1]])
                ast.copy_location(t, stmt)
                t.body = [x for b in t.body for x in ([self.visit(b)] if not isinstance(self.visit(b), list) else self.visit(b))]
                t.orelse = [x for b in t.orelse for x in ([self.visit(b)] if not isinstance(self.visit(b), list) else self.visit(b))]
                return t
        return stmt

    def visit_AnnAssign(self, node):
        if node.value is not None and _branching(node.value) and isinstance(node.target, (ast.Name, ast.Attribute)):
            return self._split(node, node.value, lambda v: ast.Assign(targets=[_strip(node.target)], value=v, type_comment=None))
        return node

    def visit_Return(self, node):
        if node.value is not None and _branching(node.value):
            return self._split(node, node.value, lambda v: ast.Return(value=v))
        return node

    def visit_Expr(self, node):
        v = node.value
        if isinstance(v, ast.YieldFrom) and _branching(v.value):
            return self._split(node, v.value, lambda x: ast.Expr(value=ast.YieldFrom(value=x)))
        if isinstance(v, ast.Yield) and v.value is not None and _branching(v.value):
            return self._split(node, v.value, lambda x: ast.Expr(value=ast.Yield(value=x)))
        return self._lift_arg(node)


def desugar_ifexp(fn):
    if not isinstance(fn, (ast.FunctionDef, ast.AsyncFunctionDef)):
        return fn
    has = False
    for n in _own_nodes(fn):
        if isinstance(n, (ast.Assign, ast.AnnAssign, ast.Return)) and getattr(n, 'value', None) is not None and _branching(n.value):
            has = True
        if isinstance(n, ast.Assign) and len(n.targets) == 1 and isinstance(n.targets[0], ast.Tuple) and isinstance(n.value, ast.Tuple):
            has = True
        elif isinstance(n, ast.Expr) and isinstance(n.value, (ast.Yield, ast.YieldFrom)) and n.value.value is not None \
                and _branching(n.value.value):
            has = True
        if isinstance(n, ast.Call) and any(isinstance(a, ast.IfExp) and getattr(a, '_from_temp', False)
                                           for a in list(n.args) + [k.value for k in n.keywords] + [n.func]):
            has = True
    if not has:
        return fn
    clone = _strip(fn)
    clone = _Desugar().visit(clone)
    _relink(clone, getattr(fn, '_parent', None))
    clone._normalised = True
    for attr in ('_canon_renamed',):
        if hasattr(fn, attr):
            setattr(clone, attr, getattr(fn, attr))
    return clone


def _is_generator(fn):
    return any(isinstance(x, (ast.Yield, ast.YieldFrom)) for x in _own_nodes(fn))


def _callable_entry(n, is_method):
    """(params, defaults, body, is_gen) of a def that can be substituted at statement calls, or None."""
    a = n.args
    if a.vararg or a.kwarg or a.posonlyargs or n.decorator_list or isinstance(n, ast.AsyncFunctionDef):
        return None
    params = [p.arg for p in a.args]
    if is_method:
        if not params or params[0] != 'self':
            return None
        params = params[1:]
    inner = list(ast.walk(n))[1:]
    if any(isinstance(x, (ast.FunctionDef, ast.AsyncFunctionDef, ast.ClassDef, ast.Global, ast.Nonlocal)) for x in inner):
        return None
    # not recursive
    if any(isinstance(x, ast.Name) and x.id == n.name for x in inner) or \
            any(isinstance(x, ast.Attribute) and x.attr == n.name for x in inner):
        return None
    defaults = {}
    pos = a.args[len(a.args) - len(a.defaults):] if a.defaults else []
    for p_, d in zip(pos, a.defaults):
        defaults[p_.arg] = d
    for p_, d in zip(a.kwonlyargs, a.kw_defaults):
        params.append(p_.arg)
        if d is not None:
            defaults[p_.arg] = d
    if not all(isinstance(d, ast.Constant) for d in defaults.values()):
        return None
    body = [st for i, st in enumerate(n.body)
            if not (i == 0 and isinstance(st, ast.Expr) and isinstance(st.value, ast.Constant) and isinstance(st.value.value, str))]
    if not body:
        return None
    return params, defaults, body, _is_generator(n)


def module_functions(tree, is_known):
    """New plain module-level functions (unknown to the role table) that can be substituted at their call sites."""
    out = {}
    for n in tree.body:
        if isinstance(n, ast.FunctionDef) and not is_known(n.name):
            e = _callable_entry(n, False)
            if e is not None:
                out[n.name] = e
    return out


def class_functions(class_node, is_known):
    """New methods (unknown to the role table) that can be substituted at their `self.<name>(..)` statement calls."""
    out = {}
    if class_node is None:
        return out
    for n in class_node.body:
        if isinstance(n, ast.FunctionDef) and not is_known(n.name) and not (n.name.startswith('__') and n.name.endswith('__')):
            e = _callable_entry(n, True)
            if e is not None:
                out[n.name] = e
    return out


def only_statement_called(funcs, scope_nodes, all_nodes, method):
    """The subset of `funcs` every mention of which (in `all_nodes`, the whole program) is a statement call inside
    `scope_nodes` (the class body / module body the helpers live in): a helper that is also stored, passed on, drained with
    list(..) or called from elsewhere is left alone everywhere, so that all its uses are seen the same way."""
    def mention(x):
        if method and isinstance(x, ast.Attribute):
            return x.attr
        if not method and isinstance(x, ast.Name):
            return x.id
        if method and isinstance(x, ast.Name):
            return None
        return None
    total = {}
    for root in all_nodes:
        for x in ast.walk(root):
            nm = mention(x)
            if nm in funcs:
                total[nm] = total.get(nm, 0) + 1
    good = {}
    for root in scope_nodes:
        for st in ast.walk(root):
            v = None
            if isinstance(st, ast.Return):
                v = st.value
            elif isinstance(st, ast.Expr):
                v = st.value
            elif isinstance(st, ast.Assign) and len(st.targets) == 1 and (isinstance(st.targets[0], ast.Name) or (
                    isinstance(st.targets[0], ast.Tuple) and all(isinstance(e, ast.Name) for e in st.targets[0].elts))):
                v = st.value
            elif isinstance(st, ast.AugAssign) and isinstance(st.target, ast.Name):
                v = st.value
            gen = isinstance(v, ast.YieldFrom)
            c = v.value if gen else v
            if not isinstance(c, ast.Call):
                continue
            f = c.func
            if method and isinstance(f, ast.Attribute) and isinstance(f.value, ast.Name) and f.value.id == 'self':
                nm = f.attr
            elif not method and isinstance(f, ast.Name):
                nm = f.id
            else:
                continue
            if nm in funcs and funcs[nm][3] == gen:
                good[nm] = good.get(nm, 0) + 1
    return {nm: e for nm, e in funcs.items() if total.get(nm, 0) == good.get(nm, 0)}


def _names(node, ctx):
    return {x.id for x in ast.walk(node) if isinstance(x, ast.Name) and isinstance(x.ctx, ctx)}


def _exposed(stmts):
    """(names that may be read before they are written when `stmts` runs, names written on every way through it,
    whether every way through ends in return / raise)."""
    reads, writes = set(), set()

    def use(node):
        nonlocal reads
        if node is not None:
            reads |= _names(node, ast.Load) - writes
    for st in stmts:
        if isinstance(st, (ast.Return, ast.Raise)):
            use(st)
            return reads, writes, True
        if isinstance(st, ast.If):
            use(st.test)
            r1, w1, t1 = _exposed(st.body)
            r2, w2, t2 = _exposed(st.orelse)
            reads |= (r1 | r2) - writes
            if t1 and t2:
                return reads, writes, True
            writes |= w2 if t1 else w1 if t2 else (w1 & w2)
            continue
        if isinstance(st, ast.Match):
            use(st.subject)
            ws, all_t = None, True
            irrefutable = False
            for c in st.cases:
                bound = {x.name for x in ast.walk(c.pattern) if isinstance(x, (ast.MatchAs, ast.MatchStar)) and x.name} | \
                        {x.rest for x in ast.walk(c.pattern) if isinstance(x, ast.MatchMapping) and x.rest}
                for x in ast.walk(c.pattern):
                    if isinstance(x, (ast.MatchValue, ast.MatchClass)):
                        use(x.value if isinstance(x, ast.MatchValue) else x.cls)
                r, w, t = _exposed(([ast.Expr(value=c.guard)] if c.guard is not None else []) + c.body)
                reads |= r - writes - bound
                if not t:
                    ws = (w | bound) if ws is None else ws & (w | bound)
                    all_t = False
                if isinstance(c.pattern, ast.MatchAs) and c.pattern.pattern is None and c.guard is None:
                    irrefutable = True
            if irrefutable:
                if all_t:
                    return reads, writes, True
                writes |= ws or set()
            continue
        if isinstance(st, (ast.For, ast.AsyncFor)):
            use(st.iter)
            tgt = _names(st.target, ast.Store)
            r, _, _ = _exposed(st.body)
            reads |= r - writes - tgt
            r, _, _ = _exposed(st.orelse)
            reads |= r - writes
            continue
        if isinstance(st, ast.While):
            use(st.test)
            r, _, _ = _exposed(st.body)
            reads |= r - writes
            r, _, _ = _exposed(st.orelse)
            reads |= r - writes
            continue
        if isinstance(st, (ast.With, ast.AsyncWith)):
            for item in st.items:
                use(item.context_expr)
                if item.optional_vars is not None:
                    use(item.optional_vars)
                    writes |= _names(item.optional_vars, ast.Store)
            r, w, t = _exposed(st.body)
            reads |= r - writes
            if t:
                return reads, writes, True
            writes |= w
            continue
        if isinstance(st, ast.Try):
            for part in [st.body, st.orelse, st.finalbody] + [h.body for h in st.handlers]:
                r, _, _ = _exposed(part)
                reads |= r - writes
            continue
        if isinstance(st, ast.AugAssign):
            use(st.value)
            use(st.target)
            reads |= _names(st.target, ast.Store) - writes
            continue
        if isinstance(st, (ast.Assign, ast.AnnAssign)):
            use(st.value)
            for t_ in (st.targets if isinstance(st, ast.Assign) else [st.target]):
                use(t_)
                if isinstance(t_, (ast.Name, ast.Tuple, ast.List)):
                    writes |= _names(t_, ast.Store)
            continue
        use(st)
    return reads, writes, False


def _live_after(st, root):
    """Names of `root` that may still be read, without being written first, once statement `st` has completed."""
    live = set()
    covered = set()      # names certainly rewritten before any later read found so far does not apply across levels: keep simple
    node = st
    while node is not None and node is not root:
        parent = getattr(node, '_parent', None)
        if parent is None:
            break
        for field in ('body', 'orelse', 'finalbody'):
            lst = getattr(parent, field, None)
            if isinstance(lst, list) and node in lst:
                r, _, _ = _exposed(lst[lst.index(node) + 1:])
                live |= r
        if isinstance(parent, ast.match_case) and node in parent.body:
            r, _, _ = _exposed(parent.body[parent.body.index(node) + 1:])
            live |= r
        if isinstance(parent, ast.ExceptHandler) and node in parent.body:
            r, _, _ = _exposed(parent.body[parent.body.index(node) + 1:])
            live |= r
        if isinstance(parent, (ast.For, ast.AsyncFor, ast.While)) and node in parent.body:
            r, _, _ = _exposed(parent.body)
            live |= r
            if isinstance(parent, ast.While):
                live |= _names(parent.test, ast.Load)
        if isinstance(parent, ast.Try):
            for part in [parent.finalbody, parent.orelse] + [h.body for h in parent.handlers]:
                r, _, _ = _exposed(part)
                live |= r
        node = parent
    return live


def _tail_returns(stmts, on_return, need_value):
    """`stmts` with every `return` that is in tail position replaced by on_return(value); guard clauses
    (`if c: ...; return` followed by more statements) are turned into if/else first.  None when a `return` remains
    somewhere else (inside a loop, a try, ...)."""
    stmts = list(stmts)
    for i, st in enumerate(stmts[:-1]):
        if isinstance(st, ast.If) and not st.orelse and st.body and isinstance(st.body[-1], (ast.Return, ast.Raise)) and \
                any(isinstance(x, ast.Return) for x in ast.walk(st)):
            new_if = ast.If(test=st.test, body=st.body, orelse=stmts[i + 1:])
            ast.copy_location(new_if, st)
            stmts = stmts[:i] + [new_if]
            break
    for st in stmts[:-1]:
        if any(isinstance(x, ast.Return) for x in ast.walk(st)):
            return None
    if not stmts:
        return on_return(None) if need_value else []
    last = stmts[-1]
    head = stmts[:-1]
    if isinstance(last, ast.Return):
        return head + on_return(last.value)
    if isinstance(last, ast.Raise):
        return stmts
    if isinstance(last, ast.If):
        b = _tail_returns(last.body, on_return, need_value)
        o = _tail_returns(last.orelse, on_return, need_value)
        if b is None or o is None:
            return None
        new_if = ast.If(test=last.test, body=b or [ast.Pass()], orelse=o)
        ast.copy_location(new_if, last)
        return head + [new_if]
    if isinstance(last, (ast.With,)):
        b = _tail_returns(last.body, on_return, need_value)
        if b is None:
            return None
        new = ast.With(items=last.items, body=b or [ast.Pass()], type_comment=None)
        ast.copy_location(new, last)
        return head + [new]
    if isinstance(last, ast.Match):
        cases = []
        for c in last.cases:
            b = _tail_returns(c.body, on_return, need_value)
            if b is None:
                return None
            cases.append(ast.match_case(pattern=c.pattern, guard=c.guard, body=b or [ast.Pass()]))
        irrefutable = any(isinstance(c.pattern, ast.MatchAs) and c.pattern.pattern is None and c.guard is None for c in last.cases)
        if need_value and not irrefutable:
            cases.append(ast.match_case(pattern=ast.MatchAs(pattern=None, name=None), guard=None, body=on_return(None)))
        new = ast.Match(subject=last.subject, cases=cases)
        ast.copy_location(new, last)
        return head + [new]
    if any(isinstance(x, ast.Return) for x in ast.walk(last)):
        return None
    return stmts + (on_return(None) if need_value else [])


def inline_statement_calls(fn, funcs, method, module=None):
    """A call of a new helper (module-level function called by name, or method called as self.<name>) that forms a whole
    statement is replaced by the helper's body:

        return CALL            the helper's returns become the caller's (falling off the end returns None)
        CALL                   the helper's tail returns are dropped (their values, when not pure, are still evaluated)
        x = CALL, x op= CALL   the helper's tail returns become assignments to x

    where CALL is `f(..)` for a plain helper and `yield from f(..)` for a generator helper.  A parameter is replaced by its
    argument when the argument is a plain name / attribute chain / constant and the helper never rebinds the parameter;
    otherwise it is bound by an assignment in front of the body.  Helper locals that would overwrite a live name of the
    caller are renamed apart (liveness by a may-read-before-write walk)."""
    if not funcs or not isinstance(fn, (ast.FunctionDef, ast.AsyncFunctionDef)) or fn.name in funcs:
        return fn

    def callee(v):
        if isinstance(v, ast.YieldFrom):
            c, gen = v.value, True
        else:
            c, gen = v, False
        if not isinstance(c, ast.Call):
            return None
        if method:
            if not (isinstance(c.func, ast.Attribute) and isinstance(c.func.value, ast.Name) and c.func.value.id == 'self'):
                return None
            name = c.func.attr
        else:
            if not isinstance(c.func, ast.Name):
                return None
            name = c.func.id
        if name not in funcs or funcs[name][3] != gen:
            return None
        params, defaults, body, _ = funcs[name]
        if any(isinstance(a_, ast.Starred) for a_ in c.args) or any(k.arg is None for k in c.keywords) or len(c.args) > len(params):
            return None
        bound = dict(zip(params, c.args))
        for k in c.keywords:
            if k.arg in bound or k.arg not in params:
                return None
            bound[k.arg] = k.value
        for p_ in params:
            if p_ not in bound:
                if p_ not in defaults:
                    return None
                bound[p_] = defaults[p_]
        return name, [(p_, bound[p_]) for p_ in params]

    def site(st):
        if isinstance(st, ast.Return) and st.value is not None:
            return 'return', callee(st.value)
        if isinstance(st, ast.Expr):
            return 'expr', callee(st.value)
        if isinstance(st, ast.Assign) and len(st.targets) == 1 and (isinstance(st.targets[0], ast.Name) or (
                isinstance(st.targets[0], ast.Tuple) and all(isinstance(e, ast.Name) for e in st.targets[0].elts))):
            return 'assign', callee(st.value)
        if isinstance(st, ast.AugAssign) and isinstance(st.target, ast.Name):
            return 'aug', callee(st.value)
        return None, None

    def find(root, skip):
        for n in [root] + list(_own_nodes(root)):
            for field in ('body', 'orelse', 'finalbody'):
                lst = getattr(n, field, None)
                if not isinstance(lst, list):
                    continue
                for i, st in enumerate(lst):
                    kind, c = site(st)
                    if c is not None and id(st) not in skip:
                        return lst, i, st, kind, c
        return None
    if find(fn, ()) is None:
        return fn
    work = _relink(_strip(fn), getattr(fn, '_parent', None))
    ctor_names = ctor_valued_names(fn, module)
    skip = set()
    changed = False
    for _ in range(24):
        hit = find(work, skip)
        if hit is None:
            break
        lst, i, st, kind, (name, binding) = hit
        params, defaults, body, _ = funcs[name]
        stored = {x.id for b in body for x in ast.walk(b) if isinstance(x, ast.Name) and isinstance(x.ctx, ast.Store)} | \
            {x.name for b in body for x in ast.walk(b) if isinstance(x, (ast.MatchAs, ast.MatchStar)) and x.name}
        attr_stores = {src_(x) for b in body for x in ast.walk(b) if isinstance(x, ast.Attribute) and isinstance(x.ctx, ast.Store)}

        def stable(a_):
            if isinstance(a_, ast.Constant):
                return True
            if isinstance(a_, ast.Name):
                return True
            if isinstance(a_, ast.Attribute):
                return stable(a_.value) and src_(a_) not in attr_stores
            return False
        self_calls = any(isinstance(x, ast.Call) and isinstance(x.func, ast.Attribute) and isinstance(x.func.value, ast.Name)
                         and x.func.value.id == 'self' for b in body for x in ast.walk(b))

        def late(a_):
            # side-effect free, and nothing it reads can change while the helper runs: it may be evaluated where it is used
            if not is_pure(a_, pure_names=ctor_names):
                return False
            for x in ast.walk(a_):
                if isinstance(x, ast.Attribute) and isinstance(x.value, ast.Name) and x.value.id == 'self' and \
                        (self_calls or src_(x) in attr_stores):
                    return False
                if isinstance(x, ast.Subscript):
                    return False
            return True
        subst = {p_: a_ for p_, a_ in binding if p_ not in stored and (stable(a_) or late(a_))}
        bind = [(p_, a_) for p_, a_ in binding if p_ not in subst and not (isinstance(a_, ast.Name) and a_.id == p_)]
        live = _live_after(st, work)
        if kind == 'assign':
            # the statement itself overwrites its targets: they are not live across it
            live -= _names(st.targets[0], ast.Store)
        arg_reads = {x.id for _, a_ in binding for x in ast.walk(a_) if isinstance(x, ast.Name)}
        same = {p_ for p_, a_ in binding if isinstance(a_, ast.Name) and a_.id == p_}
        clash = {nm for nm in (stored | {p_ for p_, _ in bind}) - same if nm in live or nm in arg_reads}
        if kind == 'aug' and st.target.id in stored | {p_ for p_, _ in bind}:
            clash.add(st.target.id)
        ren = {nm: f'{nm}__{name}' for nm in clash}

        class _R(ast.NodeTransformer):
            def visit_Name(self, n):
                if n.id in ren:
                    return ast.copy_location(ast.Name(id=ren[n.id], ctx=n.ctx), n)
                if n.id in subst and isinstance(n.ctx, ast.Load):
                    return ast.copy_location(_strip(subst[n.id]), n)
                return n

            def visit_MatchAs(self, n):
                self.generic_visit(n)
                if n.name in ren:
                    n.name = ren[n.name]
                return n
        new = []
        for p_, a_ in bind:
            new.append(ast.Assign(targets=[ast.Name(id=ren.get(p_, p_), ctx=ast.Store())], value=_strip(a_), type_comment=None))
        copied = [_R().visit(_strip(b)) for b in body]
        if kind == 'return':
            if not isinstance(copied[-1], (ast.Return, ast.Raise)):
                copied.append(ast.Return(value=ast.Constant(value=None)))
        else:
            if kind == 'expr':
                def on_return(v):
                    return [] if v is None or is_pure(v) else [ast.Expr(value=v)]
            elif kind == 'assign':
                def on_return(v, _t=st.targets[0]):
                    if v is not None and ast.dump(_strip_ctx(v)) == ast.dump(_strip_ctx(_t)):
                        return []       # the helper's own names for the values are the caller's
                    return [ast.Assign(targets=[_strip(_t)], value=v if v is not None else ast.Constant(value=None), type_comment=None)]
            else:
                def on_return(v, _t=st.target, _op=st.op):
                    return [ast.AugAssign(target=_strip(_t), op=_op, value=v if v is not None else ast.Constant(value=None))]
            copied = _tail_returns(copied, on_return, kind != 'expr')
            if copied is None:
                skip.add(id(st))
                continue
        new += copied
        if not new:
            new = [ast.Pass()]
        for x in new:
            for y in ast.walk(x):
                y.lineno = getattr(st, 'lineno', 1)
                y.col_offset = getattr(st, 'col_offset', 0)
                y.end_lineno = getattr(st, 'end_lineno', y.lineno)
                y.end_col_offset = getattr(st, 'end_col_offset', 0)
        lst[i:i + 1] = new
        changed = True
        _relink(work, getattr(fn, '_parent', None))
    if not changed:
        return fn
    work._normalised = True
    return work


def src_(node):
    return ast.unparse(node)


def _strip_ctx(node):
    new = _strip(node)
    for x in ast.walk(new):
        if hasattr(x, 'ctx'):
            x.ctx = ast.Load()
        for a_ in ('lineno', 'col_offset', 'end_lineno', 'end_col_offset'):
            if hasattr(x, a_):
                delattr(x, a_)
    return new


def ctor_valued_names(fn, module):
    """Locals of fn bound only to a lookup in a module-level dict literal whose values are all classes (capitalised names /
    attributes): calling such a local constructs an object, nothing else."""
    tables = set()
    if module is not None:
        for st in module.body:
            if isinstance(st, ast.Assign) and len(st.targets) == 1 and isinstance(st.targets[0], ast.Name) and isinstance(st.value, ast.Dict):
                def cls_like(v):
                    if isinstance(v, ast.Tuple):
                        return all(cls_like(e) for e in v.elts)
                    return (isinstance(v, ast.Attribute) and v.attr[:1].isupper()) or (isinstance(v, ast.Name) and v.id[:1].isupper())
                if st.value.values and all(cls_like(v) for v in st.value.values):
                    tables.add(st.targets[0].id)
    defs = {}
    for x in _own_nodes(fn):
        tgt = val = None
        if isinstance(x, ast.NamedExpr):
            tgt, val = x.target, x.value
        elif isinstance(x, ast.Assign) and len(x.targets) == 1 and isinstance(x.targets[0], ast.Name):
            tgt, val = x.targets[0], x.value
        elif isinstance(x, ast.Name) and isinstance(x.ctx, ast.Store):
            defs.setdefault(x.id, []).append(None)
            continue
        if tgt is not None and isinstance(tgt, ast.Name):
            defs.setdefault(tgt.id, []).append(val)
    out = set()
    for nm, vals in defs.items():
        real = [v for v in vals if v is not None]
        # each binding statement is seen twice (once as the statement, once as the Store name)
        if not real or len(vals) != 2 * len(real):
            continue
        ok = True
        for v in real:
            if isinstance(v, ast.Call) and isinstance(v.func, ast.Attribute) and v.func.attr == 'get' and \
                    isinstance(v.func.value, ast.Name) and v.func.value.id in tables:
                continue
            if isinstance(v, ast.Subscript) and isinstance(v.value, ast.Name) and v.value.id in tables:
                continue
            if (isinstance(v, ast.Attribute) and v.attr[:1].isupper()) or (isinstance(v, ast.Name) and v.id[:1].isupper()):
                continue
            ok = False
        if ok:
            out.add(nm)
    return out


def undestructure_class_patterns(fn):
    """`case Cls(attr=name, other=Sub(x=y))` on a plain subject S becomes `case Cls() if isinstance(S.other, Sub)` with `name`
    spelled `S.attr` and `y` spelled `S.other.x` in the guard and the arm - the spelling the rules (and the code base
    before such a clean-up) use.  Only for arms that do not rebind the subject or the bound names."""
    if not isinstance(fn, (ast.FunctionDef, ast.AsyncFunctionDef)):
        return fn

    def plain(subject):
        return isinstance(subject, ast.Name) or (isinstance(subject, ast.Attribute) and plain(subject.value))

    def eligible(m):
        if not plain(m.subject):
            return False
        return any(isinstance(c.pattern, ast.MatchClass) and not c.pattern.patterns and c.pattern.kwd_patterns for c in m.cases)
    if not any(isinstance(n, ast.Match) and eligible(n) for n in _own_nodes(fn)):
        return fn
    work = _relink(_strip(fn), getattr(fn, '_parent', None))
    changed = False
    for m in [n for n in _own_nodes(work) if isinstance(n, ast.Match) and eligible(n)]:
        root = m.subject
        while isinstance(root, ast.Attribute):
            root = root.value
        for c in m.cases:
            p = c.pattern
            if not (isinstance(p, ast.MatchClass) and not p.patterns and p.kwd_patterns):
                continue
            binds, guards = {}, []

            def walk(pat, base):
                """False when the pattern has a part this rewrite does not cover."""
                for attr, sub in zip(pat.kwd_attrs, pat.kwd_patterns):
                    here = ast.Attribute(value=_strip(base), attr=attr, ctx=ast.Load())
                    if isinstance(sub, ast.MatchAs) and sub.pattern is None:
                        if sub.name is not None:
                            if sub.name in binds:
                                return False
                            binds[sub.name] = here
                    elif isinstance(sub, ast.MatchClass) and not sub.patterns:
                        guards.append(ast.Call(func=ast.Name(id='isinstance', ctx=ast.Load()), args=[here, _strip(sub.cls)], keywords=[]))
                        if not walk(sub, here):
                            return False
                    elif isinstance(sub, ast.MatchValue):
                        guards.append(ast.Compare(left=here, ops=[ast.Eq()], comparators=[_strip(sub.value)]))
                    elif isinstance(sub, ast.MatchSingleton):
                        guards.append(ast.Compare(left=here, ops=[ast.Is()], comparators=[ast.Constant(value=sub.value)]))
                    else:
                        return False
                return True
            if not walk(p, m.subject):
                continue
            stored = {x.id for st in c.body for x in ast.walk(st) if isinstance(x, ast.Name) and isinstance(x.ctx, ast.Store)} | \
                {x.name for st in c.body for x in ast.walk(st) if isinstance(x, (ast.MatchAs, ast.MatchStar)) and x.name}
            if root.id in stored or stored & set(binds):
                continue
            # attribute stores through the subject in the arm would change what the names stand for
            if any(isinstance(x, ast.Attribute) and isinstance(x.ctx, ast.Store) and src_(x).startswith(src_(m.subject) + '.')
                   for st in c.body for x in ast.walk(st)):
                continue

            class _S(ast.NodeTransformer):
                def visit_Name(self, n):
                    if n.id in binds and isinstance(n.ctx, ast.Load):
                        return ast.copy_location(_strip(binds[n.id]), n)
                    return n
            c.pattern = ast.MatchClass(cls=p.cls, patterns=[], kwd_attrs=[], kwd_patterns=[])
            g = [_S().visit(c.guard)] if c.guard is not None else []
            allg = guards + g
            c.guard = None if not allg else allg[0] if len(allg) == 1 else ast.BoolOp(op=ast.And(), values=allg)
            c.body = [_S().visit(st) for st in c.body]
            changed = True
    if not changed:
        return fn
    _relink(work, getattr(fn, '_parent', None))
    work._normalised = True
    return work
