"""C02 - try/undo, try/stop, preempt and ?? (template shapes + typestate of the runtime defeat word)."""
from __future__ import annotations

import ast

from .. import efg as _efg
from ..pyfacts import AnalysisError, src
from ..genfacts import GenFacts, GEN
from .. import forms as F
from .. import efg

OPERATORS = 'hidc/ast/operators.py'


def items_of(ev):
    return [i for i, e in enumerate(ev) if (e.kind == 'emit' and e.ctor != 'asm.Metadata') or e.kind in ('sub', 'splice')]


def is_emit(e, ctor, *args):
    if e.kind != 'emit' or e.ctor != ctor:
        return False
    at = [src(a) for a in e.args]
    for want, got in zip(args, at):
        if want is not None and want != got:
            return False
    return len(at) >= len(args)


def is_sub(e, func, *args, recv=None):
    if e.kind != 'sub' or e.func != func:
        return False
    if recv is not None and (e.recv is None or src(e.recv) != recv):
        return False
    at = [src(a) for a in e.args]
    for want, got in zip(args, at):
        if want is not None and want != got:
            return False
    return len(at) >= len(args)


def find(seq, ev, pred, start=0):
    for n in range(start, len(seq)):
        if pred(ev[seq[n]]):
            return n
    return None


def arm_paths(gf, fn, arm_prefix):
    out = []
    for p, ev in gf.inlined(fn):
        if p.outcome == 'raise':
            continue
        arms = [e.text for e in ev if e.kind == 'case' and not e.origin]
        arms = [a for a in arms if a.split(': ', 1)[0] == arms[0].split(': ', 1)[0]]
        if arms and arm_prefix in arms[-1]:
            out.append((p, ev))
    return out


def try_blocks_kept(repo, chk, rule):
    """A try block whose body calls a defeat function ANYWHERE (statement, initialiser, condition, argument, nested block)
    is still a try block with its handler after typechecking: the typechecker records DEFEAT only for statement-level
    defeat calls, so "the body cannot be defeated" is not something it can conclude from the exit modes.  Catalogue programs
    are parsed and typechecked by the checker's interpreter (hidverif.frontend)."""
    from ..frontend import Frontend, typecheck, walk_nodes
    fe = Frontend(repo)
    prelude = ('int !pick(int n) { if (n > 2) { !is_defeat(); } return n; }\n'
               'bool !small(int n) { if (n > 2) { !is_defeat(); } return true; }\n'
               'empty !deep(int n) { !pick(n); }\n')
    cat = []
    for handler in ('undo { write(1); }', 'stop { write(1); }'):
        for body in ('int v = !pick(1);', 'if (!small(1)) { write(2); }', 'write(!pick(2));', '!pick(3);', '!deep(3);',
                     'while (!small(1)) { break; }', 'if (true) { int w = !pick(1) + 1; }', 'int a[!pick(1)];',
                     'for (int i = !pick(0); i < 1; i += 1) { }', 'bool q = !small(1) and false;', 'int z = [!pick(1), 2].length;'):
            cat.append((f'try {{ {body} }} {handler}', 1))
    cat += [('try { } undo { write(1); }', 0), ('try { int v = 1; write(v); } stop { }', 0)]
    n = 0
    bad = []
    for stmt, need in cat:
        res = typecheck(fe, 'empty @is_you() { ' + stmt + ' write(9); }', prelude=prelude)
        n += 1
        if isinstance(res, tuple):
            bad.append((stmt, f'the catalogue program does not typecheck: {res[1]}: {res[2]}'))
            continue
        entry = [f for f in res.func_decls if getattr(f.name, 'base_name', '') == 'is_you']
        tries = [x for x in walk_nodes(entry[0].body) if type(x).__name__ == 'TryBlock'] if entry else []
        ok = len(tries) >= need and all(type(t.handler).__name__ in ('UndoBlock', 'StopBlock') for t in tries)
        if ok and need:
            calls = [x for t in tries for x in walk_nodes(t.body) if type(x).__name__ == 'FuncCall' and
                     getattr(getattr(x.func, 'flavor', None), 'name', '') == 'DEFEAT']
            ok = bool(calls)
        if not ok:
            bad.append((stmt, f'{len(tries)} try blocks left in the typed tree: a defeat in the body would find no handler'))
    for stmt, why in bad[:4]:
        chk.fail(rule, f'`{stmt}`', why, 'hidc/ast/blocks.py')
    if not bad:
        chk.ok(rule, 'try blocks survive typechecking', f'{n} programs')
    return n


def run(repo, chk):
    chk.explanation = (
        'The time-travel constructs are lowered by five fixed instruction templates.  This check decides the '
        'shape of each template on every emission path (order of handler installation, speculative jump, body, '
        'exits, handler prologue), and runs a typestate analysis of the runtime `defeat` word: at every edge '
        'leaving a try/stop template (normal completion, handler entry, return/break/continue) the word must '
        'again hold the enclosing context\'s defeat target.  The future-quantified biconditionals themselves '
        '("runs iff ... would reach defeat") follow from these shapes only under the Sphinx lemmas and are not '
        'decided here.')
    chk.assumptions = ['TJ / L1-L3 lemmas', 'context rules of C06 (try only in you context; defeat sites only in try/defeat functions)']
    chk.rule('C02.T1', 'undo shape: Jump(handler) . body . goto(end_try) . Label(handler) . handler body . Label(end_try)')
    chk.rule('C02.T2', 'stop protocol: saves of ap/fp and Mov(defeat, handler) precede Jump(begin_try); only Mov(defeat, halt) '
                       'between the jump and Label(begin_try); handler restores fp before reading the saved ap slot; '
                       'compile-time effective_defeat reset before the handler body')
    chk.rule('C02.T3', 'typestate: the runtime defeat word equals the enclosing defeat at every edge leaving the try/stop template')
    chk.rule('C02.T4', 'return / break / continue restore defeat under exactly `effective_defeat != target`, before their goto; '
                       'loops capture the defeat target in force at loop entry')
    chk.rule('C02.T5', 'preempt shape: Jump(do_preempt) . [Hne(effective_defeat, halt) iff effective_defeat != halt] . goto(end) . Label(do) . body . Label(end)')
    chk.rule('C02.T6', 'speculation: right operand first with keep=True, moved to r_out before the jump; left after; Heq(left,right) '
                       'before left.to(r_out); folded only when both sides are primitive')
    chk.rule('C02.T7', 'defeat functions use the variable defeat word; is_defeat/truth_is_defeat jump through effective_defeat')
    chk.rule('C02.T9', 'every Turing jump and every halt sits in a recognised averting form: in particular a jump through the '
                       'defeat word is emitted after its condition has been evaluated and directly in front of the halt it '
                       'guards, so entering the handler skips no committed-path effect (shared with C03.J1/J2)')
    chk.rule('C02.T10', 'execution continues after a handler: TryBlock.exit_modes merges the handler modes for all 32 body mode '
                        'sets (shared with C16.E1)')
    chk.rule('C02.T11', 'a try block with a defeat call anywhere in its body is still a try block with its handler after '
                        'typechecking (catalogue of nesting positions, typechecked by interpretation)')
    if chk.__class__.__name__ == 'Check':
        chk.floor('try-block programs', try_blocks_kept(repo, chk, 'C02.T11'), 20)
        # the return-boundary protection is armed by the `preemptive` flag of the function body: every step from the parser to the
        # typed tree keeps it (also the implicit return appended to a body that falls through) - shared with C05.F1
        from . import c05 as _c05
        from ..report import Remap as _Remap5
        _c05._preemptive(repo, _Remap5(chk, {'C05.F1': 'C02.T5'}), GenFacts(repo))
    gf = GenFacts(repo)
    # every Turing-jump decision (undo, preempt, ??) rests on branch targets re-checking the exact inverse condition
    chk.rule('C02.T8', 'the inverse-halt table is the exact logical involution and mnemonics are right (shared with C03.J3)')
    if chk.__class__.__name__ == 'Check':
        from . import c03
        from ..report import Remap
        c03.run(repo, Remap(chk, {'C03.J3': 'C02.T8', 'C03.J1': 'C02.T9', 'C03.J2': 'C02.T9'}))
        # what follows a try block is kept or discarded by the typechecker's exit-mode algebra: the handler's
        # completion modes must be merged for EVERY body (DEFEAT is only recorded for statement-level defeat
        # calls, so its absence does not make the handler dead) - the 32x32 tabulation of C16.E1 decides it
        from . import c16
        c16.run(repo, Remap(chk, {'C16.E1': 'C02.T10'}))
        # `a ?? b` hands its result over with accessor moves (value.to(r_out)): what get / set / to emit, interpreted for
        # every accessor class (shared with the rendering tabulation of C09.M1)
        from .c09 import rendering
        rendering(repo, Remap(chk, {'C09.M1': lambda c: 'C02.T6' if c.startswith('asm.') and any(
            c.endswith(x) or (x + ' ') in c for x in ('.to', '.get', '.set')) else None}), 'C09.M1')

    # ------------------------------------------------------------------ try arms
    tp = arm_paths(gf, 'gen_block', 'TryBlock')
    stop = [(p, ev) for p, ev in tp if any(e.kind == 'cond' and 'ast.StopBlock' in e.text and e.truth for e in ev)]
    undo = [(p, ev) for p, ev in tp if any(e.kind == 'cond' and 'ast.StopBlock' in e.text and not e.truth for e in ev)]
    chk.floor('try/stop paths', len(stop), 1)
    chk.floor('try/undo paths', len(undo), 1)
    for p, ev in undo:
        its = items_of(ev)
        seq = [ev[i] for i in its]
        want = [
            lambda e: is_emit(e, 'asm.Jump', 'handler'),
            lambda e: is_sub(e, 'self.gen_block', 'block.body'),
            lambda e: is_emit(e, 'asm.Jump', 'end_try'),
            lambda e: is_emit(e, 'asm.Halt'),
            lambda e: is_emit(e, 'asm.Label', 'handler'),
            lambda e: is_sub(e, 'self.gen_block', 'block.handler.body'),
            lambda e: is_emit(e, 'asm.Label', 'end_try'),
        ]
        ok = len(seq) == len(want) and all(w(e) for w, e in zip(want, seq))
        chk.expect(ok, 'C02.T1', 'gen_block[TryBlock/undo]',
                   f'emission sequence is {[e.short() for e in seq]}', GEN, seq[0].line if seq else 0)
        labs = {e.target: src(e.value) for e in ev if e.kind == 'assign' and e.target in ('handler', 'end_try', 'begin_try')}
        chk.expect(all('self.add_label(' in v for v in labs.values()) and len(set(labs.values())) == len(labs), 'C02.T1',
                   'gen_block[TryBlock]::labels', f'labels must be fresh and distinct: {labs}', GEN)

    for p, ev in stop:
        its = items_of(ev)
        seq = [ev[i] for i in its]

        def pos(pred, start=0):
            for n in range(start, len(seq)):
                if pred(seq[n]):
                    return n
            return None
        j = pos(lambda e: is_emit(e, 'asm.Jump', 'begin_try'))
        lb = pos(lambda e: is_emit(e, 'asm.Label', 'begin_try'))
        inst = pos(lambda e: is_emit(e, 'asm.Mov', 'self.defeat', 'handler'))
        save_ap = pos(lambda e: is_sub(e, '.set', 'asm.State(self.ap)', recv='ap_bubble.value'))
        save_fp = pos(lambda e: is_emit(e, 'asm.Mov', 'self.try_fp', 'asm.State(self.fp)'))
        body = pos(lambda e: is_sub(e, 'self.gen_block', 'block.body'))
        lh = pos(lambda e: is_emit(e, 'asm.Label', 'handler'))
        hbody = pos(lambda e: is_sub(e, 'self.gen_block', 'block.handler.body'))
        le = pos(lambda e: is_emit(e, 'asm.Label', 'end_try'))
        rfp = pos(lambda e: is_emit(e, 'asm.Mov', 'self.fp', 'asm.State(self.try_fp)'))
        rap = pos(lambda e: is_sub(e, '.to', 'self.ap', recv='ap_bubble.value'))
        need = dict(jump=j, begin=lb, install=inst, save_ap=save_ap, save_fp=save_fp, body=body, handler=lh,
                    handler_body=hbody, end=le, restore_fp=rfp, restore_ap=rap)
        missing = [k for k, v in need.items() if v is None]
        if missing:
            chk.fail('C02.T2', 'gen_block[TryBlock/stop]', f'template steps missing: {missing}', GEN)
            continue
        ok = inst < j and save_ap < j and save_fp < j
        chk.expect(ok, 'C02.T2', 'gen_block[TryBlock/stop]::install-before-jump',
                   'handler installation and the ap/fp saves must precede Jump(begin_try)', GEN, seq[j].line)
        between = seq[j + 1:lb]
        ok = len(between) == 1 and is_emit(between[0], 'asm.Mov', 'self.defeat', 'stdlib.halt')
        chk.expect(ok, 'C02.T2', 'gen_block[TryBlock/stop]::devirtualise',
                   f'exactly Mov(defeat, halt) must sit between Jump(begin_try) and Label(begin_try); found '
                   f'{[e.short() for e in between]}', GEN, seq[j].line)
        chk.expect(lb + 1 == body, 'C02.T2', 'gen_block[TryBlock/stop]::body-after-label', 'body must start at begin_try', GEN)
        g = seq[body + 1:lh]
        ok = len(g) >= 2 and is_emit(g[-2], 'asm.Jump', 'end_try') and is_emit(g[-1], 'asm.Halt')
        chk.expect(ok, 'C02.T2', 'gen_block[TryBlock/stop]::goto-end', 'body must be followed by goto(end_try) before Label(handler)', GEN)
        ok = lh < rfp < rap < hbody < le
        chk.expect(ok, 'C02.T2', 'gen_block[TryBlock/stop]::restore-order',
                   'the handler must restore fp from try_fp BEFORE it reloads ap from the fp-relative save slot, '
                   'and both before the handler body', GEN, seq[lh].line)
        # compile-time effective_defeat
        asg = [(i, e) for i, e in enumerate(ev) if e.kind == 'assign' and e.target == 'self.effective_defeat']
        prev = [e for e in ev if e.kind == 'assign' and e.target == 'prev_defeat']
        ok = len(asg) == 2 and src(asg[0][1].value) == 'asm.State(self.defeat)' and src(asg[1][1].value) == 'prev_defeat' \
            and prev and src(prev[0].value) == 'self.effective_defeat'
        if ok:
            body_idx = its[body]
            hbody_idx = its[hbody]
            ok = asg[0][0] < body_idx and body_idx < asg[1][0] < hbody_idx and ev.index(prev[0]) < asg[0][0]
        chk.expect(ok, 'C02.T2', 'gen_block[TryBlock/stop]::effective_defeat',
                   'effective_defeat must be State(defeat) while the body is generated and reset to the previous value '
                   'before the handler body is generated', GEN)
        vd = [e for e in ev if e.kind == 'assign' and e.target == 'self.needs_variable_defeat']
        chk.expect(bool(vd) and src(vd[0].value) == 'True', 'C02.T2', 'gen_block[TryBlock/stop]::needs_variable_defeat',
                   'the defeat word must be declared when a stop handler exists', GEN)
        # ---- T3 typestate ----
        def defeat_writes(lo, hi):
            return [e for e in seq[lo:hi] if e.kind == 'emit' and e.ctor == 'asm.Mov' and src(e.args[0]) == 'self.defeat']
        w_handler = defeat_writes(lh, hbody)
        ok_h = bool(w_handler) and src(w_handler[-1].args[1]) == 'prev_defeat'
        chk.expect(ok_h, 'C02.T3', 'gen_block[TryBlock/stop]::handler-entry',
                   'when the stop handler is entered the runtime defeat word still holds the handler address; it must be '
                   'reset to the enclosing defeat (Mov(defeat, prev_defeat)) before the handler body, otherwise a later '
                   'defeat (e.g. in a following try/undo calling a defeat function) re-enters this stale handler',
                   GEN, seq[lh].line)
        w_norm = defeat_writes(body + 1, lh)
        w_end = defeat_writes(le, len(seq))
        ok_n = (bool(w_norm) and src(w_norm[-1].args[1]) == 'prev_defeat') or \
               (bool(w_end) and src(w_end[0].args[1]) == 'prev_defeat')
        chk.expect(ok_n, 'C02.T3', 'gen_block[TryBlock/stop]::normal-completion',
                   'when the try body completes with defeat still virtual (a forced preempt ran) the defeat word keeps the '
                   'handler address after end_try; it must be reset to the enclosing defeat on this edge too',
                   GEN, seq[body].line)
        chk.sample({'stop_template': [e.short() for e in seq]})

    # who may write the defeat word / try_fp
    for fname, fn in gf.methods.items():
        for n in ast.walk(fn):
            if isinstance(n, ast.Call) and src(n.func).startswith('asm.') and src(n.func) != 'asm.State' and n.args \
                    and src(n.args[0]) in ('self.defeat', 'self.try_fp'):
                ok = fname in gf.owners(('gen_block', 'gen_stmts')) and src(n.func) == 'asm.Mov'
                chk.expect(ok, 'C02.T3', f'{fname}::{src(n)[:60]}', 'only Mov in the try/stop arm and the exit arms may write '
                           'the defeat word / try_fp', GEN, n.lineno)

    # ------------------------------------------------------------------ T4 exits
    for arm, target in (('ReturnStatement', 'self.func_defeat'), ('BreakStatement', 'info.loop_defeat'),
                        ('ContinueStatement', 'info.loop_defeat')):
        paths = [(p, ev) for p, ev in arm_paths(gf, 'gen_stmts', arm) if p.outcome == 'return']
        chk.floor(f'{arm} paths', len(paths), 2)
        bad = None
        for p, ev in paths:
            conds = _efg.Conds(ev)
            if arm != 'ReturnStatement':
                # the recorded defeat target of the innermost loop, however the record spells it
                target = None
                for i_, e_ in enumerate(ev):
                    if e_.kind == 'cond' and e_.text.endswith(' == self.effective_defeat') or e_.kind == 'cond' and e_.text.startswith('self.effective_defeat == '):
                        other = e_.text.replace(' == self.effective_defeat', '').replace('self.effective_defeat == ', '')
                        if gf.loop_read(other, ev, i_) == 'defeat':
                            target = other
                if target is None:
                    bad = 'no decision comparing effective_defeat with the defeat target recorded for the innermost loop'
                    break
            ctext = f'self.effective_defeat != {target}'
            if ctext not in conds:
                bad = f'no decision `{ctext}` on the path'
                break
            its = items_of(ev)
            seq = [ev[i] for i in its]
            movs = [n for n, e in enumerate(seq) if e.kind == 'emit' and e.ctor == 'asm.Mov' and src(e.args[0]) == 'self.defeat']
            if conds[ctext]:
                if len(movs) != 1 or src(seq[movs[0]].args[1]) != target:
                    bad = f'expected one Mov(defeat, {target}) when {ctext}'
                    break
                gotos = [n for n, e in enumerate(seq) if e.kind == 'emit' and e.ctor == 'asm.Jump'
                         and src(e.args[0]) != 'stdlib.nonlocal_preempt']
                if not gotos or movs[0] > gotos[-1]:
                    bad = 'Mov(defeat, ...) must precede the exit goto'
                    break
                evals = [n for n, e in enumerate(seq) if e.kind == 'sub' and e.func in ('self.get_expr_value', 'self.eval_expr', 'self.push_expr')]
                if evals and movs[0] < evals[-1]:
                    bad = ('the defeat word is restored BEFORE the return value is evaluated: a defeat function called in the '
                           'returned expression then runs with defeat already de-virtualised (its `j [defeat]; halt` really halts)')
                    break
            elif movs:
                bad = 'defeat written although effective_defeat already equals the target'
                break
        chk.expect(bad is None, 'C02.T4', f'gen_stmts[{arm}]', bad or '', GEN)
    # LoopInfo captured at loop entry with the defeat in force
    lp = arm_paths(gf, 'gen_block', 'LoopBlock')
    chk.floor('loop paths', len(lp), 1)
    for p, ev in lp:
        try:
            rec = gf.loop_record()
        except AnalysisError as e_:
            chk.fail('C02.T4', 'gen_block[LoopBlock]::LoopInfo', str(e_), GEN)
            break
        body = [i for i, e in enumerate(ev) if is_sub(e, 'self.gen_block', 'block.body')]
        if rec['push'] == 'attr':
            # the record is held in one attribute: set before the body, the enclosing loop's record put back after it
            sets = [i for i, e in enumerate(ev) if e.kind == 'assign' and e.target == rec['attr']]
            ok = len(sets) == 2 and len(body) == 1 and set(rec['roles']) == {'arrays', 'defeat', 'continue', 'break'} and \
                sets[0] < body[0] < sets[1] and isinstance(ev[sets[1]].value, ast.Name) and \
                any(e.kind == 'assign' and e.target == ev[sets[1]].value.id and src(e.value) == rec['attr'] for e in ev[:sets[0]])
            chk.expect(ok, 'C02.T4', 'gen_block[LoopBlock]::LoopInfo',
                       'the loop record must hold (stack, continue label, break label, self.effective_defeat) while the body is '
                       'generated and the enclosing loop\'s record must be put back after it', GEN)
            continue
        app = [(i, e) for i, e in enumerate(ev) if e.kind == 'call' and e.func == rec['push'] and e.recv is not None and src(e.recv) == 'self.loop_info']
        popc = [(i, e) for i, e in enumerate(ev) if e.kind == 'call' and e.func == rec['pop'] and e.recv is not None and src(e.recv) == 'self.loop_info']
        # all four roles recorded, pushed before the body, popped after it, and pushed / popped at the same end
        ok = len(app) == 1 and len(popc) == 1 and len(body) == 1 and set(rec['roles']) == {'arrays', 'defeat', 'continue', 'break'} \
            and (rec['push'], rec['pop']) in (('.append', '.pop'), ('.appendleft', '.popleft'))
        if ok:
            ok = app[0][0] < body[0] < popc[0][0] and not popc[0][1].args
        chk.expect(ok, 'C02.T4', 'gen_block[LoopBlock]::LoopInfo',
                   'LoopInfo must record (stack, continue label, break label, self.effective_defeat) before the body and be '
                   'popped after it: break/continue restore the defeat target that was in force at loop entry', GEN)
    # gen_func initialises func_defeat / effective_defeat
    for p, ev in gf.inlined('gen_func'):
        if p.outcome == 'raise':
            continue
        conds = _efg.Conds(ev)
        fd = [src(e.value) for e in ev if e.kind == 'assign' and e.target == 'self.func_defeat']
        ed = [src(e.value) for e in ev if e.kind == 'assign' and e.target == 'self.effective_defeat']
        is_def = conds.get('csig.name.flavor == ast.Flavor.DEFEAT')
        want = 'asm.State(self.defeat)' if is_def else 'stdlib.halt'
        ok = fd == [want] and ed == ['self.func_defeat']
        if is_def:
            vd = [src(e.value) for e in ev if e.kind == 'assign' and e.target == 'self.needs_variable_defeat']
            ok = ok and vd == ['True']
        chk.expect(ok, 'C02.T7', f'gen_func::func_defeat[{"defeat" if is_def else "ordinary"}]',
                   f'func_defeat={fd}, effective_defeat={ed}; a defeat function must use the variable defeat word, '
                   'other functions the designated halt', GEN)

    # ------------------------------------------------------------------ T5 preempt
    pp = arm_paths(gf, 'gen_block', 'PreemptBlock')
    chk.floor('preempt paths', len(pp), 2)
    for p, ev in pp:
        conds = _efg.Conds(ev)
        virt = conds.get(F.DEFEAT_COND)
        seq = [ev[i] for i in items_of(ev)]
        want = [lambda e: is_emit(e, 'asm.Jump', 'do_preempt')]
        if virt:
            want.append(lambda e: is_emit(e, 'asm.Hne', 'self.effective_defeat', 'stdlib.halt'))
        want += [lambda e: is_emit(e, 'asm.Jump', 'end_preempt'), lambda e: is_emit(e, 'asm.Halt'),
                 lambda e: is_emit(e, 'asm.Label', 'do_preempt'), lambda e: is_sub(e, 'self.gen_block', 'block.body'),
                 lambda e: is_emit(e, 'asm.Label', 'end_preempt')]
        ok = virt is not None and len(seq) == len(want) and all(w(e) for w, e in zip(want, seq))
        chk.expect(ok, 'C02.T5', f'gen_block[PreemptBlock][virtual={virt}]',
                   f'emission sequence is {[e.short() for e in seq]}', GEN, seq[0].line if seq else 0)

    # ------------------------------------------------------------------ T6 speculation
    sp = arm_paths(gf, 'eval_expr', 'Speculation')
    chk.floor('speculation paths', len(sp), 1)
    for p, ev in sp:
        seq = [ev[i] for i in items_of(ev)]

        def pos(pred, start=0):
            for n in range(start, len(seq)):
                if pred(seq[n]):
                    return n
            return None
        r = pos(lambda e: is_sub(e, 'self.eval_expr', 'r_out', 'expr.right') and src(e.kwargs.get('keep')) == 'True'
                and e.bound == 'right_bubble')
        mv = pos(lambda e: is_sub(e, '.to', 'r_out', recv='right_bubble.value'))
        j = pos(lambda e: is_emit(e, 'asm.Jump', 'end_speculation'))
        l = pos(lambda e: is_sub(e, 'self.get_expr_value', None, 'expr.left') and e.bound == 'left')
        rp = pos(lambda e: is_sub(e, 'self.pop_value', None, 'right_bubble') and e.bound == 'right')
        h = pos(lambda e: is_emit(e, 'asm.Heq', 'left', 'right') or is_emit(e, 'asm.Heq', 'right', 'left'))
        lt = pos(lambda e: is_sub(e, '.to', 'r_out', recv='left'))
        lab = pos(lambda e: is_emit(e, 'asm.Label', 'end_speculation'))
        vals = dict(right=r, move=mv, jump=j, left=l, pop_right=rp, heq=h, left_to=lt, label=lab)
        missing = [k for k, v in vals.items() if v is None]
        tail = seq[lab + 1:] if lab is not None else []
        tail_ok = not tail or (len(tail) == 1 and is_sub(tail[0], 'self.push_value', 'expr.type', 'result'))
        ok = not missing and r < mv < j < l < h < lt < lab and j < rp < h and tail_ok and r == 0
        chk.expect(ok, 'C02.T6', 'eval_expr[Speculation]',
                   f'speculation template out of shape (missing {missing}): {[e.short() for e in seq]}', GEN,
                   seq[0].line if seq else 0)
        if ok:
            regs = (src(seq[l].args[0]), src(seq[rp].args[0]))
            chk.expect(regs[0] != regs[1] and 'r_out' not in regs, 'C02.T6', 'eval_expr[Speculation]::registers',
                       f'left and right must be fetched into distinct scratch registers other than r_out: {regs}', GEN)
    # Speculation.simplify folds only when both operands are primitive; evaluate coerces right to left type
    sc = repo.find_class(OPERATORS, 'Speculation')
    simp = [n for n in sc.body if isinstance(n, ast.FunctionDef) and n.name == 'simplify']
    if not simp:
        chk.fail('C02.T6', 'Speculation.simplify', 'not found', OPERATORS)
    else:
        _spec_simplify(repo, chk)
    chk.not_decided = ['the biconditionals over futures of a run ("undo runs iff the try body would reach defeat")',
                       'observability of the unchosen block (follows from TJ, not decided)']


def _spec_simplify(repo, chk):
    """Tabulate Speculation.simplify over (primitive / non-primitive) x (primitive / non-primitive)."""
    from ..consteval import Interp
    it = Interp(repo)
    ns = it.load('hidc/ast/__init__.py')
    lex = it.load('hidc/lexer/__init__.py')
    span = lex['Span'](lex['Cursor'](0, 0), lex['Cursor'](0, 1))
    prim_l = ns['IntValue'](1, span)
    prim_r = ns['IntValue'](2, span)
    var = ns['VariableLookup'](ns['Variable']('x', ns['DataType'].INT, False), span)
    var2 = ns['VariableLookup'](ns['Variable']('y', ns['DataType'].INT, False), span)
    S = ns['Speculation']
    rows = []
    for ln, l in (('prim', prim_l), ('dyn', var)):
        for rn, r in (('prim', prim_r), ('dyn', var2)):
            out = S(span, l, r).simplify()
            folded = not isinstance(out, S)
            want = ln == 'prim' and rn == 'prim'
            rows.append((ln, rn, folded))
            chk.expect(folded == want and (not folded or out is l), 'C02.T6', f'Speculation.simplify({ln} ?? {rn})',
                       f'folded={folded}: `a ?? b` may be replaced by a only when BOTH operands are compile-time values '
                       '(b is always evaluated and may have effects)', OPERATORS)
