"""C12 - lexing is exact and independent of layout (regex languages, tables, reader order, span bookkeeping)."""
from __future__ import annotations

import ast

from ..pyfacts import AnalysisError, src
from ..consteval import Interp
from ..regexlang import Lang, difference, symbol_name
from .. import efg

READERS = 'hidc/lexer/readers.py'
SCANNER = 'hidc/lexer/scanner.py'
TOKENS = 'hidc/lexer/tokens.py'
LEXER = 'hidc/lexer/__init__.py'
ASM = 'hidc/codegen/asm.py'

# reference languages, written independently of the patterns in the source
REFERENCE = {
    'hex_literal': r'0x[\da-fA-F](?:_?[\da-fA-F])*',
    'oct_literal': r'0o[0-7](?:_?[0-7])*',
    'bin_literal': r'0b[01](?:_?[01])*',
    'dec_literal': r'\d(?:_?\d)*',
    'ident_pattern': r'(?:[a-z]|[A-Z]|_)(?:\w)*',
    'byte_escape': r'\\x[0-9a-fA-F\d][0-9a-fA-F\d]',
    'unicode_escape': r'\\u\{[\da-fA-F][\da-fA-F]*\}',
    'string_text': r'[^"\\][^"\\]*',
    'ignore': r'\s+|\s*//.*',
}
ESCAPES = {'a': '\a', 'b': '\b', 'f': '\f', 'n': '\n', 'r': '\r', 't': '\t', '0': '\0', "'": "'", '"': '"', '\\': '\\'}
BASES = {'hex_literal': '16', 'oct_literal': '8', 'bin_literal': '2', 'dec_literal': '10'}


def _ref_escape(text, i, esc_table):
    """Reference reader of one escape at text[i] == '\\': (bytes, next index) or 'error'."""
    hexd = '0123456789abcdefABCDEF'
    if text.startswith('\\x', i):
        h = text[i + 2:i + 4]
        if len(h) == 2 and all(c in hexd or c.isdigit() for c in h):
            try:
                return bytes([int(h, 16)]), i + 4
            except ValueError:
                return 'error'
        return 'error'
    if text.startswith('\\u', i):
        if text.startswith('\\u{', i):
            j = text.find('}', i + 3)
            digits = text[i + 3:j] if j > 0 else ''
            if j > 0 and digits and all(c in hexd or c.isdigit() for c in digits):
                try:
                    n = int(digits, 16)
                    return chr(n).encode('utf-8'), j + 1
                except (ValueError, OverflowError, UnicodeEncodeError):
                    return 'error'
        return 'error'
    if i + 1 >= len(text):
        return 'error'
    c = text[i + 1]
    if c not in esc_table:
        return 'error'
    try:
        return esc_table[c].encode('utf-8'), i + 2
    except UnicodeEncodeError:
        return 'error'


def _ref_string(text, esc_table):
    """Reference lexing of a string literal at the start of `text`: (bytes, end index), None (not a string) or 'error'."""
    if not text.startswith('"'):
        return None
    out = bytearray()
    i = 1
    while i < len(text):
        c = text[i]
        if c == '"':
            return bytes(out), i + 1
        if c == '\\':
            r = _ref_escape(text, i, esc_table)
            if r == 'error':
                return 'error'
            out += r[0]
            i = r[1]
            continue
        try:
            out += c.encode('utf-8')
        except UnicodeEncodeError:
            return 'error'
        i += 1
    return 'error'


def _ref_char(text, esc_table):
    if not text.startswith("'"):
        return None
    if len(text) < 2 or text[1] == "'":
        return 'error'
    if text[1] == '\\':
        r = _ref_escape(text, 1, esc_table)
        if r == 'error':
            return 'error'
        b, i = r
    else:
        try:
            b, i = text[1].encode('utf-8'), 2
        except UnicodeEncodeError:
            return 'error'
    if not text.startswith("'", i) or len(b) != 1:
        return 'error'
    return b[0], i + 1


def _literal_readers(repo, chk, it, rd):
    """read_string_token / read_char_token, interpreted on EVERY line of up to N characters over an alphabet that contains
    both quotes, the backslash, the escape letters and a non-ASCII letter, plus the long escape forms, against an
    independent reference reader: same token bytes and same end position, or an error in both."""
    import itertools
    sc = it.load(SCANNER)
    SC, Scanner = sc['SourceCode'], sc['Scanner']
    LexErr = rd['LexerError']
    alphabet = ['a', '"', "'", '\\', 'x', 'u', '{', '}', '4', 'n', '0', '\u00e9']
    depth = 4 if chk.tier == 'thorough' else 2
    bodies = [''.join(t) for n in range(0, depth + 1) for t in itertools.product(alphabet, repeat=n)]
    long_forms = ['\\x41', '\\xe9', '\\x00', '\\xfF', '\\x4', '\\x4g', '\\u{41}', '\\u{e9}', '\\u{0}', '\\u{d800}', '\\u{dfff}', '\\u{10ffff}',
                  '\\u{110000}', '\\u{}', '\\u{41', '\\u41', '\\0', '\\n\\r\\t', '\\a\\b\\f', '\\\\', '\\q', 'a\\x41b', 'é\\u{e9}é', '\u20ac', '\\u{20ac}']
    bodies += long_forms + [x + '"' for x in long_forms] + [x + "'" for x in long_forms] + ['tab\there', ' spaced out ', '//not a comment']
    for reader_name, quote, ref in (('read_string_token', '"', _ref_string), ('read_char_token', "'", _ref_char)):
        reader = rd.get(reader_name)
        if reader is None:
            raise AnalysisError(f'{reader_name} not found in readers.py')
        bad = None
        n = 0
        for body in bodies:
            for text in (quote + body, quote + body + quote + ' tail', body):
                want = ref(text, ESCAPES)
                scan = Scanner(SC('f', [text]))
                try:
                    tok_ = reader(scan)
                    got = None if tok_ is None else (tok_.data, scan.col)
                except LexErr:
                    got = 'error'
                except Exception as e:      # noqa: BLE001
                    got = f'{type(e).__name__}: {e}'
                n += 1
                if got != want and bad is None:
                    bad = f'{text!r}: reader gives {got!r}, the reference reading is {want!r}'
                if want is None and scan.col != 0 and bad is None:
                    bad = f'{text!r}: not a literal, but the cursor moved to {scan.col}'
        chk.expect(bad is None, 'C12.R2', reader_name, bad or f'{n} lines agree with the reference reader', READERS)
        chk.count(f'{reader_name}_lines', n)
        chk.floor(f'{reader_name} lines', n, 600)


def fixed_token_readers(repo, chk, rule='C12.R3'):
    """read_symbol_token and read_ident_or_keyword_token, interpreted under both iteration orders of every set the lexer
    package builds (Interp.set_order: each pair of fixed tokens is met in both relative orders, so a table or a trial
    order that depends on the hash seed shows up as a difference from the reference in one of the two runs).

    symbols: every concatenation of up to two symbol spellings (and symbol, blank, symbol; and every keyword) - the token
    returned is the enum member of the longest symbol that is a prefix of the text, None when there is none.
    words: every keyword, every keyword with one more letter and with its last letter removed - exactly the keywords
    come back as their enum member, everything else as a plain identifier of that spelling."""
    import re as _re
    ident_re = _re.compile(r'[a-zA-Z_]\w*')
    n_texts = 0
    for order in ('fwd', 'rev'):
        it = Interp(repo)
        it.step_limit = 10 ** 10      # (bounded by the size of the tabulations, not by a step budget)
        it.set_order = order
        rd = it.load(READERS)
        tok = it.load(TOKENS)
        sc = it.load(SCANNER)
        SC, Scanner = sc['SourceCode'], sc['Scanner']
        enum_tokens = list(tok['enum_tokens'])
        spell = {str(t_): t_ for t_ in enum_tokens if not ident_re.fullmatch(str(t_))}
        words = {str(t_): t_ for t_ in enum_tokens if ident_re.fullmatch(str(t_))}
        reader = rd.get('read_symbol_token')
        if reader is None:
            raise AnalysisError('read_symbol_token not found')
        some = sorted(spell)[:5]
        texts = set(spell) | {a_ + b_ for a_ in spell for b_ in spell} | {a_ + ' ' + b_ for a_ in spell for b_ in some} | \
            {'a', '1', ' +', ''} | set(words)
        bad = None
        for text in sorted(texts):
            cands = [sp for sp in spell if text.startswith(sp)]
            want = max(cands, key=len) if cands else None
            scan = Scanner(SC('f', [text]))
            try:
                got = reader(scan)
            except Exception as e:      # noqa: BLE001
                bad = bad or f'{text!r}: {type(e).__name__}: {e}'
                continue
            ok = (got is None and want is None and scan.col == 0) or (want is not None and got is spell[want] and scan.col == len(want))
            if not ok and bad is None:
                bad = f'{text!r}: read {got!r} up to column {scan.col}; the longest symbol at the start is {want!r}'
        n_texts += len(texts)
        chk.expect(bad is None, rule, f'read_symbol_token [set order {order}]', bad or f'{len(texts)} texts: longest symbol wins', READERS)
        wreader = rd.get('read_ident_or_keyword_token')
        if wreader is None:
            raise AnalysisError('read_ident_or_keyword_token not found')
        wtexts = set(words) | {w + 'x' for w in words} | {w[:-1] for w in words if len(w) > 1} | {w + '1' for w in words} | {'_', 'x'}
        bad = None
        for text in sorted(wtexts):
            scan = Scanner(SC('f', [text]))
            try:
                got = wreader(scan)
            except Exception as e:      # noqa: BLE001
                bad = bad or f'{text!r}: {type(e).__name__}: {e}'
                continue
            if text in words:
                ok = got is words[text]
            else:
                ok = type(got).__name__ == 'Ident' and got.base_name == text and getattr(got.flavor, 'name', None) == 'NONE'
            if not (ok and scan.col == len(text)) and bad is None:
                bad = f'{text!r}: read {got!r} up to column {scan.col}'
        n_texts += len(wtexts)
        chk.expect(bad is None, rule, f'read_ident_or_keyword_token [set order {order}]',
                   bad or f'{len(wtexts)} words: exactly the keywords are read as fixed tokens', READERS)
    return n_texts


def lexer_tabulation(repo, chk, symbol_spellings, order=None, small=False, rule='C12.R5'):
    import itertools
    import re as _re
    it = Interp(repo)
    it.step_limit = 10 ** 10      # (bounded by the size of the tabulations, not by a step budget)
    it.allow_generators = True
    it.set_order = order
    keywords = {sp for sp in symbol_spellings if sp[0].isalpha()}
    int_forms = [(_re.compile(REFERENCE['hex_literal']), 16), (_re.compile(REFERENCE['oct_literal']), 8),
                 (_re.compile(REFERENCE['bin_literal']), 2), (_re.compile(REFERENCE['dec_literal']), 10)]
    lexmod = it.load(LEXER)
    sc = it.load(SCANNER)
    SC = sc['SourceCode']
    lex = lexmod.get('lex')
    if lex is None:
        raise AnalysisError('lex not found in hidc/lexer/__init__.py')
    LexErr = it.load(READERS)['LexerError']
    syms = sorted((sp for sp in symbol_spellings if not sp[0].isalpha()), key=len, reverse=True)

    def reference(lines):
        """[(kind, text, (line, col), (line, endcol))] or 'error', and the end cursor."""
        out = []
        for li, text in enumerate(lines):
            i = 0
            while i < len(text):
                c = text[i]
                if c.isspace():
                    i += 1
                    continue
                if text.startswith('//', i):
                    break
                m = next((sp for sp in syms if text.startswith(sp, i)), None)
                if m is not None:
                    out.append(('sym', m, (li, i), (li, i + len(m))))
                    i += len(m)
                    continue
                k = i + 1 if c in '@!' else i
                if k < len(text) and (text[k].isascii() and text[k].isalpha() or text[k] == '_'):
                    j = k
                    while j < len(text) and (text[j].isalnum() or text[j] == '_'):
                        j += 1
                    if text[k:j] in keywords:
                        if k > i:
                            return 'error', None
                        out.append(('sym', text[k:j], (li, i), (li, j)))
                    else:
                        out.append(('ident', text[i:j], (li, i), (li, j)))
                    i = j
                    continue
                if k > i:
                    return 'error', None
                if c.isdigit():
                    hit = None
                    for pat, base in int_forms:
                        mm = pat.match(text, i)
                        if mm:
                            hit = (int(mm.group().replace('_', ''), base), mm.end())
                            break
                    if hit is None or hit[0] >= 2 ** 31 and False:
                        return 'error', None
                    out.append(('int', hit[0], (li, i), (li, hit[1])))
                    i = hit[1]
                    continue
                if c == '"':
                    r = _ref_string(text[i:], ESCAPES)
                    if r == 'error':
                        return 'error', None
                    out.append(('str', r[0], (li, i), (li, i + r[1])))
                    i += r[1]
                    continue
                if c == "'":
                    r = _ref_char(text[i:], ESCAPES)
                    if r == 'error':
                        return 'error', None
                    out.append(('char', r[0], (li, i), (li, i + r[1])))
                    i += r[1]
                    continue
                return 'error', None
        end = out[-1][3] if out else (0, 0)
        return out, end
    alphabet = ['a', '1', ' ', '+', '=', '/', '<']
    depth = 3 if small else 5 if chk.tier == 'thorough' else 4
    one = [''.join(t) for n in range(0, depth) for t in itertools.product(alphabet, repeat=n)]
    sources = [[l] for l in one] + [[x, y] for x in ('', 'a', 'a ', '//a', 'a//', '+ ', ' ') for y in ('', '1', ' 1', '//', '=a', ' ')] + \
              [['a', '', ' 1 ', '// c', '=='], [], ['a  +\t1'], ['a\x0b\x0c1\u2003+\xa0', '\u3000//'],
               ['@a !a != !=a !b==1', 'x'], ['@if'], ['@ a'], ['!'], ['@1'], ['if iff i else1 while(true)'],
               ['"a b" \'c\' "" 0x1F 0b1_0 0o7', '"\\n//" // "', "'\\''"], ['"abc'], ["''"], ['0x'], ['1_'], ['a.b(c)[1]{;},??'],
               ['x+=1;y<=2;z>=3;w*=4;v-=5;u/=6;t%=7;s==8;r!=9'], ['\u00e9'], ['#']]
    bad = None
    n = 0
    for lines in sources:
        want = reference(lines)
        it.steps = 0
        try:
            res = lex(SC('f', list(lines)))
            toks = list(res.items)
            got = []
            for lx in toks:
                t_ = lx.token
                tn = type(t_).__name__
                if tn == 'Ident' or tn == 'IdentToken':
                    kind, val = 'ident', str(getattr(t_.flavor, 'value', '')) + t_.base_name
                elif tn == 'IntToken':
                    kind, val = 'int', t_.data
                elif tn == 'StringToken':
                    kind, val = 'str', t_.data
                elif tn == 'CharToken':
                    kind, val = 'char', t_.data
                else:
                    kind, val = 'sym', str(getattr(t_, 'value', t_))
                got.append((kind, val, (lx.span.start.line, lx.span.start.col), (lx.span.end.line, lx.span.end.col)))
            endc = res.value
            got = (got, (endc.line, endc.col) if endc is not None else None)
        except LexErr:
            got = ('error', None)
        except Exception as e:      # noqa: BLE001
            got = (f'{type(e).__name__}: {e}', None)
        n += 1
        if got != want and bad is None:
            bad = f'{lines!r}: lexed as {got!r}, reference {want!r}'
    chk.expect(bad is None, rule, 'lex(): tokens, spans and end position' + (f' [set order {order}]' if order else ''),
               bad or f'{n} sources agree with the reference tokenisation', LEXER)
    return n


def _scanner_tabulation(repo, chk):
    """Scanner / Marker, interpreted exhaustively over small sources (all line lists with up to 3 lines of up to 3
    characters over {a, b}), every cursor position and every short operand, against the specification: the cursor
    advances by exactly what was consumed, and only on success."""
    import itertools
    import re as _re
    it = Interp(repo)
    it.step_limit = 10 ** 10      # (bounded by the size of the tabulations, not by a step budget)
    sc = it.load(SCANNER)
    SC, Scanner = sc['SourceCode'], sc['Scanner']
    alphabet = 'ab'
    lines_pool = [''] + [''.join(t) for n in (1, 2, 3) for t in itertools.product(alphabet, repeat=n)]
    # text is handed on exactly as written: decomposed / compatibility characters are not normalised on the way
    odd = ['a\u0301b', '\u212bb', 'b\u1100\u1161', '\ufb01a']
    sources = [[l] for l in lines_pool] + [[x, y] for x in ('', 'a', 'ab') for y in ('', 'b', 'ba')] + [['a', '', 'b'], []] + [[o] for o in odd]
    strings = [''.join(t) for n in (1, 2) for t in itertools.product(alphabet, repeat=n)] + ['a\u0301', '\u212b']
    pats = [(_re.compile('a+'), 0), (_re.compile('(a)(b)?'), 2), (_re.compile('b(a)'), 1), (_re.compile('x'), 0), (_re.compile('a*'), 0),
            (_re.compile('[^b]+'), 0), (_re.compile('([^b]+)'), 1)]
    bad = {}
    n = 0

    def note(k, msg):
        bad.setdefault(k, msg)
    try:
        for lines in sources:
            src_obj = SC('f', list(lines))
            nl = max(len(lines), 1)
            for li in range(nl):
                text = lines[li] if lines else ''
                for col in range(len(text) + 1):
                    for st in strings:
                        s_ = Scanner(src_obj, li, col)
                        r = s_.exact(st)
                        n += 1
                        hit = text[col:col + len(st)] == st
                        if bool(r) != hit or s_.col != col + (len(st) if hit else 0) or s_.line != li:
                            note('Scanner.exact', f'{lines} at {li}:{col} exact({st!r}) -> {r!r}, col {s_.col}')
                    for cnt in (1, 2, 3):
                        s_ = Scanner(src_obj, li, col)
                        r = s_.read(cnt)
                        n += 1
                        avail = col + cnt <= len(text)
                        if (r != text[col:col + cnt] if avail else r is not None) or s_.col != col + (cnt if avail else 0):
                            note('Scanner.read', f'{lines} at {li}:{col} read({cnt}) -> {r!r}, col {s_.col}')
                    for pat, ngroups in pats:
                        s_ = Scanner(src_obj, li, col)
                        r = s_.match(pat)
                        n += 1
                        mo = pat.match(text, col)
                        if mo is None:
                            ok = r is None and s_.col == col
                        else:
                            g = mo.groups('')
                            want = mo.group() if not g else (g[0] if len(g) == 1 else g)
                            ok = r == want and s_.col == mo.end()
                        if not ok:
                            note('Scanner.match', f'{lines} at {li}:{col} match({pat.pattern!r}) -> {r!r}, col {s_.col}')
                    s_ = Scanner(src_obj, li, col)
                    at_eol = col >= len(text)
                    more = not (at_eol and li >= len(lines) - 1)
                    n += 1
                    if bool(s_.eol) != at_eol or bool(s_) != more:
                        note('Scanner.eol / __bool__', f'{lines} at {li}:{col}: eol {s_.eol}, more {bool(s_)}')
                    mk = s_.mark()
                    moved = s_.linebreak()
                    if bool(moved) != (at_eol and more) or (s_.line, s_.col) != ((li + 1, 0) if at_eol and more else (li, col)):
                        note('Scanner.linebreak', f'{lines} at {li}:{col}: linebreak -> {moved}, now {s_.line}:{s_.col}')
                    sp = mk.advance()
                    if (sp.start.line, sp.start.col, sp.end.line, sp.end.col) != (li, col, s_.line, s_.col) or \
                            (mk.cursor.line, mk.cursor.col) != (s_.line, s_.col):
                        note('Marker.advance', f'{lines} at {li}:{col}: span {sp}, marker now {mk.cursor}')
                    s_.exact(text[col:col + 1] or 'a')
                    mk.restore()
                    if (s_.line, s_.col) != (mk.cursor.line, mk.cursor.col):
                        note('Marker.restore', f'{lines}: restore leaves the scanner at {s_.line}:{s_.col}, marker {mk.cursor}')
    except Exception as e:      # noqa: BLE001
        note('Scanner (interpretation)', f'{type(e).__name__}: {e}')
    for k in ('Scanner.exact', 'Scanner.match', 'Scanner.read', 'Scanner.linebreak', 'Scanner.eol / __bool__', 'Marker.advance',
              'Marker.restore', 'Scanner (interpretation)'):
        if k in bad or k != 'Scanner (interpretation)':
            chk.expect(k not in bad, 'C12.R5', k, bad.get(k, 'agrees with the specification on every enumerated source / position / operand'),
                       SCANNER)
    chk.count('scanner_evaluations', n)
    chk.floor('scanner evaluations', n, 1000)


def run(repo, chk):
    chk.explanation = (
        'The lexer is a set of regular expressions, tables and five small readers.  Each pattern is compared for '
        'LANGUAGE EQUIVALENCE with an independently written reference (automata over a symbolic alphabet, so an '
        'equivalent rewrite does not alarm and any change of accepted text does).  Tables (escapes, keyword / symbol '
        'partition, longest-match order) and the readers of fixed tokens are tabulated by interpreting the code of the '
        'tree (never importing it), under both iteration orders of every set.  Token boundaries, spans and the end '
        'position are decided by interpreting lex() on every source up to a stated length over a small alphabet plus a '
        'list of sources with every literal form, against a reference tokeniser written from the documentation '
        '(BOUNDED, not a proof: see not_decided).  Reader order, the pairing of each integer pattern with its base and '
        'the absence of position fields in tokens are structural rules; cursor arithmetic of the scanner is tabulated.')
    chk.assumptions = ['Python int(), chr() and str.encode compute the documented values',
                       'non-ASCII characters are abstracted to four classes (letter, digit, space, other)']
    chk.rule('C12.R1', 'each literal pattern is language-equivalent to its reference; integer patterns are paired with the right base')
    chk.rule('C12.R2', 'escape table equals the documented one; escape readers return non-empty bytes/str values')
    chk.rule('C12.R3', 'keyword / symbol partition of the enum tokens; symbols tried longest first; flavoured keywords rejected')
    chk.rule('C12.R4', 'reader order: symbols before identifiers; first-character sets of the other readers are disjoint')
    chk.rule('C12.R5', 'span bookkeeping: mark after whitespace, advance after the reader; scanner advances col by exactly the consumed length')
    chk.rule('C12.R6', 'tokens carry no position; spans reach the output only inside comments; source is split on newlines only')
    it = Interp(repo)
    it.step_limit = 10 ** 10      # (bounded by the size of the tabulations, not by a step budget)
    rd = it.load(READERS)

    # ---------------- R1 -------------------------------------------------------------
    langs = {}
    for name, ref in REFERENCE.items():
        pat = rd.get(name)
        if name == 'ignore' and not hasattr(pat, 'pattern'):
            # wherever the blank / comment pattern lives in the lexer package; its effect is also decided by lex() interpreted
            pat = next((ns_[name] for ns_ in (it.load(SCANNER), it.load(LEXER)) if hasattr(ns_.get(name), 'pattern')), None)
            if pat is None:
                continue
        if pat is None or not hasattr(pat, 'pattern'):
            chk.fail('C12.R1', f'pattern {name}', 'compiled pattern not found in readers.py', READERS)
            continue
        if pat.flags & ~32:     # re.UNICODE only
            chk.fail('C12.R1', f'pattern {name}', f'unexpected regex flags {pat.flags}', READERS)
            continue
        a, b = Lang(pat.pattern), Lang(ref)
        langs[name] = a
        d = difference(a, b)
        if d is None:
            chk.ok('C12.R1', f'pattern {name}', f'{pat.pattern!r} == reference {ref!r}')
        else:
            word, ina, inb = d
            chk.fail('C12.R1', f'pattern {name}', f'{pat.pattern!r} {"accepts" if ina else "rejects"} the text {word!r} '
                     f'but the documented language {"accepts" if inb else "rejects"} it', READERS)
    chk.count('patterns_compared', len(langs))
    chk.floor('patterns compared', len(langs), 8)
    # group counts: byte/unicode escapes capture exactly the digits
    for name in ('byte_escape', 'unicode_escape'):
        if name in langs:
            chk.expect(langs[name].groups == 1, 'C12.R1', f'pattern {name} groups', 'exactly one capture group (the hex digits)', READERS)
    for name in ('hex_literal', 'oct_literal', 'bin_literal', 'dec_literal', 'ident_pattern', 'string_text', 'ignore'):
        if name in langs:
            chk.expect(langs[name].groups == 0, 'C12.R1', f'pattern {name} groups', 'no capture group (whole match is used)', READERS)
    # integer reader: pattern <-> base pairing and order (prefixed forms before decimal)
    ri = repo.find_func(READERS, 'read_int_token')
    # on the paths of the reader: the pattern whose match is converted by each `return tokens.IntToken(int(<text>, <base>))`,
    # and the order in which the patterns are tried (the path on which every pattern fails)
    pairs = []
    tried = []
    for pth in efg.enumerate_paths(ri):
        matches = [e for e in pth.events if e.kind == 'call' and e.func == '.match' and e.recv is not None and src(e.recv) == 'scan' and e.args]
        seq = [src(e.args[0]) for e in matches]
        if len(seq) > len(tried):
            tried = seq
        rets = [e for e in pth.events if e.kind == 'return' and e.value is not None and not (isinstance(e.value, ast.Constant) and e.value.value is None)]
        if rets and matches:
            pairs.append((seq[-1], src(rets[-1].value), matches[-1].line))
    got = {}
    for pat, r, _ in pairs:
        got.setdefault(pat, r)
        if got[pat] != r:
            got[pat] = f'{got[pat]} / {r}'
    pairs = [(p_, None, 0) for p_ in tried]
    for pat, base in BASES.items():
        chk.expect(got.get(pat) == f'tokens.IntToken(int(lit, {base}))', 'C12.R1', f'read_int_token::{pat}',
                   f'{pat} must be converted with base {base}: {got.get(pat)}', READERS)
    order = [p for p, _, _ in pairs]
    chk.expect(order and order[-1] == 'dec_literal' and set(order) == set(BASES), 'C12.R1', 'read_int_token::order',
               f'prefixed literals must be tried before the decimal pattern (0x10 would otherwise lex as 0): {order}', READERS)
    # what the escape readers return (a non-empty bytes object for \\xHH - also for \\x00 -, chr(n) for \\u{n}, the table entry
    # otherwise) is decided by interpreting the string / char readers on every short line (_literal_readers) and by the code
    # point boundary tabulation below
    rc = repo.find_func(READERS, 'read_char_escape', required=False)

    # \u{...}: the reader touches the code point only through comparisons with constants and chr(); tabulating the
    # representatives around every such constant (and around the Unicode limits) therefore covers all code points
    consts = {0, 0x7F, 0x80, 0xD7FF, 0xD800, 0xDFFF, 0xE000, 0xFFFF, 0x10000, 0x10FFFF, 0x110000, 0x7FFFFFFF, 0xFFFFFFFFFF}
    for fn_ in ast.walk(repo.module(READERS)):          # every integer constant any reader compares with
        if isinstance(fn_, (ast.FunctionDef, ast.AsyncFunctionDef)):
            for n in ast.walk(fn_):
                if isinstance(n, ast.Constant) and isinstance(n.value, int) and not isinstance(n.value, bool) and n.value > 15:
                    consts |= {n.value - 1, n.value, n.value + 1}
    for n in ast.walk(repo.module(READERS)):
        if isinstance(n, ast.Assign) and isinstance(n.value, ast.Constant) and isinstance(n.value.value, int) and n.value.value > 255:
            consts |= {n.value.value - 1, n.value.value, n.value.value + 1}
    LexErr = rd.get('LexerError')
    rce = rd.get('read_char_escape')

    class _Scan:
        """stub scanner positioned at a \\u{...} escape"""
        cursor = None

        def __init__(self, hexdigits):
            self.h = hexdigits
            lexmod = it.load(LEXER)
            self.cursor = lexmod['Cursor'](0, 0)

        def match(self, pat):
            return self.h if getattr(pat, 'pattern', '').startswith('\\\\u') else None

        def exact(self, s):
            return False

        def read(self, n):
            return None
    bad = []
    for cp in sorted(c for c in consts if c >= 0):
        try:
            r = rce(_Scan(f'{cp:X}'))
            out = ('value', r)
        except LexErr:
            out = ('LexerError', None)
        except Exception as e:       # noqa
            out = (type(e).__name__, None)
        want = ('value', chr(cp)) if cp <= 0x10FFFF else ('LexerError', None)
        if out != want:
            bad.append((hex(cp), out[0]))
    chk.expect(not bad, 'C12.R2', 'read_char_escape::code point range',
               f'\\u{{...}} must denote chr(n) for every n <= 10FFFF and be a LexerError above: wrong at {bad[:4]}', READERS)

    # ---------------- R2 ---------------------------------------------------------------
    esc = rd.get('escape_codes')
    chk.expect(esc == ESCAPES, 'C12.R2', 'escape_codes', f'{esc!r} differs from the documented table', READERS)
    _literal_readers(repo, chk, it, rd)

    # ---------------- R3 ----------------------------------------------------------------
    tok = it.load(TOKENS)
    enum_tokens = tok.get('enum_tokens')
    if not enum_tokens:
        raise AnalysisError('enum_tokens not found')
    import re as _re
    ident_re = _re.compile(r'[a-zA-Z_]\w*')
    spell = [str(t_) for t_ in enum_tokens if not ident_re.fullmatch(str(t_))]
    all_spellings = [str(t_) for t_ in enum_tokens]
    chk.expect(len(set(all_spellings)) == len(all_spellings), 'C12.R3', 'fixed token spellings unique', '', TOKENS)
    # keyword / symbol partition and the trial order of the symbols: decided by interpreting the two readers of fixed
    # tokens, whatever tables they use
    chk.count('fixed_token_texts', fixed_token_readers(repo, chk))
    chk.count('enum_tokens', len(enum_tokens))
    chk.floor('enum tokens', len(enum_tokens), 40)
    # spellings of the enum tokens (documented)
    doc = {'OpToken': {'ADD': '+', 'SUB': '-', 'MUL': '*', 'DIV': '/', 'MOD': '%', 'EQ': '==', 'NE': '!=', 'LT': '<', 'GT': '>',
                       'LE': '<=', 'GE': '>=', 'OR': 'or', 'AND': 'and', 'NOT': 'not', 'IS': 'is', 'SPECULATION': '??'},
           'IncAssignToken': {'IADD': '+=', 'ISUB': '-=', 'IMUL': '*=', 'IDIV': '/=', 'IMOD': '%='},
           'StmtToken': {'ASSIGN': '=', 'BREAK': 'break', 'CONTINUE': 'continue', 'RETURN': 'return', 'CONST': 'const'},
           'SepToken': {'SEMICOLON': ';', 'COMMA': ',', 'DOT': '.'},
           'BracToken': {'LPAREN': '(', 'RPAREN': ')', 'LCURLY': '{', 'RCURLY': '}', 'LSQUARE': '[', 'RSQUARE': ']'},
           'BlockToken': {'IF': 'if', 'ELSE': 'else', 'WHILE': 'while', 'FOR': 'for', 'TRY': 'try', 'UNDO': 'undo', 'STOP': 'stop',
                          'PREEMPT': 'preempt'},
           'DataType': {'INT': 'int', 'BOOL': 'bool', 'BYTE': 'byte', 'STRING': 'string', 'EMPTY': 'empty'},
           'BoolToken': {'TRUE': 'true', 'FALSE': 'false'}}
    for cls, members in doc.items():
        got = {m.name: m.value for m in tok[cls]} if cls in tok else None
        chk.expect(got == members, 'C12.R3', f'{cls} spellings', f'{got}', TOKENS)
    # ... and nothing else: the spellings the lexer knows are exactly the documented ones (an extra symbol such as `++`
    # would swallow two adjacent operators by longest match)
    documented = {v for members in doc.values() for v in members.values()}
    known = {str(getattr(t_, 'value', t_)) for t_ in enum_tokens}
    chk.expect(known == documented, 'C12.R3', 'token spellings are exactly the documented set',
               f'undocumented: {sorted(known - documented)}; missing: {sorted(documented - known)}', TOKENS)
    chk.expect(tok['BoolToken'].TRUE.data is True and tok['BoolToken'].FALSE.data is False, 'C12.R3', 'BoolToken.data', '', TOKENS)
    IAT = tok['IncAssignToken']
    chk.expect(all(m.operator.value == m.value[:-1] for m in IAT), 'C12.R3', 'IncAssignToken.operator', 'op= maps to op', TOKENS)

    # ---------------- R4 -----------------------------------------------------------------
    lex = repo.find_func(LEXER, 'lex')
    # the sequence the readers are tried in: the loop `for reader in <sequence of readers.read_*>` in lex() or in a helper
    # of the lexer module that lex() calls (the sequence may be a local, a literal, or a module-level constant)
    readers, reader_fn = [], None
    for fname, fn in repo.functions(LEXER).items():
        for loop in [n for n in ast.walk(fn) if isinstance(n, ast.For)]:
            seq = loop.iter
            if isinstance(seq, ast.Name):
                defs = [n.value for n in ast.walk(fn) if isinstance(n, ast.Assign) and any(isinstance(t, ast.Name) and t.id == seq.id for t in n.targets)]
                seq = defs[0] if len(defs) == 1 else seq
            if isinstance(seq, (ast.List, ast.Tuple)) and seq.elts and all(src(e).startswith('readers.read_') for e in seq.elts):
                readers, reader_fn = [src(e) for e in seq.elts], fname
        if not readers:
            # the same sequence written out (or a literal loop unrolled by the normal form): direct calls in order
            direct = sorted((n for n in ast.walk(fn) if isinstance(n, ast.Call) and src(n.func).startswith('readers.read_')
                             and [src(a) for a in n.args] == ['scan']), key=lambda n: (n.lineno, n.col_offset))
            if len(direct) >= 2:
                readers, reader_fn = [src(n.func) for n in direct], fname
    reader_calls = {'reader'} | ({reader_fn} if reader_fn and reader_fn != 'lex' else set()) | set(readers)
    want = {'readers.read_symbol_token', 'readers.read_ident_or_keyword_token', 'readers.read_int_token',
            'readers.read_string_token', 'readers.read_char_token'}
    chk.expect(set(readers) == want and len(readers) == 5, 'C12.R4', 'lex::tok_readers', f'{readers}', LEXER)
    if set(readers) == want:
        chk.expect(readers.index('readers.read_symbol_token') < readers.index('readers.read_ident_or_keyword_token'), 'C12.R4',
                   'lex::symbol before identifier', '`!=` must be read as a symbol before `!` is taken as a defeat prefix', LEXER)
    first = {
        'int': (langs['dec_literal'].first_symbols() | langs['hex_literal'].first_symbols()) if 'dec_literal' in langs else set(),
        'ident': (langs['ident_pattern'].first_symbols() | {ord('@'), ord('!')}) if 'ident_pattern' in langs else set(),
        'string': {ord('"')}, 'char': {ord("'")},
        'symbol': {ord(s[0]) for s in spell},
    }
    names = list(first)
    for i, a in enumerate(names):
        for b in names[i + 1:]:
            inter = first[a] & first[b]
            if {a, b} == {'ident', 'symbol'}:
                chk.expect(inter == {ord('!')}, 'C12.R4', 'first characters ident/symbol',
                           f'only `!` may start both an identifier and a symbol: {[symbol_name(s) for s in inter]}', READERS)
            else:
                chk.expect(not inter, 'C12.R4', f'first characters {a}/{b}', f'overlap {[symbol_name(s) for s in inter]}: reader '
                           'order would matter', READERS)
    # whitespace / comment skipping, token boundaries, spans and the end position: lex() interpreted on every source of up to
    # two short lines over an alphabet with a letter, a digit, blanks, operators and the comment starter, against a
    # reference tokenisation (maximal munch over the documented symbol set)
    n_src = lexer_tabulation(repo, chk, all_spellings)
    chk.count('lexer_sources', n_src)
    chk.floor('lexer sources', n_src, 300)
    _scanner_tabulation(repo, chk)

    # ---------------- R6 -------------------------------------------------------------------
    for cls, fields in (('StringToken', ['data']), ('IntToken', ['data']), ('CharToken', ['data']), ('Ident', ['base_name', 'flavor'])):
        c = repo.find_class(TOKENS, cls)
        got = [n.target.id for n in c.body if isinstance(n, ast.AnnAssign)]
        chk.expect(got == fields, 'C12.R6', f'{cls} fields', f'{got}: tokens must not carry positions or layout', TOKENS)
    lx = repo.find_class(LEXER, 'Lexeme')
    got = [n.target.id for n in lx.body if isinstance(n, ast.AnnAssign)]
    chk.expect(got == ['token', 'span'], 'C12.R6', 'Lexeme fields', f'{got}', LEXER)
    # positions and free text reach the output only inside comment lines: asm.lines / Metadata.lines interpreted on
    # directive streams that differ only in a span, resp. only in metadata text (the functions are pure formatters)
    it2 = Interp(repo)
    it2.step_limit = 10 ** 10      # (bounded by the size of the tabulations, not by a step budget)
    it2.allow_generators = True
    asm_ns = it2.load(ASM)
    lex_ns = it2.load(LEXER)
    Cur, Spn = lex_ns['Cursor'], lex_ns['Span']

    def render(span, text):
        ds = [asm_ns['Label'](asm_ns['LabelRef']('f')), asm_ns['Metadata'](add_indent=1), asm_ns['Metadata'](text, span=span),
              asm_ns['Halt'](), asm_ns['Metadata'](span=span), asm_ns['Metadata'](add_indent=-1), asm_ns['Halt']()]
        return [bytes(b) for b in asm_ns['lines'](ds)]
    try:
        a = render(Spn(Cur(0, 0), Cur(0, 3)), 'note one\nsecond line')
        b = render(Spn(Cur(41, 7), Cur(43, 1)), 'note one\nsecond line')
        c = render(Spn(Cur(0, 0), Cur(0, 3)), 'halt\nj x')
        problem = None

        def code_lines(ls):
            return [l for l in ls if not l.lstrip(b' ').startswith(b';')]
        if not (code_lines(a) == code_lines(b) == code_lines(c) == [b'f:', b'    halt', b'halt']):
            problem = f'non-comment lines depend on span or metadata text: {code_lines(a)} / {code_lines(b)} / {code_lines(c)}'
        elif any(b'\n' in l or b'\r' in l for l in a + b + c):
            problem = 'a rendered line contains a line break'
        elif a == b:
            problem = None      # the span need not be shown at all
    except Exception as e:      # noqa: BLE001
        problem = f'{type(e).__name__}: {e}'
    chk.expect(problem is None, 'C12.R6', 'asm.lines / Metadata.lines: positions and comment text only in `;` lines',
               problem or '', ASM)
    sc_cls = repo.methods(SCANNER, 'SourceCode')
    t = src(sc_cls['from_string'])
    chk.expect("string.split('\\n')" in t and 'splitlines' not in t, 'C12.R6', 'SourceCode.from_string',
               'source text is split on \\n only (other Unicode line separators are ordinary characters)', SCANNER)
    t = src(sc_cls['from_file'])
    chk.expect("line.removesuffix('\\n') for line in file" in t and 'splitlines' not in t, 'C12.R6', 'SourceCode.from_file', '', SCANNER)
    # a character literal's value reaches the instruction operand unchanged (emission side, shared with C13.B0)
    if chk.__class__.__name__ == 'Check':
        chk.rule('C12.R7', 'character / string constants are emitted so that the assembler reads back the same bytes (shared with C13.B0)')
        from . import c13
        from ..report import Remap
        c13.run(repo, Remap(chk, {'C13.B0': 'C12.R7', 'C13.B3': lambda c: 'C12.R7' if c.startswith('make_global[int') else None}))
        # ... and an integer literal reaches the instruction stream with its value (modulo 2^(8w) when it does not fit): the
        # IntValue arm of eval_expr interpreted on boundary values at every word size (shared with C10.X4)
        from . import c10
        from ..genfacts import GenFacts as _GF
        c10._int_literal_arm(repo, Remap(chk, {'C10.X4': 'C12.R7'}), _GF(repo))
    chk.not_decided = ['that int()/chr()/str.encode compute the documented values (Python semantics trusted)',
                       'lex() on sources longer than the enumerated ones (whole-source behaviour is bounded: all sources of up to '
                       '3 characters - 4 in the thorough tier - over {a, 1, blank, +, =, /, <}, pairs of short lines, and '
                       'about 25 longer sources); the per-reader rules (patterns by language equivalence, literal readers on '
                       'all short lines) are what carries over to arbitrary sources']
