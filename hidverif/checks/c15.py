"""C15 - --unchecked changes nothing on fault-free runs (erasure equality of emission paths)."""
from __future__ import annotations

import ast

from ..pyfacts import AnalysisError, src, parent
from ..genfacts import GenFacts, GEN
from .. import forms as F

UNCHECKED = 'self.unchecked'
DERIVED = 'self.needs_return_protection'
IGNORED_CALLS = {'self.add_label', 'self.max_length'}


def polarity(e):
    """+1: this cond says the build is checked; -1: says unchecked (or protection off); 0: unrelated."""
    if e.kind != 'cond':
        return 0
    if e.text == UNCHECKED:
        return -1 if e.truth else 1
    if e.text == DERIVED:
        return 1 if e.truth else -1
    return 0


def token(e):
    if e.kind in ('emit', 'sub', 'splice', 'silent', 'return', 'raise', 'subreturn'):
        if e.kind == 'emit' and e.ctor == 'asm.Metadata':
            return None
        if e.kind in ('return', 'subreturn') and e.value is None:
            return None     # bare `return` of a generator: nothing observable
        return e.short()
    if e.kind == 'call':
        if e.func in IGNORED_CALLS:
            return None
        r = src(e.recv) if e.recv is not None else ''
        if e.func.startswith('self.') or r.startswith('self.'):
            if r == 'self.checkpoints' and e.func == '.add':
                return None
            return e.short()
        if e.func == '.map':
            return None
        return None
    if e.kind == 'assign' and e.target.startswith('self.'):
        return e.short()
    return None


def signature(events):
    """Non-unchecked decisions of a path: cases, iterations, condition assignments (ordered)."""
    cases, iters, conds = [], [], []
    for e in events:
        if e.kind == 'case':
            cases.append(e.text)
        elif e.kind == 'iter':
            iters.append(e.text)
        elif e.kind == 'cond' and polarity(e) == 0:
            conds.append((e.text, e.truth))
    return tuple(cases), tuple(iters), conds


def compatible(sa, sb):
    if sa[0] != sb[0] or sa[1] != sb[1]:
        return False
    # occurrence-indexed comparison of shared condition texts
    def index(cs):
        seen, out = {}, {}
        for t, v in cs:
            k = seen.get(t, 0)
            seen[t] = k + 1
            out[(t, k)] = v
        return out
    a, b = index(sa[2]), index(sb[2])
    return all(b[k] == v for k, v in a.items() if k in b)


def run(repo, chk):
    chk.explanation = (
        'Sufficient structural condition: for every generator function and every pair of emission paths that '
        'agree on all decisions other than `unchecked` (and the protection flag derived from it), the checked '
        'path, after deleting complete skip-guard instances `Jump(L) C* Hcc Jump(stub) Halt Label(L)` and the '
        'nonlocal-preempt head, must be identical to the unchecked path -- same instructions, same operands, '
        'same book-keeping calls.  Under lemma L2 a skip-guard that does not fire leaves nothing on the committed '
        'timeline, so the two builds then behave identically on fault-free runs.  Also: `unchecked` is read only '
        'in branch tests (information-flow census).')
    chk.assumptions = ['L2 skip-guard lemma (DESIGN.md 1.1)', 'terminal stubs are terminal (C03.J4)',
                       'label numbering differences are not observable']
    chk.rule('C15.U1', 'erasure equality: checked path minus skip-guards == unchecked path, for all compatible path pairs')
    chk.rule('C15.U2', 'every emission that exists only in checked builds is inside a skip-guard or is the nonlocal-preempt head')
    chk.rule('C15.U3', '`unchecked` (and needs_return_protection) are read only as branch conditions')
    gf = GenFacts(repo)
    n_pairs = 0
    n_funcs = 0
    guard_sites = set()
    for name in gf.gen_methods:
        variants = [(p, ev) for p, ev in gf.inlined(name) if p.outcome != 'raise']
        if not any(polarity(e) for _, ev in variants for e in ev):
            continue
        n_funcs += 1
        pre = []
        for p, ev in variants:
            pol = [polarity(e) for e in ev if polarity(e)]
            is_unchecked_side = all(x == -1 for x in pol)
            sig = signature(ev)
            pre.append((p, ev, pol, is_unchecked_side, sig))
        reported = set()
        for p, ev, pol, _, sig in pre:
            if not any(x == 1 for x in pol):
                continue      # not a checked-only path
            cl = F.Classifier(gf, name, ev)
            forms, _ = cl.run()
            erasable = {}
            for f in forms:
                if f.form == 'skip' and f.events_idx:
                    erasable[f.events_idx[0]] = (f.events_idx[1], f)
                elif f.form == 'spec' and f.stub == 'return-protection':
                    erasable[f.events_idx[0]] = (f.events_idx[0], f)
            ptoks = [(i, token(e)) for i, e in enumerate(ev)]
            for q, qev, qpol, q_unch, qsig in pre:
                if not q_unch or q is p or not compatible(sig, qsig):
                    continue
                n_pairs += 1
                qtoks = [t for t in (token(e) for e in qev) if t is not None]
                ok, where = align(ptoks, qtoks, erasable, guard_sites)
                arm = F.arm_of(ev, len(ev) - 1)
                key = f'{name}[{arm}]' if arm else name
                if not ok and (key, where) not in reported:
                    reported.add((key, where))
                    chk.fail('C15.U1', f'{key}::{where}',
                             'the checked and unchecked builds differ by more than skip-guards here: this emission / '
                             'book-keeping step exists in only one of them and is not inside a complete skip-guard',
                             GEN, p.events[0].line if p.events else 0)
        if not reported:
            chk.ok('C15.U1', name, 'all compatible path pairs are erasure-equal')
    chk.count('functions_reading_unchecked', n_funcs)
    chk.count('path_pairs_compared', n_pairs)
    chk.floor('functions whose paths depend on unchecked', n_funcs, 5)
    chk.floor('path pairs compared', n_pairs, 10)
    for s in sorted(guard_sites):
        chk.ok('C15.U2', s, 'checked-only emissions form a complete skip-guard / protection head')
    chk.floor('distinct guard sites erased', len(guard_sites), 5)

    # U3: information flow census
    n_reads = 0
    for rel in ('hidc/codegen/generator.py',):
        # the generator's methods in normal form (a new helper that only ever was a statement call is part of its callers
        # there), every other definition of the module as written
        roots = list(gf.methods.values()) + [t for t in repo.module(rel).body if not (isinstance(t, ast.ClassDef) and t.name == 'CodeGen')]
        for n in (x for root in roots for x in ast.walk(root)):
            if isinstance(n, ast.Attribute) and isinstance(n.value, ast.Name) and n.value.id == 'self' \
                    and n.attr in ('unchecked', 'needs_return_protection') and isinstance(n.ctx, ast.Load):
                n_reads += 1
                p = parent(n)
                child = n
                ok = False
                while p is not None:
                    if isinstance(p, (ast.BoolOp, ast.UnaryOp)):
                        child, p = p, parent(p)
                        continue
                    if isinstance(p, ast.If) and p.test is child:
                        ok = True
                    elif isinstance(p, ast.Assign) and n.attr == 'unchecked' and \
                            [src(t) for t in p.targets] == ['self.needs_return_protection']:
                        # derived flag must be a conjunction containing `not self.unchecked`
                        v = p.value
                        ok = isinstance(v, ast.BoolOp) and isinstance(v.op, ast.And) and \
                            any(src(x) == 'not self.unchecked' for x in v.values)
                    break
                fn = p
                while fn is not None and not isinstance(fn, ast.FunctionDef):
                    fn = parent(fn)
                # the decision must be taken where the instructions are emitted: a read inside a plain helper
                # (whose RESULT then steers other code, e.g. is_safe) lets the flag leak into non-check code
                if ok and fn is not None and fn.name not in gf.gen_methods and fn.name != 'gen_func':
                    ok = False
                chk.expect(ok, 'C15.U3', f'{fn.name if fn else "?"}::read of self.{n.attr}',
                           'the flag may only be used as an `if` condition (or to derive needs_return_protection)',
                           rel, n.lineno)
    chk.floor('reads of unchecked / needs_return_protection', n_reads, 6)
    # the constructor stores the option unchanged
    main = repo.find_func('hidc/__main__.py', 'main')
    cg = [c for c in ast.walk(main) if isinstance(c, ast.Call) and src(c.func) == 'CodeGen']
    chk.expect(len(cg) == 1 and src(cg[0].args[-1]) == 'args.unchecked', 'C15.U3', 'main::CodeGen(..., args.unchecked)',
               'the command-line flag must reach CodeGen.unchecked unchanged', 'hidc/__main__.py')
    # ... and it is used for nothing else by the command-line front end (what is written to the file does not depend on it)
    uses = [n for fn_ in repo.functions('hidc/__main__.py').values() for n in ast.walk(fn_)
            if isinstance(n, ast.Attribute) and n.attr == 'unchecked' and isinstance(n.ctx, ast.Load)]
    chk.expect(len(uses) == 1, 'C15.U3', 'main::uses of the flag', f'{len(uses)} reads of the option in hidc/__main__.py: it may only be '
               'handed to CodeGen', 'hidc/__main__.py')
    chk.not_decided = ['faulting runs (excluded by the property)', 'the VM semantics behind lemma L2']


def align(ptoks, qtoks, erasable, guard_sites):
    """Walk the checked path (with event indexes) against the unchecked token list."""
    qi = 0
    k = 0
    n = len(ptoks)
    while k < n:
        idx, tok = ptoks[k]
        if idx in erasable:
            end, f = erasable[idx]
            # peek: if the unchecked side has the very same token here, do not erase (guard exists in both)
            if not (qi < len(qtoks) and tok is not None and qtoks[qi] == tok and f.form != 'skip'):
                guard_sites.add(f.site)
                while k < n and ptoks[k][0] <= end:
                    k += 1
                continue
        if tok is None:
            k += 1
            continue
        if qi < len(qtoks) and qtoks[qi] == tok:
            qi += 1
            k += 1
            continue
        return False, tok
    if qi != len(qtoks):
        return False, qtoks[qi]
    return True, ''
