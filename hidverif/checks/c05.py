"""C05 - runtime faults are detected exactly, first, and terminally."""
from __future__ import annotations

import ast

from .. import efg as _efg
from ..pyfacts import AnalysisError, src
from ..genfacts import GenFacts, GEN, STDLIB
from ..asmtext import AsmText
from ..textforms import TextForms
from ..consteval import Interp
from .. import forms as F
from .. import efg

BLOCKS = 'hidc/ast/blocks.py'
GRAMMAR = 'hidc/parser/grammar.py'

# canonical comparison: (mnemonic class, left, right) meaning "the check PASSES (no fault) when cls(left, right)"
SWAP = {'Hltu': 'Hgtu', 'Hgtu': 'Hltu', 'Hleu': 'Hgeu', 'Hgeu': 'Hleu', 'Hlt': 'Hgt', 'Hgt': 'Hlt',
        'Hle': 'Hge', 'Hge': 'Hle', 'Heq': 'Heq', 'Hne': 'Hne'}
CANON_LEFT = {'Hgtu', 'Hgeu', 'Hgt', 'Hge'}   # rewrite these as their swapped form


def canon(cls, a, b):
    if cls in CANON_LEFT:
        return SWAP[cls], b, a
    return cls, a, b


def items_of(events):
    return [i for i, e in enumerate(events) if (e.kind == 'emit' and e.ctor != 'asm.Metadata') or e.kind in ('sub', 'splice')]


def run(repo, chk):
    chk.explanation = (
        'Every runtime guard the compiler emits is a skip-guard form (C03).  This check decides, on every '
        'emission path: which stub each guard targets, that its comparison (after normalising operand order) is '
        'the exact no-fault condition on the operands of the operation it protects, that it precedes that '
        'operation, and that every faulting operation (Div/Mod instruction, element load/store, ap advance) is '
        'preceded by its guard on every checked path.  Stub text in the library is checked (flag <kind>; flag '
        'error; sleep loop, no output).  The `preemptive` flag that arms the return-boundary guard is tabulated '
        'over every block constructor.')
    chk.assumptions = ['L2 skip-guard lemma', 'Sphinx hltu/hleu/hgeu are unsigned comparisons']
    chk.rule('C05.G1', 'guard -> stub table (div: division_by_zero, index: out_of_bounds, length/space/entry: stack_overflow)')
    chk.rule('C05.G2', 'canonical comparison of each guard is the exact no-fault condition')
    chk.rule('C05.G3', 'stub text: flag <own name>, then all_is_broken = flag error, then the sleep loop; no output')
    chk.rule('C05.G4', 'every faulting operation is preceded by its guard on every checked path (guard dominates op)')
    chk.rule('C05.G5', 'guard operands are the operands of the guarded operation (same values)')
    chk.rule('C05.F1', 'preemptive flag: every block constructor propagates a preempt in any child position; '
                       'return arm emits Jump(nonlocal_preempt) after reset_ap, immediately before goto(ra)')
    gf = GenFacts(repo)

    # ---------------- collect skip-guards -----------------------------------
    guards = {}
    for name in gf.gen_methods:
        for p, ev in gf.inlined(name):
            if p.outcome == 'raise':
                continue
            forms, _ = F.Classifier(gf, name, ev).run()
            for f in forms:
                if f.form == 'skip':
                    guards.setdefault(f.site, []).append((f, ev, name))
    chk.count('skip_guard_sites', len(guards))
    chk.floor('skip-guard sites', len(guards), 5)
    kinds = {}
    for site, lst in sorted(guards.items()):
        f, ev, name = lst[0]
        ck = f.cond_kind
        cls = ck[1] if ck[0] == 'cls' else str(ck)
        a, b = f.cond_args if len(f.cond_args) == 2 else ('?', '?')
        ccls, ca, cb = canon(cls, a, b)
        stub = f.stub.replace('stdlib.', '')
        kind = None
        if ccls == 'Hne' and 'asm.IntLiteral(0)' in (ca, cb):
            kind = 'div'
            want_stub = 'division_by_zero'
            ok_cmp = True
        elif ccls == 'Hltu':
            kind = 'index'
            want_stub = 'out_of_bounds'
            ok_cmp = True
        elif ccls == 'Hleu' and cb.startswith('asm.IntLiteral(self.max_length('):
            kind = 'length'
            want_stub = 'stack_overflow'
            ok_cmp = True
        elif ccls == 'Hleu' and ca in ('size',) or (ccls == 'Hleu' and 'checkpoints.add' in ca):
            # canonical of Hgeu(remaining, needed) is Hleu(needed, remaining)
            kind = 'space'
            want_stub = 'stack_overflow'
            # "remaining" must be the scratch register in which C* computed fp - ap (minus what is already reserved)
            regs = [src(c.args[0]) for c in f.cstar if c.ctor == 'asm.Sub']
            first = f.cstar[0] if f.cstar else None
            ok_cmp = bool(regs) and len(set(regs)) == 1 and cb == f'asm.State({regs[0]})' and first is not None and \
                [src(a) for a in first.args[1:]] == ['asm.State(self.fp)', 'asm.State(self.ap)']
            for c in f.cstar[1:]:
                ok_cmp = ok_cmp and src(c.args[1]) == f'asm.State({regs[0]})'
        else:
            want_stub = None
            ok_cmp = False
        kinds[site] = kind
        chk.expect(kind is not None and ok_cmp, 'C05.G2', site,
                   f'guard comparison {cls}({a}, {b}) is not one of the canonical no-fault conditions '
                   '(divisor != 0, index <u length, length <=u max_length, remaining >=u needed)', GEN, f.jump.line)
        if kind:
            chk.expect(stub == want_stub, 'C05.G1', site, f'{kind} guard targets {stub}, expected {want_stub}', GEN, f.jump.line)
    want_kinds = {'div': 1, 'index': 1, 'length': 1, 'space': 2}
    have = {}
    for k in kinds.values():
        have[k] = have.get(k, 0) + 1
    for k, n in want_kinds.items():
        chk.expect(have.get(k, 0) >= n, 'C05.G1', f'guard kind {k}', f'found {have.get(k, 0)} {k} guard sites, need >= {n}', GEN)

    # ---------------- G4/G5 division ---------------------------------------------
    n_div = n_unsep = 0
    for p, ev in gf.inlined('arith_op_reg_arg'):
        if p.outcome == 'raise':
            continue
        conds = _efg.Conds(ev)
        its = items_of(ev)
        op = [i for i in its if ev[i].kind == 'emit' and gf.ctor_kind(ev, i) == ('tbl', 'arith_map')]
        if not op:
            chk.fail('C05.G4', 'arith_op_reg_arg::path without operation', 'no arith_map instruction emitted', GEN)
            continue
        # which operators can take this path: every decision that depends on op_type alone is evaluated for each
        # operator class of arith_map (module-level names such as a set of division operators are resolved by
        # interpreting the module)
        feasible = _operators_on_path(gf, ev)
        div_ops = {k for k in feasible if k in ('ast.Div', 'ast.Mod')}
        if not feasible:
            continue            # no operator reaches this path
        if conds.get('self.unchecked') is True and div_ops != feasible:
            continue            # unchecked build: nothing has to separate the operators
        if div_ops and div_ops != feasible:
            chk.fail('C05.G4', 'arith_op_reg_arg::Div/Mod test', f'a path is shared by {sorted(div_ops)} and {sorted(feasible - div_ops)}: '
                     'no decision separates the faulting operators from the others', GEN)
            n_unsep += 1
            continue
        is_div = bool(div_ops)
        divmod = ['<operator class>']
        checked = conds.get('self.unchecked') is False
        forms, _ = F.Classifier(gf, 'arith_op_reg_arg', ev).run()
        sk = [f for f in forms if f.form == 'skip']
        if is_div and conds.get('self.unchecked') is not True:
            n_div += 1
            ok = len(sk) == 1 and sk[0].events_idx[1] < op[0]
            chk.expect(ok, 'C05.G4', 'arith_op_reg_arg::Div/Mod guard',
                       'on a checked path the Div/Mod instruction must be preceded by the division guard; '
                       f'extra conditions on this path: { {t: v for t, v in conds.items() if t not in (divmod[0], "self.unchecked")} }',
                       GEN, ev[op[0]].line)
            if ok:
                f = sk[0]
                opargs = [src(a) for a in ev[op[0]].args]
                cls, a, b = canon(f.cond_kind[1], *f.cond_args)
                divisor = a if b == 'asm.IntLiteral(0)' else b
                chk.expect(len(opargs) == 3 and divisor == opargs[2], 'C05.G5', 'arith_op_reg_arg::Div/Mod guard operand',
                           f'guard tests {divisor}, the instruction divides by {opargs[2] if len(opargs) == 3 else opargs}',
                           GEN, f.jump.line)
        elif not is_div:
            chk.expect(not sk, 'C05.G4', 'arith_op_reg_arg::non-division path', 'division guard on a non-division operator '
                       '(would raise the flag spuriously)', GEN)
    if not n_unsep:     # (otherwise the missing separation has been reported above)
        chk.floor('division paths analysed', n_div, 1)
    # who may emit Div/Mod: only through arith_map in arith_op_reg_arg
    for fname, fn in gf.methods.items():
        for n in ast.walk(fn):
            if isinstance(n, ast.Call) and src(n.func) in ('asm.Div', 'asm.Mod'):
                chk.fail('C05.G4', f'{fname}::{src(n)[:40]}', 'Div/Mod constructed outside arith_map / arith_op_reg_arg', GEN, n.lineno)
            if isinstance(n, ast.Name) and n.id == 'arith_map' and fname != 'arith_op_reg_arg':
                chk.fail('C05.G4', f'{fname}::arith_map use', 'arith_map consulted outside arith_op_reg_arg (unguarded Div/Mod possible)', GEN, n.lineno)
    chk.expect(gf.arith_map.get('ast.Div') == 'asm.Div' and gf.arith_map.get('ast.Mod') == 'asm.Mod', 'C05.G1', 'arith_map Div/Mod',
               f'{gf.arith_map}', GEN)

    # ---------------- G4/G5 index ----------------------------------------------------
    ELEMENT_CTORS = {'lbo', 'lwo', 'sbo', 'swo'}
    for fname in ('array_lookup', 'array_assignment'):
        n_acc = 0
        for p, ev in gf.inlined(fname):
            if p.outcome == 'raise':
                continue
            conds = _efg.Conds(ev)
            if conds.get('self.unchecked') is True:
                continue
            its = items_of(ev)
            forms, _ = F.Classifier(gf, fname, ev).run()
            sk = [f for f in forms if f.form == 'skip' and canon(f.cond_kind[1], *f.cond_args)[0] == 'Hltu']
            acc = []
            for i in its:
                e = ev[i]
                if e.kind != 'emit':
                    continue
                k = gf.ctor_kind(ev, i)
                if (k[0] == 'sect' and k[1] in ELEMENT_CTORS) or k == ('cls', 'Lbco'):
                    acc.append(i)
            if not acc:
                continue
            n_acc += 1
            arm = 'string' if any('DataType.STRING' in t and v for t, v in conds.items()) else \
                  'bool' if any('DataType.BOOL' in t and v for t, v in conds.items()) else \
                  'byte' if any('byte_sized' in t and v for t, v in conds.items()) else 'word'
            key = f'{fname}[{arm}]'
            ok = len(sk) == 1 and all(sk[0].events_idx[1] < a for a in acc)
            chk.expect(ok, 'C05.G4', key, f'{len(sk)} index guard(s) before {len(acc)} element access(es); every element '
                       'load/store must be preceded by exactly one index guard', GEN, ev[acc[0]].line)
            if not ok:
                continue
            f = sk[0]
            cls, idx, length = canon(f.cond_kind[1], *f.cond_args)
            # index operand comes from evaluating the index expression
            idx_def = efg.reaching_value(ev, f.events_idx[0], idx)
            idx_txt = src(idx_def) if idx_def is not None else ''
            ok_idx = 'idx_expr' in idx_txt or 'offset_bubble' in idx_txt
            if 'offset_bubble' in idx_txt:
                ob = efg.reaching_value(ev, f.events_idx[0], 'offset_bubble')
                ok_idx = ob is not None and 'idx_expr' in src(ob)
            chk.expect(ok_idx, 'C05.G5', key + '#index', f'guard index operand `{idx}` is defined by `{idx_txt[:70]}`, '
                       'not by evaluating the index expression', GEN, f.jump.line)
            # length operand: from the same array reference, or Lwc of the same string
            if arm == 'string':
                lw = [i for i in its if ev[i].kind == 'emit' and gf.ctor_kind(ev, i) == ('cls', 'Lwc') and i < f.events_idx[0]]
                okl = length == 'asm.State(self.r0)' and lw and src(ev[lw[-1]].args[0]) == 'self.r0'
                srcs = {src(ev[lw[-1]].args[1])} if lw else set()
                accsrc = {src(ev[a].args[1]) for a in acc}
                okl = okl and srcs == accsrc
                chk.expect(okl, 'C05.G5', key + '#length', f'string length must be loaded (Lwc) from the same string that is '
                           f'indexed: length source {srcs}, access base {accsrc}', GEN, f.jump.line)
            else:
                ldef = efg.reaching_value(ev, f.events_idx[0], length)
                ltxt = src(ldef) if ldef is not None else ''
                bubble = ltxt.split('.value.length')[0].replace('yield from ', '').strip('() ') if '.value.length' in ltxt else None
                origins = set()
                for a in acc:
                    base = src(ev[a].args[1]) if gf.ctor_kind(ev, a)[1] in ('lbo', 'lwo') else src(ev[a].args[0])
                    bdef = efg.reaching_value(ev, a, base)
                    origins.add(src(bdef) if bdef is not None else base)
                okl = bubble is not None and all(o.replace('yield from ', '').strip('() ').startswith(bubble + '.value.origin') for o in origins)
                chk.expect(okl, 'C05.G5', key + '#length', f'length operand defined by `{ltxt[:60]}`; element base defined by '
                           f'{sorted(origins)}: both must come from the same array reference', GEN, f.jump.line)
            # the index used by the access derives from the guarded value
            derived = {idx, 'asm.State(self.r1)', 'offset', 'asm.State(self.r2)'}
        chk.floor(f'{fname}: element-access paths', n_acc, 3)

    # ---------------- G4 array initialiser --------------------------------------------------
    n_ai = 0
    for p, ev in gf.inlined('eval_expr'):
        arm = F.arm_of(ev, len(ev) - 1)
        if not arm.startswith('ArrayInitializer') or p.outcome == 'raise':
            continue
        conds = _efg.Conds(ev)
        if conds.get('self.unchecked') is True:
            continue
        n_ai += 1
        its = items_of(ev)
        forms, _ = F.Classifier(gf, 'eval_expr', ev).run()
        sk = [f for f in forms if f.form == 'skip']
        adv = [i for i in its if ev[i].kind == 'emit' and gf.ctor_kind(ev, i) == ('cls', 'Add') and src(ev[i].args[0]) == 'self.ap']
        if len(adv) != 1:
            chk.fail('C05.G4', 'eval_expr[ArrayInitializer]::ap advance', f'{len(adv)} ap advances on a path', GEN)
            continue
        space = [f for f in sk if kinds.get(f.site) == 'space']
        length = [f for f in sk if kinds.get(f.site) == 'length']
        ok = len(space) == 1 and space[0].events_idx[1] < adv[0]
        chk.expect(ok, 'C05.G4', 'eval_expr[ArrayInitializer]::space guard',
                   'the remaining-space guard must precede the ap advance on every checked path', GEN, ev[adv[0]].line)
        if ok:
            cls, need, rem = canon(space[0].cond_kind[1], *space[0].cond_args)
            chk.expect(need == src(ev[adv[0]].args[2]), 'C05.G5', 'eval_expr[ArrayInitializer]::space operand',
                       f'guard compares against {need}, ap is advanced by {src(ev[adv[0]].args[2])}', GEN)
        byte_sized = conds.get('expr.type.el_type.byte_sized')
        if byte_sized is False:
            okl = len(length) == 1 and length[0].events_idx[1] < adv[0] and \
                (not space or length[0].events_idx[1] < space[0].events_idx[0])
            chk.expect(okl, 'C05.G4', 'eval_expr[ArrayInitializer]::length guard',
                       'the length sanity guard must precede size computation and the space guard', GEN)
            if okl:
                cls, ln, mx = canon(length[0].cond_kind[1], *length[0].cond_args)
                mx = _efg.expand(ev, length[0].events_idx[1], mx, keep=('length',))
                chk.expect(ln == 'length' and 'expr.type.el_type' in mx, 'C05.G5', 'eval_expr[ArrayInitializer]::length operand',
                           f'length guard compares {ln} with {mx}', GEN)
    chk.floor('array-initializer checked paths', n_ai, 2)
    # A5: the length guard may be skipped only for element classes whose size function is the identity
    _length_guard_classification(repo, chk, gf)

    # ---------------- entry guard ------------------------------------------------------------
    for p, ev in gf.inlined('gen_func'):
        conds = _efg.Conds(ev)
        if conds.get('self.unchecked') is not False or p.outcome == 'raise':
            continue
        its = items_of(ev)
        forms, _ = F.Classifier(gf, 'gen_func', ev).run()
        sk = [f for f in forms if f.form == 'skip']
        body = [i for i in its if ev[i].kind == 'sub' and ev[i].func == 'self.gen_block']
        ok = len(sk) == 1 and body and sk[0].events_idx[1] < body[0] and kinds.get(sk[0].site) == 'space'
        chk.expect(ok, 'C05.G4', 'gen_func::entry guard', 'the frame-space guard must precede the function body', GEN)
        if ok:
            cls, need, rem = canon(sk[0].cond_kind[1], *sk[0].cond_args)
            chk.expect('self.checkpoints.add(self.stack.static_size)' in need, 'C05.G5', 'gen_func::entry guard operand',
                       f'entry guard compares remaining space with {need}', GEN)
        break

    # ---------------- G3 stub text ---------------------------------------------------------------
    at = AsmText(repo)
    for stub in ('stack_overflow', 'division_by_zero', 'out_of_bounds', 'nonlocal_preempt'):
        if stub not in at.labels:
            chk.fail('C05.G3', f'stdlib:{stub}', 'stub missing', STDLIB)
            continue
        i = at.labels[stub]
        seq = [str(x) for x in at.ins[i:i + 3]]
        chk.expect(seq == [f'flag {stub}', 'j all_is_broken', 'halt'], 'C05.G3', f'stdlib:{stub}',
                   f'stub body is {seq}; expected flag {stub}; j all_is_broken; halt', STDLIB, at.base_line + at.ins[i].lineno)
    if 'all_is_broken' in at.labels:
        i = at.labels['all_is_broken']
        seq = [str(x) for x in at.ins[i:i + 3]]
        chk.expect(seq == ['flag error', 'j tnt', 'halt'], 'C05.G3', 'stdlib:all_is_broken', f'{seq}', STDLIB)
    if 'tnt' in at.labels:
        i = at.labels['tnt']
        chk.expect(at.ins[i].op == 'sleep' and str(at.ins[i + 1]) == 'j tnt', 'C05.G3', 'stdlib:tnt', 'sleep loop', STDLIB)
    tf = TextForms(at)
    for stub in ('stack_overflow', 'division_by_zero', 'out_of_bounds', 'nonlocal_preempt', 'all_is_broken'):
        r = tf.reachable(stub)
        if r:
            ops = {at.ins[i].op for i in r[0]}
            chk.expect('yield' not in ops, 'C05.G3', f'stdlib:{stub}#no-output', 'no output may follow a fault', STDLIB)

    _typechecker_keeps_checks(repo, chk)
    if chk.__class__.__name__ == 'Check':
        from .. import typecensus
        typecensus.decide(repo, chk, 'C05.G6', {'faults kept'}, 'hidc/ast/operators.py')
    # a divisor narrowed before the division turns `b /= 256` into a division by zero (spurious fault): shared with C09.M6
    chk.rule('C05.G7', 'no spurious division fault from compound assignment: the divisor of `x /= e`, `x %= e` is e, not e narrowed to the '
                       'type of x (shared with C09.M6)')
    if chk.__class__.__name__ == 'Check':
        from . import c09
        from ..report import Remap
        c09._compound_width(repo, Remap(chk, {'C09.M6': 'C05.G7'}))
        # the index / length that is checked is the value the expression denotes: an `is byte` cast hands on the low byte,
        # also to the consumers that take the fast value (otherwise a valid index raises out_of_bounds) - shared with C09.M4
        # ... and it is compared the way the guard's mnemonic says: the conditional halts the guards are built from render as
        # themselves (an unsigned guard rendered as its signed sibling lets negative indices through) - shared with C09.M1
        c09.run(repo, Remap(chk, {'C09.M4': lambda c: 'C05.G5' if c.startswith('eval_expr[IntToByte]') else None,
                                  'C09.M1': lambda c: 'C05.G5' if c.startswith(('asm.H', 'halt_inversion')) else None}))
    # ---------------- F1 preemptive flag -------------------------------------------------------------
    _preemptive(repo, chk, gf)
    # guard operands must still hold the values they were loaded with when the guard executes
    if chk.__class__.__name__ == 'Check':
        from . import c01
        from ..report import Remap
        c01.run(repo, Remap(chk, {'C01.R1': 'C05.G5'}))
    chk.not_decided = ['that the VM raises flags in program order (Sphinx semantics)']


def _operators_on_path(gf, ev):
    """Keys of arith_map (as 'ast.X' texts) for which every decision on this path that depends only on `op_type`
    evaluates to the recorded truth."""
    from ..consteval import Env
    ns = gf.module_ns()
    it = gf.repo.__dict__['_gen_ns']['it']
    astv = ns.get('ast')
    out = set()
    for key in gf.arith_map:
        cls = getattr(astv, key.split('.', 1)[1], None)
        if cls is None:
            raise AnalysisError(f'arith_map key {key} is not a class of hidc.ast')
        ok = True
        for idx, e in enumerate(ev):
            if e.kind != 'cond' or e.node is None:
                continue
            try:
                node = ast.parse(_efg.expand(ev, idx, e.node, keep=('op_type',)), mode='eval').body
            except SyntaxError:
                continue
            names = {n.id for n in ast.walk(node) if isinstance(n, ast.Name)}
            if 'op_type' not in names or 'self' in names or any(isinstance(n, (ast.Yield, ast.YieldFrom, ast.NamedExpr)) for n in ast.walk(node)):
                continue
            if not names - {'op_type'} <= set(ns) | set(dir(__import__('builtins'))):
                continue
            try:
                v = bool(it.eval(node, Env(ns, {'op_type': cls})))
            except Exception:      # noqa: BLE001
                continue
            if v != e.truth:
                ok = False
                break
        if ok:
            out.add(key)
    return out


def _typechecker_keeps_checks(repo, chk):
    """G6: an index operation with compile-time operands is either kept for the run-time bounds check or folded
    to exactly the element it denotes - never folded for an index outside 0..length-1 (Python's negative indices
    count from the end; the language's do not exist)."""
    chk.rule('C05.G6', 'the typechecker never removes a bounds check: ArrayLookup.evaluate with constant source and constant index '
                       'keeps the lookup (with that index), or folds only for 0 <= i < length to the denoted element')
    EXPR = 'hidc/ast/expressions.py'
    it = Interp(repo)
    ns = it.load('hidc/ast/__init__.py')
    lex = it.load('hidc/lexer/__init__.py')
    cur = lex['Cursor'](0, 0)
    span = lex['Span'](cur, lex['Cursor'](0, 1))
    AL, IV, SV, ByV = ns['ArrayLookup'], ns['IntValue'], ns['StringValue'], ns['ByteValue']
    ALit = ns['ArrayLiteral']
    sources = [('string', SV(b'hello', span), [104, 101, 108, 108, 111]),
               ('empty string', SV(b'', span), []),
               ('byte literal', ALit((ByV(7, span), ByV(8, span), ByV(9, span)), span), [7, 8, 9]),
               ('int literal', ALit((IV(300, span, False), IV(-2, span, False)), span), [300, -2])]
    n = 0
    for label, source, elems in sources:
        bad = None
        for i in list(range(-len(elems) - 2, len(elems) + 3)) + [255, 256, -256, 65535, 65536, -65536, 2 ** 31, -2 ** 31, 2 ** 32 - 1]:
            try:
                r = AL(source, IV(i, span), cur).evaluate(None)
            except ns['TypeCheckError']:
                # rejecting a constant index at compile time is allowed only where the run-time access would fault
                if 0 <= i < len(elems):
                    bad = bad or f'index {i} is in range but rejected at compile time'
                n += 1
                continue
            n += 1
            if isinstance(r, AL):
                idx = getattr(r.index, 'data', None)
                if idx != i:
                    bad = bad or f'index {i}: the kept lookup carries index {idx!r}'
            elif isinstance(r, ns['PrimitiveValue']):
                if not (0 <= i < len(elems)) or r.data != elems[i]:
                    bad = bad or (f'constant index {i} into a {label} of length {len(elems)} is folded to {r.data!r}: the out_of_bounds '
                           'check for it disappears') if not (0 <= i < len(elems)) else f'index {i} folds to {r.data!r}, expected {elems[i]}'
            else:
                bad = bad or f'index {i}: evaluate() returned {type(r).__name__}'
        chk.expect(bad is None, 'C05.G6', f'ArrayLookup.evaluate[{label}]', bad or '', EXPR)
    chk.floor('constant index trials', n, 60)


def _length_guard_classification(repo, chk, gf):
    """The length sanity guard is skipped for element classes X; for each such class the size function must be
    the identity on the length (otherwise a negative length can round to a small size).

    Decided on the emission paths, however the decision is spelled (inline `if`, a helper, a named flag): for each
    element type, the paths of the ArrayInitializer arm that are feasible for that type in a checked build (every
    decision on the path that can be evaluated for that type agrees with it) either all carry the length guard or
    none does."""
    it = Interp(repo)
    tok = it.load('hidc/lexer/tokens.py')
    DT = tok['DataType']
    from ..consteval import Env, _ModuleView
    astns = it.load('hidc/ast/__init__.py')

    class _S:
        pass
    paths = []
    for p, ev in gf.inlined('eval_expr'):
        if not F.arm_of(ev, len(ev) - 1).startswith('ArrayInitializer') or p.outcome == 'raise':
            continue
        forms, _ = F.Classifier(gf, 'eval_expr', ev).run()
        has_guard = False
        for f in forms:
            if f.form == 'skip' and f.cond_kind and f.cond_kind[0] == 'cls':
                cls, a, b = canon(f.cond_kind[1], *(f.cond_args if len(f.cond_args) == 2 else ('?', '?')))
                if cls == 'Hleu' and b.startswith('asm.IntLiteral(self.max_length('):
                    has_guard = True
        paths.append((ev, has_guard))
    if not paths:
        chk.fail('C05.G4', 'eval_expr[ArrayInitializer]::length guard condition', 'no emission path of the array-initializer arm found', GEN)
        return
    for dt in (DT.INT, DT.BOOL, DT.BYTE, DT.STRING):
        s = _S()
        s.unchecked = False
        expr = _S()
        expr.type = _S()
        expr.type.el_type = dt
        expr.type.const = False
        g = {'DataType': DT, 'ArrayType': astns['ArrayType'], 'ast': _ModuleView(astns)}
        verdicts = set()
        for ev, has_guard in paths:
            feasible = True
            for idx, e in enumerate(ev):
                if e.kind != 'cond' or e.node is None:
                    continue
                try:
                    node = ast.parse(_efg.expand(ev, idx, e.node), mode='eval').body
                except SyntaxError:
                    continue
                names = {n.id for n in ast.walk(node) if isinstance(n, ast.Name)}
                if not names <= {'self', 'expr', 'DataType', 'ArrayType', 'ast'} or any(isinstance(n, (ast.Yield, ast.YieldFrom, ast.Call))
                                                                                        for n in ast.walk(node)):
                    continue
                try:
                    v = bool(it.eval(node, Env(g, {'self': s, 'expr': expr})))
                except Exception:      # noqa: BLE001 - a decision about something else (registers, bubbles): unconstraining
                    continue
                if v != e.truth:
                    feasible = False
                    break
            if feasible:
                verdicts.add(has_guard)
        if not verdicts:
            raise AnalysisError(f'length guard: no feasible checked path of the array-initializer arm for element type {dt}')
        guarded = verdicts == {True}
        # size function: array_size(data_type, length) read structurally: BOOL -> (n+7)>>3, else n*frame_size
        identity = dt.byte_sized and dt != DT.BOOL
        chk.expect(guarded or identity, 'C05.G4', f'length guard for {dt.value}[]',
                   f'the length sanity guard is {"skipped" if verdicts == {False} else "not emitted on every path"} for {dt.value} arrays '
                   f'although their size function {"(n+7)>>3" if dt == DT.BOOL else "n*w"} is not the identity: a negative length can pass '
                   'the space guard', GEN)


def _preemptive(repo, chk, gf):
    it = Interp(repo)
    ns = it.load('hidc/ast/__init__.py')
    lex = it.load('hidc/lexer/__init__.py')
    span = lex['Span'](lex['Cursor'](0, 0), lex['Cursor'](0, 1))
    cur = lex['Cursor'](0, 0)
    Block = ns['Block']
    EM = ns['ExitMode']
    Stub = type('PStub', (Block,), {
        '__init__': lambda s, p: (object.__setattr__(s, 'preemptive', p), None)[1],
        'evaluate': lambda s, env: s, 'exit_modes': lambda s: EM.NONE, 'span': span,
        '__abstractmethods__': frozenset()})
    T, Fa = Stub(True), Stub(False)
    cases = []
    cases.append(('LoopBlock(body)', lambda b: ns['LoopBlock'](cur, b, object(), ns['CodeBlock'].empty(cur)), 1))
    cases.append(('LoopBlock.while_loop(body)', lambda b: ns['LoopBlock'].while_loop(cur, b, object()), 1))
    cases.append(('LoopBlock.for_loop(body)', lambda b: ns['LoopBlock'].for_loop(cur, b, None, None, None), 1))
    cases.append(('IfBlock(body, _)', lambda b: ns['IfBlock'](cur, b, object(), Fa), 1))
    cases.append(('IfBlock(_, else)', lambda b: ns['IfBlock'](cur, Fa, object(), b), 1))
    cases.append(('UndoBlock(body)', lambda b: ns['UndoBlock'](cur, b), 1))
    cases.append(('StopBlock(body)', lambda b: ns['StopBlock'](cur, b), 1))
    for label, mk, _ in cases:
        try:
            rt, rf = mk(T).preemptive, mk(Fa).preemptive
        except Exception as e:
            raise AnalysisError(f'cannot tabulate preemptive for {label}: {type(e).__name__}: {e}')
        chk.expect(rt is True and rf is False, 'C05.F1', label,
                   f'preemptive(child=True) = {rt}, preemptive(child=False) = {rf}: a preempt block in this child position '
                   'must make the enclosing block preemptive', BLOCKS)
    chk.expect(ns['PreemptBlock'](cur, Fa).preemptive is True, 'C05.F1', 'PreemptBlock', 'a preempt block is preemptive', BLOCKS)
    # TryBlock confines its body's preempts; the handler is outside the try
    chk.expect(ns['TryBlock'](cur, T, ns['UndoBlock'](cur, Fa)).preemptive is False, 'C05.F1', 'TryBlock(body)',
               'preempt blocks inside a try body are local to the try', BLOCKS)
    # evaluate() preserves the flag
    Env_ = ns['Environment']
    cb = ns['CodeBlock']((T,), span, True)
    chk.expect(cb.evaluate(Env_.empty()).preemptive is True, 'C05.F1', 'CodeBlock.evaluate', 'evaluate must keep preemptive', BLOCKS)
    # ... also when the preempt block is unreachable ("even if the preempt block is totally unreachable")
    ret = ns['ReturnStatement'](span)
    cb2 = ns['CodeBlock']((ret, T), span, True)
    chk.expect(cb2.evaluate(Env_.empty().new_child(ns['DataType'].EMPTY)).preemptive is True, 'C05.F1',
               'CodeBlock.evaluate with unreachable preempt', 'a preempt block after an unconditional exit still makes the function '
               'preemptive (documented: conservative, even if totally unreachable)', BLOCKS)
    # implicit return keeps the flag
    FD = ns['FuncDeclaration']
    name = ns['Ident']('f', ns['Flavor'].DEFEAT)
    decl = FD(span, ns['DataType'].EMPTY, name, (), ns['CodeBlock']((T,), span, True))
    env = Env_.empty()
    env.add_funcs([decl])
    out = decl.evaluate(env)
    chk.expect(out.body.preemptive is True, 'C05.F1', 'FuncDeclaration.evaluate (implicit return)',
               'appending the implicit return must keep the body preemptive', 'hidc/ast/program.py')
    # parser: the code block the parser builds is preemptive iff one of its child blocks is (whatever position, also behind
    # other statements and empty statements) - small bodies parsed by the interpreted front end
    from ..frontend import Frontend
    fe = Frontend(repo)
    bodies = [('preempt { }', True), ('int x = 1;', False), ('', False), ('int x = 1; preempt { } x = 2;', True), ('; ; preempt { } ;', True),
              ('if (true) { preempt { } }', True), ('if (true) { } else { preempt { } }', True), ('while (true) { preempt { } }', True),
              ('for (;;) { preempt { } }', True), ('{ preempt { } }', True), ('{ } { preempt { } } { }', True), ('{ } { int y = 2; }', False),
              ('if (true) { } preempt { }', True), ('preempt { } if (true) { }', True), ('{ { { preempt { } } } }', True),
              ('while (true) { if (true) { } }', False)]
    bad = None
    for body, want in bodies:
        res = fe.parse('empty !f() { ' + body + ' }')
        if isinstance(res, tuple):
            bad = bad or f'`{body}` does not parse: {res[2]}'
            continue
        got = res.func_decls[0].body.preemptive
        if bool(got) is not want:
            bad = bad or f'a defeat function with body `{body}` is parsed as preemptive={got}'
    chk.expect(bad is None, 'C05.F1', 'ps_code_block', bad or f'{len(bodies)} bodies: preemptive iff a child block is', GRAMMAR)
    # generator: protection flag and its emission point
    gfn = gf.methods['gen_func']
    asg = [n for n in ast.walk(gfn) if isinstance(n, ast.Assign) and src(n.targets[0]) == 'self.needs_return_protection']
    chk.expect(len(asg) == 1 and src(asg[0].value) == 'not self.unchecked and func.body.preemptive', 'C05.F1',
               'gen_func::needs_return_protection', f'{src(asg[0].value) if asg else None}', GEN)
    n = 0
    for p, ev in gf.inlined('gen_stmts'):
        arm = F.arm_of(ev, len(ev) - 1)
        if not arm.startswith('ReturnStatement') or p.outcome != 'return':
            continue
        conds = _efg.Conds(ev)
        its = items_of(ev)
        jn = [i for i in its if ev[i].kind == 'emit' and ev[i].ctor == 'asm.Jump' and src(ev[i].args[0]) == 'stdlib.nonlocal_preempt']
        want = conds.get('self.needs_return_protection') is True
        n += 1
        ok = (len(jn) == 1) == want
        if ok and want:
            pos = its.index(jn[0])
            nxt = its[pos + 1:pos + 3]
            ok = len(nxt) == 2 and ev[nxt[0]].ctor == 'asm.Jump' and src(ev[nxt[0]].args[0]) == 'ra' and ev[nxt[1]].ctor == 'asm.Halt'
            rs = [i for i in its if ev[i].kind == 'sub' and ev[i].func == 'self.reset_ap']
            ok = ok and rs and rs[-1] < jn[0]
        if not ok:
            chk.fail('C05.F1', 'gen_stmts[ReturnStatement]::nonlocal_preempt head',
                     'Jump(nonlocal_preempt) must be emitted iff needs_return_protection, after reset_ap and immediately before goto(ra)', GEN)
            break
    else:
        chk.ok('C05.F1', 'gen_stmts[ReturnStatement]::nonlocal_preempt head', f'{n} return paths')
