"""C07 - the typechecker accepts exactly the well-typed programs (finite tabulation over the type domain)."""
from __future__ import annotations

import ast
import itertools

from ..pyfacts import AnalysisError, src
from ..consteval import Interp

EXPRESSIONS = 'hidc/ast/expressions.py'
STATEMENTS = 'hidc/ast/statements.py'
SYMBOLS = 'hidc/ast/symbols.py'
PROGRAM = 'hidc/ast/program.py'


class T:
    def __init__(self, repo):
        self.it = Interp(repo)
        self.ns = self.it.load('hidc/ast/__init__.py')
        lex = self.it.load('hidc/lexer/__init__.py')
        self.span = lex['Span'](lex['Cursor'](0, 0), lex['Cursor'](0, 1))
        self.cur = lex['Cursor'](0, 0)
        ns = self.ns
        self.DT = ns['DataType']
        self.AT = ns['ArrayType']
        self.Err = ns['TypeCheckError']
        DT, AT = self.DT, self.AT
        self.scalars = [DT.INT, DT.BOOL, DT.BYTE, DT.STRING, DT.EMPTY]
        self.arrays = [AT(t, c) for t in self.scalars for c in (False, True)]
        self.dom = self.scalars + self.arrays

    def name(self, t):
        return str(t)

    def probe(self, t, const=False, name='x'):
        """A non-literal expression of type t."""
        ns = self.ns
        return ns['VariableLookup'](ns['Variable'](name, t, const), self.span)

    def try_(self, f):
        try:
            return f(), None
        except self.Err as e:
            return None, str(e)


def expected_cast(D, s, t):
    DT, AT = D.DT, D.AT
    if s == t:
        return True
    s_arr = isinstance(s, AT)
    t_arr = isinstance(t, AT)
    if t == DT.INT:
        return s in (DT.BYTE, DT.BOOL)
    if t == DT.BYTE:
        return s in (DT.INT, DT.BOOL)
    if t == DT.BOOL:
        return s in (DT.INT, DT.BYTE, DT.STRING) or s_arr
    if t_arr and t.const:
        if s == DT.STRING and t.el_type == DT.BYTE:
            return True
        if s_arr and not s.const and s.el_type == t.el_type:
            return True
    return False


def expected_coercible(D, s, t):
    DT, AT = D.DT, D.AT
    if s == t:
        return True
    if s == DT.BYTE and t == DT.INT:
        return True
    if s == DT.STRING and isinstance(t, AT) and t.const and t.el_type == DT.BYTE:
        return True
    if isinstance(s, AT) and isinstance(t, AT) and t.const and s.el_type == t.el_type:
        return True
    return False


def run(repo, chk):
    chk.explanation = (
        'The typechecker\'s decisions are functions of a 15-element type domain (5 scalars, T[] and const T[]) and a '
        'few flags (const, literal/shrinkable, scope).  Its methods are interpreted from their syntax trees and '
        'tabulated over that whole domain: the explicit-cast relation and the implicit-coercion relation are compared '
        'with the documented tables; assignability is tabulated over every kind of assignment target; the '
        'redeclaration / shadowing / return-type / duplicate-signature / array-literal rules over their case matrices; '
        'overload resolution over small overload sets in both declaration orders.  Exactness over ALL programs would '
        'need a reference typechecker and is not decided.')
    chk.assumptions = ['documented rules: README "Types", "Allowed explicit type casts", "Arrays and strings", and the property text',
                       'CONSTEVAL interprets the Python subset used by hidc/ast faithfully']
    chk.rule('C07.K1', 'explicit cast relation over the 15x15 type domain equals the documented table')
    chk.rule('C07.K2', 'implicit coercion relation: identity, byte->int, string->const byte[], T[]->const T[]; literal shrinkability rules')
    chk.rule('C07.K3', 'mandatory rejections: const / const-element assignment, Volatile initialiser, return types, redeclaration and local shadowing, duplicate signatures, undeclared names')
    chk.rule('C07.K4', 'element assignability: string elements and const array elements are not assignable; mutable array elements are')
    chk.rule('C07.K5', 'array literals: nested arrays rejected, element type never empty, unresolvable element types rejected, preferred type = first type all elements coerce to')
    chk.rule('C07.K6', 'overload resolution: exact signature first, else first declared overload all arguments coerce to; builtins declared first')
    D = T(repo)
    ns, DT, AT, span = D.ns, D.DT, D.AT, D.span

    # ---------------- K1 / K2 ---------------------------------------------------------
    n1 = 0
    for s in D.dom:
        for t in D.dom:
            n1 += 1
            r, err = D.try_(lambda: D.probe(s).cast(t))
            got = err is None
            want = expected_cast(D, s, t)
            key = f'({D.name(s)}) is {D.name(t)}'
            if got != want:
                chk.fail('C07.K1', key, f'explicit cast is {"accepted" if got else "rejected"} but the documented table says '
                         f'{"accept" if want else "reject"}', EXPRESSIONS)
            elif got and r is not None and s != t:
                # the resulting node has the target type
                if r.type != t:
                    chk.fail('C07.K1', key, f'cast result has type {r.type}, expected {t}', EXPRESSIONS)
            c = D.probe(s).coercible(t)
            wantc = expected_coercible(D, s, t)
            if bool(c) != wantc:
                chk.fail('C07.K2', f'{D.name(s)} -> {D.name(t)}', f'implicit coercion is {"allowed" if c else "refused"} but the '
                         f'documented rule says {"allow" if wantc else "refuse"}', EXPRESSIONS)
            r2, err2 = D.try_(lambda: D.probe(s).coerce(t))
            if (err2 is None) != wantc:
                chk.fail('C07.K2', f'coerce {D.name(s)} -> {D.name(t)}', f'coerce() {"accepts" if err2 is None else "rejects"}; expected '
                         f'{"accept" if wantc else "reject"}', EXPRESSIONS)
    # cast chains: a lossy cast (to byte / to bool) must survive a following cast
    n_chain = 0
    for s in D.scalars[:4]:
        for t in (DT.BYTE, DT.BOOL, DT.INT):
            if s == t or not expected_cast(D, s, t):
                continue
            inner, err = D.try_(lambda: D.probe(s).cast(t))
            if err or inner is None:
                continue
            for u in (DT.INT, DT.BYTE, DT.BOOL):
                if u == t or not expected_cast(D, t, u):
                    continue
                outer, err = D.try_(lambda: inner.cast(u))
                n_chain += 1
                if err or outer is None:
                    chk.fail('C07.K1', f'(({D.name(s)}) is {D.name(t)}) is {D.name(u)}', f'cast chain rejected: {err}', EXPRESSIONS)
                    continue
                lossy = t in (DT.BYTE, DT.BOOL) and s != DT.BOOL and not (s == DT.BYTE and t == DT.BYTE)
                if lossy:
                    x, found = outer, False
                    for _ in range(6):
                        if x is inner:
                            found = True
                            break
                        x = getattr(x, 'expr', None)
                        if x is None:
                            break
                    chk.expect(found and outer.type == u, 'C07.K1', f'(({D.name(s)}) is {D.name(t)}) is {D.name(u)}',
                               f'the narrowing cast to {D.name(t)} was dropped from the tree ({type(outer).__name__}): '
                               f'`(x is {D.name(t)}) is {D.name(u)}` would then keep the bits the inner cast must discard', EXPRESSIONS)
    chk.count('cast_chains', n_chain)
    chk.count('type_pairs', n1)
    if not any(v['rule'] == 'C07.K1' for v in chk.violations):
        chk.ok('C07.K1', 'cast relation', f'{n1} (source, target) pairs agree with the documented table')
    if not any(v['rule'] == 'C07.K2' for v in chk.violations):
        chk.ok('C07.K2', 'coercion relation', f'{n1} pairs agree')
    # literal rules
    IV, ByV, BV = ns['IntValue'], ns['ByteValue'], ns['BoolValue']
    lit = IV(5, span)
    chk.expect(lit.coercible(DT.BYTE) and lit.coercible(DT.INT) and not lit.coercible(DT.BOOL) and not lit.coercible(DT.STRING),
               'C07.K2', 'int literal', 'coercible to byte (and int) only', EXPRESSIONS)
    sub = lit.at(span)
    chk.expect(not sub.coercible(DT.BYTE) and sub.data == 5, 'C07.K2', 'substituted int literal', 'a const variable of type int '
               'is not narrowed implicitly', EXPRESSIONS)
    chk.expect(not lit.cast(DT.INT).coercible(DT.BYTE), 'C07.K2', '(5 is int)', 'an explicit int is not shrinkable', EXPRESSIONS)
    b = ByV(5, span)
    chk.expect(b.coercible(DT.INT) and b.coerce(DT.INT).coercible(DT.BYTE), 'C07.K2', 'byte literal widened', 'implicitly widened '
               'byte literals stay shrinkable', EXPRESSIONS)
    chk.expect(not BV(True, span).coercible(DT.INT) and not BV(True, span).coercible(DT.BYTE), 'C07.K2', 'bool literal',
               'no implicit bool -> number', EXPRESSIONS)
    chk.expect(not D.probe(DT.INT).coercible(DT.BYTE), 'C07.K2', 'non-literal int -> byte', 'implicit narrowing of a variable must be refused', EXPRESSIONS)
    # arithmetic shrinkability
    Add, Neg = ns['Add'], ns['Neg']
    env0 = ns['Environment'].empty()
    kinds = {'int var': D.probe(DT.INT), 'byte var': D.probe(DT.BYTE, name='b'), 'int literal': IV(1, span),
             'byte literal': ByV(1, span), 'const int': IV(1, span).at(span)}
    for (ka, a), (kb, b_) in itertools.product(kinds.items(), kinds.items()):
        r = Add(span, a, b_).evaluate(env0)
        want = a.coercible(DT.BYTE) and b_.coercible(DT.BYTE)
        chk.expect(bool(r.coercible(DT.BYTE)) == bool(want) and r.type == DT.INT, 'C07.K2', f'{ka} + {kb}',
                   f'result coercible to byte = {bool(r.coercible(DT.BYTE))}, expected {bool(want)} (only if both operands are)', 'hidc/ast/operators.py')
    for ka, a in kinds.items():
        r = Neg(span, a).evaluate(env0)
        chk.expect(bool(r.coercible(DT.BYTE)) == bool(a.coercible(DT.BYTE)), 'C07.K2', f'-({ka})', 'unary keeps shrinkability', 'hidc/ast/operators.py')
    for bad_t in (DT.BOOL, DT.STRING, AT(DT.INT, False)):
        r, err = D.try_(lambda: Add(span, D.probe(bad_t), IV(1, span)).evaluate(env0))
        chk.expect(err is not None, 'C07.K2', f'{D.name(bad_t)} + 1', 'arithmetic operands must be int or byte', 'hidc/ast/operators.py')

    # operator typing matrix over operand types
    numeric = {DT.INT, DT.BYTE}
    # `empty` (the type of a call of a function that returns nothing) is an operand of no operator: the generator has no
    # value to load for it (EmptyAccessor raises InternalCompilerError)
    optypes = [DT.INT, DT.BYTE, DT.BOOL, DT.STRING, AT(DT.INT, False), AT(DT.BYTE, True), DT.EMPTY]
    truthy = {DT.INT, DT.BYTE, DT.BOOL, DT.STRING, AT(DT.INT, False), AT(DT.BYTE, True)}

    def accepts(cls, *operands):
        r, err = D.try_(lambda: ns[cls](span, *operands).evaluate(env0))
        return err is None, r
    for a in optypes:
        for b in optypes:
            pa, pb = D.probe(a, name='p'), D.probe(b, name='q')
            for cls in ('Add', 'Sub', 'Mul', 'Div', 'Mod', 'Lt', 'Le', 'Gt', 'Ge'):
                ok, r = accepts(cls, pa, pb)
                want = a in numeric and b in numeric
                if ok != want or (ok and r.type != (DT.INT if cls in ('Add', 'Sub', 'Mul', 'Div', 'Mod') else DT.BOOL)):
                    chk.fail('C07.K2', f'{D.name(a)} {ns[cls].token.value} {D.name(b)}', f'{"accepted" if ok else "rejected"}; arithmetic and '
                             f'ordering operators take int/byte operands only (expected {"accept" if want else "reject"})', 'hidc/ast/operators.py')
            for cls in ('Eq', 'Ne'):
                ok, r = accepts(cls, pa, pb)
                want = (a in numeric and b in numeric) or (a == DT.BOOL and b == DT.BOOL)
                if ok != want:
                    chk.fail('C07.K2', f'{D.name(a)} {ns[cls].token.value} {D.name(b)}', f'{"accepted" if ok else "rejected"}; equality compares two '
                             f'numbers or two bools (expected {"accept" if want else "reject"})', 'hidc/ast/operators.py')
            for cls in ('And', 'Or'):
                ok, r = accepts(cls, pa, pb)
                want = a in truthy and b in truthy
                if ok != want or (ok and r.type != DT.BOOL):
                    chk.fail('C07.K2', f'{D.name(a)} {ns[cls].token.value} {D.name(b)}', f'{"accepted" if ok else "rejected"} (expected '
                             f'{"accept" if want else "reject"}: every value has a truth value)', 'hidc/ast/operators.py')
            ok, r = accepts('Speculation', pa, pb)
            want = a in (DT.INT, DT.BYTE, DT.BOOL) and b != DT.EMPTY and expected_coercible(D, b, a)
            if ok != want or (ok and r.type != a):
                chk.fail('C07.K2', f'{D.name(a)} ?? {D.name(b)}', f'{"accepted" if ok else "rejected"}; expected {"accept" if want else "reject"} '
                         '(left int/byte/bool, right coercible to the left type)', 'hidc/ast/operators.py')
        pa = D.probe(a, name='p')
        for cls, want in (('Neg', a in numeric), ('Pos', a in numeric), ('Not', a in truthy)):
            ok, r = accepts(cls, pa)
            if ok != want:
                chk.fail('C07.K2', f'{ns[cls].token.value} {D.name(a)}', f'{"accepted" if ok else "rejected"}; expected {"accept" if want else "reject"}',
                         'hidc/ast/operators.py')
    if not any(v['rule'] == 'C07.K2' and (' ?? ' in v['construct'] or any(f' {t} ' in v['construct'] for t in '+-*/%<>=')) for v in chk.violations):
        chk.ok('C07.K2', 'operator typing matrix', f'{len(optypes)}x{len(optypes)} operand type pairs x 14 operators')

    # ---------------- K4 / K3 assignment ---------------------------------------------------
    AL, Asg, Inc = ns['ArrayLookup'], ns['Assignment'], ns['IncAssignment']
    idx = IV(0, span)
    targets = {
        'mutable scalar': (D.probe(DT.INT), True),
        'const scalar': (D.probe(DT.INT, const=True), False),
        'element of int[]': (AL(D.probe(AT(DT.INT, False)), idx, D.cur), True),
        'element of const int[]': (AL(D.probe(AT(DT.INT, True)), idx, D.cur), False),
        'element of string': (AL(D.probe(DT.STRING), idx, D.cur), False),
        'element of const string variable': (AL(D.probe(DT.STRING, const=True), idx, D.cur), False),
        'element of bool[]': (AL(D.probe(AT(DT.BOOL, False)), idx, D.cur), True),
        'element of const byte[]': (AL(D.probe(AT(DT.BYTE, True)), idx, D.cur), False),
    }
    env = ns['Environment'].empty().new_child(DT.EMPTY)
    for label, (tgt, assignable) in targets.items():
        rhs = IV(1, span) if tgt.type != DT.BOOL else BV(True, span)
        r, err = D.try_(lambda: Asg(tgt, rhs).evaluate(env))
        rule = 'C07.K4' if label.startswith('element') else 'C07.K3'
        chk.expect((err is None) == assignable, rule, f'assignment to {label}',
                   f'{"accepted" if err is None else "rejected"}; the documented rule says {"accept" if assignable else "reject"}',
                   EXPRESSIONS if rule == 'C07.K4' else STATEMENTS)
        if tgt.type in (DT.INT, DT.BYTE):
            r, err = D.try_(lambda: Inc(tgt, IV(1, span), ns['Add'], span).evaluate(env))
            chk.expect((err is None) == assignable, rule, f'augmented assignment to {label}',
                       f'{"accepted" if err is None else "rejected"}; expected {"accept" if assignable else "reject"}', STATEMENTS)
    # type of the assigned value
    r, err = D.try_(lambda: Asg(D.probe(DT.BYTE), D.probe(DT.INT, name='i')).evaluate(env))
    chk.expect(err is not None, 'C07.K3', 'byte = int variable', 'implicit narrowing must be rejected', STATEMENTS)
    r, err = D.try_(lambda: Asg(D.probe(DT.INT), D.probe(DT.BYTE, name='b')).evaluate(env))
    chk.expect(err is None, 'C07.K3', 'int = byte variable', 'widening accepted', STATEMENTS)
    r, err = D.try_(lambda: Asg(IV(1, span), IV(2, span)).evaluate(env))
    chk.expect(err is not None, 'C07.K3', 'assignment to a non-assignable expression', 'rejected', STATEMENTS)

    # ---------------- K3 declarations ------------------------------------------------------------
    Decl, Var, Param = ns['Declaration'], ns['Variable'], ns['Parameter']

    def decl(name, t=DT.INT, const=False, init=None):
        return Decl(Var(name, t, const), init if init is not None else IV(1, span), D.cur)

    def scenario(steps):
        """steps: list of (scope, declaration); scope 'g' global, 'f' function, 'b' nested block."""
        g = ns['Environment'].empty()
        f = g.new_child(DT.EMPTY)
        b = f.new_child()
        envs = {'g': g, 'f': f, 'b': b}
        err = None
        for sc, d in steps:
            try:
                d.evaluate(envs[sc])
            except D.Err as e:
                err = str(e)
                break
        return err
    cases = [
        ('global then same global', [('g', decl('x')), ('g', decl('x'))], False),
        ('local shadows global', [('g', decl('x')), ('f', decl('x'))], True),
        ('local then same local', [('f', decl('x')), ('f', decl('x'))], False),
        ('nested block shadows local', [('f', decl('x')), ('b', decl('x'))], False),
        ('global, local, then nested redeclaration', [('g', decl('x')), ('f', decl('x')), ('b', decl('x'))], False),
        ('global, local, then local again', [('g', decl('x')), ('f', decl('x')), ('f', decl('x'))], False),
        ('parameter then local of same name', [('f', Decl(Var('x', DT.INT, False), Param(Var('x', DT.INT, False), span), D.cur)),
                                                ('f', decl('x'))], False),
        ('two different names', [('f', decl('x')), ('f', decl('y'))], True),
        ('nested block shadows global only', [('g', decl('x')), ('b', decl('x'))], True),
    ]
    for label, steps, ok in cases:
        err = scenario(steps)
        chk.expect((err is None) == ok, 'C07.K3', f'declarations: {label}',
                   f'{"accepted" if err is None else "rejected (" + err + ")"}; the documented rule says {"accept" if ok else "reject"}', STATEMENTS)
    # declaration initialiser types
    g = ns['Environment'].empty().new_child(DT.EMPTY)
    for vt, it_, ok in ((DT.BYTE, D.probe(DT.INT, name='i'), False), (DT.INT, D.probe(DT.BYTE, name='b'), True),
                        (AT(DT.INT, True), D.probe(AT(DT.INT, False), name='a'), False),      # Volatile initialiser
                        (AT(DT.INT, False), D.probe(AT(DT.INT, True), name='a'), False),
                        (AT(DT.BYTE, True), D.probe(DT.STRING, name='s'), True),
                        (AT(DT.BYTE, False), D.probe(DT.STRING, name='s'), False),
                        (DT.BOOL, D.probe(DT.INT, name='i'), False)):
        err = scenario([('f', Decl(Var('v', vt, isinstance(vt, AT)), it_, D.cur))])
        chk.expect((err is None) == ok, 'C07.K3', f'{D.name(vt)} v = <{D.name(it_.type)} variable>',
                   f'{"accepted" if err is None else "rejected"}; expected {"accept" if ok else "reject"}', STATEMENTS)
    # undeclared
    UN, VL = ns['UnresolvedName'], ns['VariableLookup']
    r, err = D.try_(lambda: VL(UN('nope'), span).evaluate(g))
    chk.expect(err is not None, 'C07.K3', 'undeclared variable', 'rejected', EXPRESSIONS)
    # returns
    Ret = ns['ReturnStatement']
    for rt, val, ok in ((DT.EMPTY, None, True), (DT.EMPTY, IV(1, span), False), (DT.INT, None, False), (DT.INT, IV(1, span), True),
                        (DT.BYTE, D.probe(DT.INT, name='i'), False), (DT.INT, D.probe(DT.BYTE, name='b'), True),
                        (DT.STRING, IV(1, span), False), (DT.BOOL, BV(True, span), True)):
        e = ns['Environment'].empty().new_child(rt)
        r, err = D.try_(lambda: Ret(span, val).evaluate(e))
        chk.expect((err is None) == ok, 'C07.K3', f'return {"<" + D.name(val.type) + ">" if val is not None else "(nothing)"} in {rt.value} function',
                   f'{"accepted" if err is None else "rejected"}; expected {"accept" if ok else "reject"}', STATEMENTS)
    # "missing return" is decided by the exit-mode analysis (shared with C16.E1/E3)
    if chk.__class__.__name__ == 'Check':
        from . import c16
        from ..report import Remap
        c16.run(repo, Remap(chk, {'C16.E1': 'C07.K3', 'C16.E3': 'C07.K3'}))
    # duplicate signatures
    Ident = ns['Ident']
    FD, CB = ns['FuncDeclaration'], ns['CodeBlock']

    def Stub(ret, name, ptypes):
        # a user function declaration with the given signature
        params = tuple(Param(Var(f'p{i}', t, False), span) for i, t in enumerate(ptypes))
        return FD(span, ret, name, params, CB((), span, False))
    e = ns['Environment'].empty()
    e.add_funcs([Stub(DT.EMPTY, Ident('f'), (DT.INT,))])
    r, err = D.try_(lambda: e.add_funcs([Stub(DT.INT, Ident('f'), (DT.INT,))]))
    chk.expect(err is not None, 'C07.K3', 'duplicate signature f(int)', 'rejected even with a different return type', SYMBOLS)
    r, err = D.try_(lambda: e.add_funcs([Stub(DT.EMPTY, Ident('f'), (DT.BYTE,)), Stub(DT.EMPTY, Ident.you('f'), (DT.INT,))]))
    chk.expect(err is None, 'C07.K3', 'overloads f(byte), @f(int)', 'distinct signatures / flavours accepted', SYMBOLS)
    stubs = D.it.load(PROGRAM)['builtin_stubs']
    e2 = ns['Environment'].empty()
    e2.add_funcs(stubs)
    r, err = D.try_(lambda: e2.add_funcs([Stub(DT.EMPTY, Ident('write'), (DT.INT,))]))
    chk.expect(err is not None, 'C07.K3', 'redefinition of builtin write(int)', 'rejected', SYMBOLS)

    # ---------------- K5 array literals -----------------------------------------------------------------
    ALit, FC = ns['ArrayLiteral'], ns['FuncCall']

    class EvFC(FC):
        def evaluate(self, env):
            return self
    empty_call = EvFC(Ident('f'), (), span, DT.EMPTY)
    r, err = D.try_(lambda: ALit((empty_call,), span).evaluate(g))
    chk.expect(err is not None, 'C07.K5', '[f()] with empty f()', 'an array literal with an element of type empty must be rejected '
               '(otherwise an empty-typed array reaches the code generator)', EXPRESSIONS)
    r, err = D.try_(lambda: ALit((IV(1, span), empty_call), span).evaluate(g))
    chk.expect(err is not None, 'C07.K5', '[1, f()] with empty f()', 'rejected', EXPRESSIONS)
    r, err = D.try_(lambda: ALit((D.probe(AT(DT.INT, False), name='a'),), span).evaluate(g))
    chk.expect(err is not None, 'C07.K5', 'nested array literal', 'rejected', EXPRESSIONS)
    r, err = D.try_(lambda: ALit((IV(1, span), BV(True, span)), span).evaluate(g))
    chk.expect(err is not None, 'C07.K5', '[1, true]', 'no common element type: rejected', EXPRESSIONS)
    r, err = D.try_(lambda: ALit((IV(1, span), D.probe(DT.BYTE, name='b')), span).evaluate(g))
    chk.expect(err is None and r.type == AT(DT.INT, True) and r.coercible(AT(DT.BYTE, False)) and r.coercible(AT(DT.INT, False)),
               'C07.K5', '[1, b]', 'preferentially const int[], coercible to byte[] and to non-const', EXPRESSIONS)
    r, err = D.try_(lambda: ALit((D.probe(DT.INT, name='i'), D.probe(DT.BYTE, name='b')), span).evaluate(g))
    chk.expect(err is None and r.type == AT(DT.INT, True) and not r.coercible(AT(DT.BYTE, True)), 'C07.K5', '[i, b]',
               'int[]; not coercible to byte[] (i is not a literal)', EXPRESSIONS)
    r, err = D.try_(lambda: ALit((), span).evaluate(g))
    chk.expect(err is None and r.coercible(AT(DT.STRING, False)), 'C07.K5', '[]', 'empty literal coercible to any array type', EXPRESSIONS)
    r, err = D.try_(lambda: AL(ALit((), span), idx, D.cur).evaluate(g))
    chk.expect(err is not None, 'C07.K5', '[][0]', 'ambiguous array type rejected', EXPRESSIONS)
    lit2 = ALit((IV(1, span), IV(2, span)), span).evaluate(g)
    locked = lit2.cast(AT(DT.INT, True))
    chk.expect(not locked.coercible(AT(DT.BYTE, True)) and locked.coercible(AT(DT.INT, False)), 'C07.K5', '([1,2] is int[])',
               'after an explicit cast only constness stays flexible', EXPRESSIONS)
    for src_t in (DT.INT, DT.BOOL):
        r, err = D.try_(lambda: AL(D.probe(src_t), idx, D.cur).evaluate(g))
        chk.expect(err is not None, 'C07.K5', f'indexing a {src_t.value}', 'rejected', EXPRESSIONS)
    r, err = D.try_(lambda: AL(D.probe(AT(DT.INT, False), name='a'), BV(True, span), D.cur).evaluate(g))
    chk.expect(err is not None, 'C07.K5', 'a[true]', 'index must be int', EXPRESSIONS)
    LL = ns['LengthLookup']
    r, err = D.try_(lambda: LL(D.probe(DT.INT), D.cur).evaluate(g))
    chk.expect(err is not None, 'C07.K5', '(int).length', 'rejected', EXPRESSIONS)

    # ---------------- K6 overload resolution ------------------------------------------------------------------
    def resolve(overloads, args):
        e = ns['Environment'].empty()
        e.add_funcs(stubs)
        e.add_funcs([Stub(DT.INT if i else DT.EMPTY, Ident('g'), sig) for i, sig in enumerate(overloads)])

        class Arg:
            pass
        call = FC(Ident('g'), tuple(_Pre(a) for a in args), span)
        r, err = D.try_(lambda: call.evaluate(e))
        if err:
            return None
        # which overload: compare coerced argument types
        return tuple(a.type for a in r.args)

    class _Pre:
        """argument whose evaluate() returns the prepared (already typed) expression"""
        def __init__(self, expr):
            self.expr = expr

        def evaluate(self, env):
            return self.expr
    bvar = D.probe(DT.BYTE, name='b')
    cases6 = [
        ('g(byte) with g(int), g(byte)', [(DT.INT,), (DT.BYTE,)], [bvar], (DT.BYTE,)),
        ('g(byte) with g(byte), g(int)', [(DT.BYTE,), (DT.INT,)], [bvar], (DT.BYTE,)),
        ('g(5) with g(byte), g(int)', [(DT.BYTE,), (DT.INT,)], [IV(5, span)], (DT.INT,)),
        ('g(5) with g(byte), g(string)', [(DT.BYTE,), (DT.STRING,)], [IV(5, span)], (DT.BYTE,)),
        ('g(b) with g(string), g(int)', [(DT.STRING,), (DT.INT,)], [bvar], (DT.INT,)),
        ('g(int var) with g(byte)', [(DT.BYTE,)], [D.probe(DT.INT, name='i')], None),
        ('g([1,2]) with g(int[]), g(const byte[])', [(AT(DT.INT, False),), (AT(DT.BYTE, True),)],
         [ALit((IV(1, span), IV(2, span)), span).evaluate(g)], (AT(DT.INT, False),)),
        ('g([1,2]) with g(const byte[]), g(int[])', [(AT(DT.BYTE, True),), (AT(DT.INT, False),)],
         [ALit((IV(1, span), IV(2, span)), span).evaluate(g)], (AT(DT.BYTE, True),)),
        ('g(int[] a) with g(const int[])', [(AT(DT.INT, True),)], [D.probe(AT(DT.INT, False), name='a')], (AT(DT.INT, True),)),
        ('g(const int[] a) with g(int[])', [(AT(DT.INT, False),)], [D.probe(AT(DT.INT, True), name='a')], None),
        ('g(s) with g(const byte[])', [(AT(DT.BYTE, True),)], [D.probe(DT.STRING, name='s')], (AT(DT.BYTE, True),)),
        ('g(1, 2) with g(int)', [(DT.INT,)], [IV(1, span), IV(2, span)], None),
        ('g() with g(int)', [(DT.INT,)], [], None),
        ('g(b, 5) with g(int, int), g(byte, byte)', [(DT.INT, DT.INT), (DT.BYTE, DT.BYTE)], [bvar, IV(5, span)], (DT.INT, DT.INT)),
    ]
    for label, overloads, args, want in cases6:
        got = resolve(overloads, args)
        chk.expect(got == want, 'C07.K6', label, f'bound to {tuple(map(str, got)) if got else "no overload (rejected)"}; expected '
                   f'{tuple(map(str, want)) if want else "rejection"}', EXPRESSIONS)
    # typechecking a function must not move it in the overload table ("first declared" is declaration order)
    e = ns['Environment'].empty()
    fa, fb, fc = Stub(DT.EMPTY, Ident('h'), (DT.INT,)), Stub(DT.EMPTY, Ident('h'), (DT.STRING,)), Stub(DT.EMPTY, Ident('h'), (DT.BOOL,))
    e.add_funcs([fa, fb, fc])
    before = list(e.funcs[Ident('h')])
    fa.evaluate(e)
    mid = list(e.funcs[Ident('h')])
    fb.evaluate(e)
    fc.evaluate(e)
    after = list(e.funcs[Ident('h')])
    chk.expect(before == mid == after, 'C07.K6', 'FuncDeclaration.evaluate keeps declaration order',
               f'overload order {[tuple(map(str, s)) for s in before]} became {[tuple(map(str, s)) for s in mid]} after typechecking the '
               'first overload: a call between two overloads would then bind by a rotated order', PROGRAM)
    chk.expect(all(type(v).__name__ == 'FuncDeclaration' and v is not o for v, o in zip(e.funcs[Ident('h')].values(), (fa, fb, fc))),
               'C07.K6', 'FuncDeclaration.evaluate updates its entry', 'the table must hold the typechecked declarations', PROGRAM)
    # builtins are declared before user functions
    prog = repo.find_class(PROGRAM, 'Program')
    ev = [n for n in prog.body if isinstance(n, ast.FunctionDef) and n.name == 'evaluate']
    calls = [src(c) for c in ast.walk(ev[0]) if isinstance(c, ast.Call) and src(c.func) == 'env.add_funcs'] if ev else []
    order = sorted(calls, key=lambda t: src(ev[0]).index(t)) if calls else []
    chk.expect(order == ['env.add_funcs(builtin_stubs)', 'env.add_funcs(self.func_decls)'], 'C07.K6', 'Program.evaluate::declaration order',
               f'{order}', PROGRAM)
    if chk.__class__.__name__ == 'Check':
        # a catalogue of small programs typechecked by the checker's interpreter: verdict and typed tree as the documented rules say
        chk.rule('C07.K7', 'typing census: overload resolution over several arguments and arities, return statements, explicit casts of '
                           'array literals, casts / comparisons / faulting operators that must survive, declarations and operators '
                           '(catalogue programs, typechecked by interpretation)')
        from .. import typecensus
        chk.count('census_programs', typecensus.decide(repo, chk, 'C07.K7', None, 'hidc/ast/expressions.py'))
    chk.exhaustive = False
    chk.not_decided = ['exactness over all programs (no reference typechecker; the census is a catalogue); typing of every syntactic position']
