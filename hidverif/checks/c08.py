"""C08 - every scope exit releases exactly what the scope allocated (linear, LIFO use of stack bubbles)."""
from __future__ import annotations

import ast

from .. import efg as _efg
from ..pyfacts import AnalysisError, src
from ..genfacts import GenFacts, GEN
from ..report import Remap
from .. import forms as F

PRODUCER_CALLS = {'self.reserve_word', 'self.reserve_byte', 'self.reserve_type'}
PRODUCER_SUBS = {'self.push_expr', 'self.eval_expr', 'self.push_value', 'self.eval_func_call'}
LINEAR_FUNCS = ['gen_func', 'gen_block', 'gen_stmts', 'push_expr', 'get_expr_value', 'eval_expr', 'eval_func_call',
                'array_lookup', 'array_assignment', 'push_value', 'pop_value', 'truth_is_defeat', 'bool_expr_branch']


class Lin:
    """Typestate simulation of bubbles along one path."""

    def __init__(self, fn, ev, params):
        self.fn = fn
        self.ev = ev
        self.stack = [p for p in params]
        self.markers = []
        self.problems = []
        self.overlay = False
        self.n_prod = 0
        self.n_cons = 0

    def top_is(self, name):
        return bool(self.stack) and self.stack[-1] == name

    def consume(self, name, what, line):
        self.n_cons += 1
        if name not in self.stack:
            self.problems.append((f'{what}({name})', f'`{name}` is consumed here but is not a live bubble on this path '
                                  '(already released, or never produced)', line))
            return
        if not self.top_is(name):
            self.problems.append((f'{what}({name})', f'`{name}` is released while `{self.stack[-1]}` (produced later) is still '
                                  f'live: bubbles must be released in reverse order of production (live: {self.stack})', line))
            self.stack.remove(name)
            return
        self.stack.pop()

    def run(self):
        ev = self.ev
        for i, e in enumerate(ev):
            if e.kind in ('call', 'sub', 'silent'):
                f = e.func
                args = [src(a) for a in e.args]
                # consumers
                if f == 'self.pop' and args:
                    self.consume(args[0], 'pop', e.line)
                    continue
                if f == 'self.pop_value' and len(args) >= 2:
                    self.consume(args[1], 'pop_value', e.line)
                    continue
                rel = getattr(self, 'releasers', {})
                if f.startswith('self.') and f[5:] in rel and len(args) > rel[f[5:]]:
                    self.consume(args[rel[f[5:]]], f[5:], e.line)
                    continue
                if f == 'self.create_new_stack_array':
                    o = src(e.kwargs.get('origin_bubble')) if 'origin_bubble' in e.kwargs else (args[1] if len(args) > 1 else None)
                    l = src(e.kwargs.get('length_bubble')) if 'length_bubble' in e.kwargs else (args[2] if len(args) > 2 else None)
                    if self.stack[-2:] != [l, o]:
                        self.problems.append(('create_new_stack_array', f'expects the length and origin bubbles on top in that order; live: {self.stack}', e.line))
                    else:
                        self.stack[-2:] = []
                    self.n_cons += 1
                    self._produce(e, i)
                    continue
                # producers
                if (e.kind == 'call' and f in PRODUCER_CALLS) or (e.kind == 'sub' and f in PRODUCER_SUBS) \
                        or (e.kind == 'sub' and f == 'self.gen_stmts'):
                    self._produce(e, i)
                    continue
                if e.kind == 'call' and f == 'Bubble' and isinstance(e.bound, str):
                    self.stack.append(e.bound)
                    continue
            elif e.kind == 'assign':
                v = e.value
                if e.text == 'aug' and isinstance(v, ast.AugAssign) and isinstance(v.op, ast.Add):
                    a, b = src(v.target), src(v.value)
                    if b in self.stack:
                        if not self.top_is(b):
                            self.problems.append((f'{a} += {b}', f'`{b}` is merged while not on top (live: {self.stack})', e.line))
                            self.stack.remove(b)
                        else:
                            self.stack.pop()
                            if not self.top_is(a):
                                if a in self.stack:
                                    self.problems.append((f'{a} += {b}', f'`{a}` is not adjacent below `{b}` (live: {self.stack})', e.line))
                                else:
                                    self.stack.append(a)
                        self.n_cons += 1
                    continue
                if isinstance(v, ast.Name) and v.id in self.stack and e.target != v.id and e.text not in ('aug', 'del'):
                    self.stack[self.stack.index(v.id)] = e.target
                    continue
                if isinstance(v, ast.Call) and isinstance(v.func, ast.Attribute) and v.func.attr == 'with_value' \
                        and isinstance(v.func.value, ast.Name) and v.func.value.id in self.stack:
                    self.stack[self.stack.index(v.func.value.id)] = e.target
                    continue
                if e.target == 'self.stack' and 'offset=-1' in src(v):
                    self.overlay = True
                # the tail of a release written out in place: `self.stack = b.prev`
                if e.target == 'self.stack' and isinstance(v, ast.Attribute) and v.attr == 'prev' and isinstance(v.value, ast.Name) \
                        and v.value.id in self.stack:
                    self.consume(v.value.id, 'release', e.line)
            elif e.kind == 'assert':
                # `assert ... x.vacuous`: x holds nothing
                for n in ast.walk(e.node.test) if isinstance(e.node, ast.Assert) else []:
                    if isinstance(n, ast.Attribute) and n.attr == 'vacuous' and isinstance(n.value, ast.Name) \
                            and n.value.id in self.stack:
                        self.stack.remove(n.value.id)
            elif e.kind == 'enter' and 'at_offset' in e.text:
                self.markers.append(len(self.stack))
            elif e.kind == 'exit' and 'at_offset' in e.text and self.markers:
                del self.stack[self.markers.pop():]
            elif e.kind == 'return':
                self._ret(e, i)
        return self.problems

    def _produce(self, e, i):
        self.n_prod += 1
        b = e.bound
        if isinstance(b, tuple):
            b = b[-1]
        if b is None:
            # result used directly: returned, or dropped
            nxt = self.ev[i + 1] if i + 1 < len(self.ev) else None
            if nxt is not None and nxt.kind == 'return' and nxt.value is not None and any(n is e.node for n in ast.walk(nxt.value)):
                self.stack.append('<returned>')
                return
            if nxt is not None and nxt.kind == 'return' and nxt.value is not None and e.kind == 'call' \
                    and src(nxt.value) == src(e.node):
                self.stack.append('<returned>')
                return
            self.problems.append((f'{e.func} result dropped', 'a stack bubble is produced but neither bound, released nor returned', e.line))
            return
        if b in self.stack:
            self.problems.append((f'{b} rebound', f'`{b}` is overwritten while still live (the first bubble is lost)', e.line))
            self.stack.remove(b)
        self.stack.append(b)

    def _ret(self, e, i):
        v = e.value
        live = list(self.stack)
        if v is None:
            names = []
        else:
            names = [n.id for n in ast.walk(v) if isinstance(n, ast.Name) and n.id in live]
            if '<returned>' in live:
                names.append('<returned>')
            names = list(dict.fromkeys(names))
        if self.overlay and self.fn == 'push_expr' and 'byte_bubble' in live:
            # named exception: ByteToInt overlays a byte on a zeroed word; the word bubble covers both
            live.remove('byte_bubble')
            names = [n for n in names if n != 'byte_bubble']
        rest = [x for x in live if x not in names]
        if rest:
            self.problems.append((f'return with live {rest}', f'function returns while bubbles {rest} are still allocated', e.line))
        if len(names) > 1:
            self.problems.append((f'return {names}', 'more than one live bubble returned', e.line))
        self.stack = []


def items_of(ev):
    return [i for i, e in enumerate(ev) if (e.kind == 'emit' and e.ctor != 'asm.Metadata') or e.kind in ('sub', 'splice')]


def run(repo, chk):
    chk.explanation = (
        'The compiler tracks the frame with "bubbles" (reserve / push ... pop).  Every path of every generator '
        'function is simulated with a typestate machine: each produced bubble must be released exactly once, in '
        'reverse order of production, or handed to the caller; nothing may remain live at a return.  This '
        'statically discharges the compile-time assertions in pop/gen_block/gen_func.  Exit routes (return / break / '
        'continue) must reset ap to the right restore point, block ends pop dynamically, calls rebase fp '
        'symmetrically, and the stop handler restores fp then ap.  Run-time equality of (fp, ap) follows from '
        'these only under the VM semantics and is not decided.')
    chk.assumptions = ['producers/consumers of bubbles are the functions listed in DESIGN.md C08.L1',
                       'loops are unrolled 0..2 times; behaviour at further iterations is the same by construction (state is re-established per iteration)']
    chk.rule('C08.L1', 'bubbles are linear and LIFO on every path; nothing live at return (named exceptions: at_offset, ByteToInt overlay, asserted-vacuous)')
    chk.rule('C08.L2', 'return/break/continue reset ap (reset_ap(0) / reset_ap(restore_point.array_num)) before their goto; restore point captured after the condition, before the body')
    chk.rule('C08.L3', 'block end pops its declarations dynamically; emission skipped only when exited or cannot complete; scope tables pushed/popped in pairs')
    chk.rule('C08.L4', 'pop/reset_ap arithmetic: static pop subtracts the bubble\'s static size; reset_ap reloads the origin slot; origin saved before ap advances')
    chk.rule('C08.L5', 'fp rebased symmetrically around calls; stop handler restores fp before ap')
    gf = GenFacts(repo)

    # ---------------- L1 ----------------------------------------------------------
    n_paths = n_prod = 0
    for fn in LINEAR_FUNCS:
        if fn not in gf.gen_methods:
            raise AnalysisError(f'CodeGen.{fn} is not a generator method any more')
        fnode = gf.methods[fn]
        params = [a.arg for a in fnode.args.args if a.arg.endswith('bubble')]
        seen = set()
        for p, ev in gf.inlined(fn):
            if p.outcome == 'raise':
                continue
            lin = Lin(fn, ev, params)
            lin.releasers = gf.releasers()
            probs = lin.run()
            if p.outcome == 'fall' and lin.stack and not probs:
                probs.append((f'end with live {lin.stack}', f'function ends while bubbles {lin.stack} are still allocated',
                              fnode.lineno))
            n_paths += 1
            n_prod += lin.n_prod
            arm = F.arm_of(ev, len(ev) - 1)
            for what, msg, line in probs:
                key = f'{fn}[{arm}]::{what}' if arm else f'{fn}::{what}'
                if key not in seen:
                    seen.add(key)
                    chk.fail('C08.L1', key, msg, GEN, line)
        if not seen:
            chk.ok('C08.L1', fn, 'all paths linear')
    chk.count('paths_simulated', n_paths)
    chk.count('bubble_productions', n_prod)
    chk.floor('bubble productions simulated', n_prod, 300)

    # ---------------- L2 ------------------------------------------------------------
    for arm, want in (('ReturnStatement', '0'), ('BreakStatement', '<array count recorded at loop entry>'),
                      ('ContinueStatement', '<array count recorded at loop entry>')):
        bad = None
        n = 0
        for p, ev in gf.inlined('gen_stmts'):
            arms = [e.text for e in ev if e.kind == 'case' and not e.origin]
            arms = [a for a in arms if a.split(': ', 1)[0] == arms[0].split(': ', 1)[0]]
            if p.outcome != 'return' or not arms or arm not in arms[-1]:
                continue
            n += 1
            last_case = max(i for i, e in enumerate(ev) if e.kind == 'case' and not e.origin)
            tail = ev[last_case:]
            its = [e for e in tail if (e.kind == 'emit' and e.ctor != 'asm.Metadata') or e.kind == 'sub']
            rs = [k for k, e in enumerate(its) if e.kind == 'sub' and e.func == 'self.reset_ap']
            js = [k for k, e in enumerate(its) if e.kind == 'emit' and e.ctor == 'asm.Jump' and src(e.args[0]) != 'stdlib.nonlocal_preempt']
            def arg_ok(k):
                a = src(its[k].args[0])
                if arm == 'ReturnStatement':
                    return a == '0'
                return gf.loop_read(a, ev, ev.index(its[k])) == 'arrays.count'
            if len(rs) != 1 or not arg_ok(rs[0]) or not js or rs[0] > js[-1]:
                bad = f'expected reset_ap({want}) before the exit goto; found {[src(its[k].args[0]) for k in rs]}'
                break
            # arrays are released only after everything that may still read them: the return value is evaluated first
            evals = [k for k, e in enumerate(its) if e.kind == 'sub' and e.func in ('self.get_expr_value', 'self.eval_expr', 'self.push_expr')]
            if evals and rs[0] < max(evals):
                bad = (f'reset_ap({want}) is emitted before the return value is evaluated: the local arrays are released while the '
                       'expression may still read them (and its temporaries overwrite them)')
                break
        chk.expect(bad is None and n > 0, 'C08.L2', f'gen_stmts[{arm}]', bad or f'{n} paths', GEN)
    try:
        _loop_attr = gf.loop_record().get('attr')
    except AnalysisError:
        _loop_attr = None
    for p, ev in gf.inlined('gen_block'):
        arms = [e.text for e in ev if e.kind == 'case' and not e.origin]
        arms = [a for a in arms if a.split(': ', 1)[0] == arms[0].split(': ', 1)[0]]
        if not arms or 'LoopBlock' not in arms[-1] or p.outcome == 'raise':
            continue
        idx = {k: None for k in ('cond', 'info', 'body', 'cont', 'back')}
        for i, e in enumerate(ev):
            if e.kind == 'sub' and e.func == 'self.bool_expr_branch' and idx['cond'] is None:
                idx['cond'] = i
            elif e.kind == 'call' and e.func in ('.append', '.appendleft') and e.recv is not None and src(e.recv) == 'self.loop_info':
                idx['info'] = i
            elif e.kind == 'assign' and _loop_attr is not None and e.target == _loop_attr and idx['info'] is None:
                idx['info'] = i
            elif e.kind == 'sub' and e.func == 'self.gen_block' and src(e.args[0]) == 'block.body':
                idx['body'] = i
            elif e.kind == 'sub' and e.func == 'self.gen_block' and src(e.args[0]) == 'block.cont':
                idx['cont'] = i
        ok = all(v is not None for k, v in idx.items() if k != 'back') and idx['cond'] < idx['info'] < idx['body'] < idx['cont']
        chk.expect(ok, 'C08.L2', 'gen_block[LoopBlock]::restore point',
                   'the loop record (restore point = self.stack) must be taken after the condition is evaluated and before the body', GEN)
        # shape of the loop
        its = [e for e in ev if (e.kind == 'emit' and e.ctor != 'asm.Metadata') or e.kind == 'sub']
        shape = [e.short() for e in its]
        want = ['asm.Label(loop_start)', None, None, 'asm.Label(loop_continue)', None, 'asm.Jump(loop_start)', 'asm.Halt()', 'asm.Label(loop_break)']
        ok = len(shape) == len(want) and all(w is None or w == s for w, s in zip(want, shape))
        chk.expect(ok, 'C08.L2', 'gen_block[LoopBlock]::shape', f'loop template is {shape}', GEN)

    # a release whose instructions are thrown away (`list(self.pop(b))`) frees nothing at run time: it is only right where the
    # block's clean-up is dead code anyway - the CodeBlock arm of gen_block, decided by the cleanup condition (L3 / C16.E6)
    rel_ = gf.releasers()
    n_sil = 0
    for fn_ in gf.gen_methods:
        seen_ = set()
        for p, ev in gf.inlined(fn_):
            if p.outcome == 'raise':
                continue
            for e in ev:
                if e.kind == 'silent' and e.func.startswith('self.') and e.func[5:] in rel_ and e.line not in seen_:
                    seen_.add(e.line)
                    n_sil += 1
                    arm_ = F.arm_of(ev, ev.index(e))
                    # (drained into a name that is then asserted to be empty: nothing was there to discard)
                    empty_ = isinstance(e.bound, str) and any(q.kind == 'assert' and _efg.assert_text(f'not {e.bound}') in q.text
                                                              for q in ev[ev.index(e):])
                    chk.expect((fn_ == 'gen_block' and arm_.startswith('CodeBlock')) or empty_, 'C08.L1', f'{fn_}[{arm_}]::{e.func} drained',
                               'the release is run for its book-keeping only and its instructions are discarded: arrays the bubble '
                               'owns are never freed at run time', GEN, e.line)
    chk.count('drained_releases', n_sil)

    # ---------------- L3 ---------------------------------------------------------------
    cb = [(p, ev) for p, ev in gf.inlined('gen_block')
          if any(e.kind == 'case' and 'CodeBlock' in e.text for e in ev) and p.outcome != 'raise']
    chk.floor('CodeBlock paths', len(cb), 2)
    for p, ev in cb:
        # the release of the block's bubble, by role: a releasing method (pop and whatever was split off from it) spliced in,
        # drained or called - or the tail of one written out in place (`self.stack = bubble.prev`)
        rel = gf.releasers()
        pops = [e for e in ev if e.kind in ('sub', 'silent', 'call') and e.func.startswith('self.') and e.func[5:] in rel
                and len(e.args) > rel[e.func[5:]] and src(e.args[rel[e.func[5:]]]) == 'bubble']
        inline = [e for e in ev if e.kind == 'assign' and e.target == 'self.stack' and src(e.value) == 'bubble.prev' and not
                  any(q.kind in ('sub', 'silent', 'call') and q in pops for q in ev if False)]
        # (an inlined helper's own `self.stack = bubble.prev` belongs to its call only when that call is an event of this path)
        inline = inline if not pops else []

        def dynamic(e):
            if e.func == 'self.pop':
                return src(e.kwargs.get('static')) == 'False'
            body = src(gf.methods[e.func[5:]])
            return 'reset_ap' in body and 'static_array_size' not in body
        ok = len(pops) + len(inline) == 1 and (bool(inline) or pops[0].kind != 'sub' or dynamic(pops[0])) and \
            (bool(inline) or pops[0].kind == 'sub' or pops[0].func != 'self.pop' or dynamic(pops[0]))
        gs = [e for e in ev if e.kind == 'sub' and e.func == 'self.gen_stmts']
        ok = ok and len(gs) == 1 and gs[0].bound == ('exited', 'bubble')
        chk.expect(ok, 'C08.L3', f'gen_block[CodeBlock]::pop ({pops[0].kind if pops else "none"})',
                   'the block must release exactly the bubble returned by gen_stmts, dynamically (static=False)', GEN)
        lv = [src(e.value) for e in ev if e.kind == 'assign' and e.target == 'self.local_vars']
        lvl = [e.func for e in ev if e.kind == 'call' and e.recv is not None and src(e.recv) == 'self.checkpoints']
        ok = lv == ['self.local_vars.new_child()', 'self.local_vars.parents'] and lvl == ['.push_level', '.pop_level']
        chk.expect(ok, 'C08.L3', 'gen_block[CodeBlock]::scope tables', f'local_vars {lv}, checkpoints {lvl}', GEN)
        sp = [e for e in ev if e.kind == 'assert' and _efg.assert_text('self.stack == start_point') in e.text]
        chk.expect(bool(sp), 'C08.L3', 'gen_block[CodeBlock]::stack restored', 'assert self.stack == start_point', GEN)
    from . import c16
    # the skip decision relies on the exit-mode analysis never under-reporting normal completion
    c16.run(repo, Remap(chk, {'C16.E6': 'C08.L3', 'C16.E1': 'C08.L3'}))

    # ---------------- L4 -----------------------------------------------------------------
    pp = gf.inlined('pop')
    for p, ev in pp:
        conds = _efg.Conds(ev)
        asg = [(e.target, src(e.value)) for e in ev if e.kind == 'assign' and e.target.startswith('self.')]
        ok = ('self.stack', 'bubble.prev') in asg and any(t.startswith('self.allocated_arrays[bubble.prev.array_num:]') for t, _ in asg)
        first = next((e for e in ev if e.kind == 'assert'), None)
        ok = ok and first is not None and first.text == _efg.assert_text('self.stack == bubble.cur')
        chk.expect(ok, 'C08.L4', 'pop::bookkeeping', f'pop must check LIFO order, truncate allocated_arrays and restore self.stack: {asg}', GEN)
        if conds.get('static') is True:
            subs = [e for e in ev if e.kind == 'emit' and e.ctor == 'asm.Sub']
            diffdef = [src(e.value) for e in ev if e.kind == 'assign' and e.target == 'diff']
            if conds.get('diff != 0'):
                ok = len(subs) == 1 and [src(a) for a in subs[0].args] == ['self.ap', 'asm.State(self.ap)', 'asm.IntLiteral(diff)'] \
                    and diffdef == ['bubble.static_array_size']
                chk.expect(ok, 'C08.L4', 'pop::static', 'static pop must emit Sub(ap, [ap], bubble.static_array_size)', GEN)
            else:
                chk.expect(not subs, 'C08.L4', 'pop::static-zero', 'no code when nothing was allocated', GEN)
        elif conds.get('static') is False:
            rs = [e for e in ev if e.kind == 'sub' and e.func == 'self.reset_ap']
            chk.expect(len(rs) == 1 and src(rs[0].args[0]) == 'bubble.prev.array_num', 'C08.L4', 'pop::dynamic',
                       'dynamic pop must reset ap to the first array allocated inside the bubble', GEN)
    for p, ev in gf.inlined('reset_ap'):
        conds = _efg.Conds(ev)
        if conds.get('array_idx < cur_arrays'):
            arr = [src(e.value) for e in ev if e.kind == 'assign' and e.target == 'array']
            to = [e for e in ev if e.kind == 'sub' and e.func == '.to']
            ok = arr == ['self.allocated_arrays[array_idx]'] and len(to) == 1 and src(to[0].recv) == 'array.origin' \
                and src(to[0].args[0]) == 'self.ap'
            chk.expect(ok, 'C08.L4', 'reset_ap', 'ap must be reloaded from the origin slot of allocated_arrays[array_idx]', GEN)
            ca = [src(e.value) for e in ev if e.kind == 'assign' and e.target == 'cur_arrays']
            chk.expect(ca == ['len(self.allocated_arrays)'], 'C08.L4', 'reset_ap::cur_arrays', f'{ca}', GEN)
    # origin slot written with [ap] before ap advances, in both allocation arms
    for armname in ('ArrayLiteral', 'ArrayInitializer'):
        n = 0
        bad = None
        for p, ev in gf.inlined('eval_expr'):
            arm = F.arm_of(ev, len(ev) - 1)
            if not arm.startswith(armname) or p.outcome == 'raise':
                continue
            adv = [i for i, e in enumerate(ev) if e.kind == 'emit' and e.ctor == 'asm.Add' and src(e.args[0]) == 'self.ap']
            if not adv:
                continue     # const-global route
            n += 1
            sv = [i for i, e in enumerate(ev) if e.kind == 'sub' and e.func == '.set' and e.recv is not None
                  and src(e.recv) == 'origin_bubble.value' and src(e.args[0]) == 'asm.State(self.ap)']
            if len(adv) != 1 or len(sv) != 1 or sv[0] > adv[0]:
                bad = 'origin slot must be written with [ap] exactly once, before the single ap advance'
                break
        chk.expect(bad is None and n > 0, 'C08.L4', f'eval_expr[{armname}]::origin before advance', bad or f'{n} paths', GEN)

    from . import c04
    c04._bookkeeping(repo, chk, 'C08.L4')

    # ---------------- L5 -------------------------------------------------------------------
    n = 0
    l5_bad = False
    for p, ev in gf.inlined('eval_func_call'):
        if p.outcome == 'raise':
            continue
        its = [e for e in ev if (e.kind == 'emit' and e.ctor != 'asm.Metadata') or e.kind == 'sub']
        adds = [k for k, e in enumerate(its) if e.kind == 'emit' and e.ctor == 'asm.Add' and src(e.args[0]) == 'self.fp']
        if not adds:
            continue
        n += 1
        ok = len(adds) == 2
        if ok:
            a, b = its[adds[0]], its[adds[1]]
            ok = [src(x) for x in a.args[1:]] == ['asm.State(self.fp)', 'asm.IntLiteral(-offset)'] and \
                 [src(x) for x in b.args[1:]] == ['asm.State(self.fp)', 'asm.IntLiteral(offset)']
            mid = [e.short() for e in its[adds[0] + 1:adds[1]]]
            ok = ok and mid == ['asm.Jump(label)', 'asm.Halt()', 'asm.Label(end_call)']
            off = [(i, src(e.value)) for i, e in enumerate(ev) if e.kind == 'assign' and e.target == 'offset']
            ra = [i for i, e in enumerate(ev) if e.kind == 'call' and e.func == 'self.reserve_word']
            ok = ok and len(off) == 1 and off[0][1] == 'self.stack.offset' and ra and off[0][0] < ra[0]
            st = [e for e in ev if e.kind == 'sub' and e.func == '.set' and src(e.recv) == 'bubble.value']
            ok = ok and st and src(st[0].args[0]) == 'end_call'
        if not ok:
            l5_bad = True
    chk.expect(not l5_bad, 'C08.L5', 'eval_func_call::fp rebase', 'expected Add(fp,[fp],-offset); goto(label); Label(end_call); '
               'Add(fp,[fp],+offset) with offset = frame offset before the return address was pushed '
               f'({n} call paths)', GEN)
    chk.floor('call paths with fp rebase', n, 2)
    from . import c02
    c02.run(repo, Remap(chk, {'C02.T2': 'C08.L5'}))
    chk.not_decided = ['run-time equality of (fp, ap) samples; it follows from L1-L5 only under the VM semantics']
