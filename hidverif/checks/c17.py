"""C17 - the write family (dispatch, library text structure, itoa template conformance)."""
from __future__ import annotations

import ast
import re

from .. import efg as _efg
from ..pyfacts import AnalysisError, src
from ..genfacts import GenFacts, GEN, STDLIB
from ..asmtext import AsmText, COND_HALTS, INVERSE, parse_offset
from ..textforms import TextForms
from ..consteval import Interp
from ..report import Remap
from .. import forms as F

PROGRAM = 'hidc/ast/program.py'


def routine_span(at, entry, entries):
    start = at.labels[entry]
    later = sorted(at.labels[e] for e in entries if e in at.labels and at.labels[e] > start)
    return start, (later[0] if later else len(at.ins))


def yields_on_paths(at, tf, entry, limit=64):
    """All acyclic paths from ``entry`` to a return (`j [r0]`), as tuples (decisions, yielded operands)."""
    out = []

    def walk(i, ys, dec, seen):
        if len(out) > limit or not isinstance(i, int):
            return
        if i in seen:
            return
        seen = seen | {i}
        x = at.ins[i]
        if x.op == 'yield':
            ys = ys + (x.args[0],)
        if x.op == 'j':
            role = tf.jumps.get(i)
            if role is None:
                return
            if role[0] == 'goto':
                if role[1].startswith('['):
                    out.append((dec, ys))
                    return
                walk(at.labels[role[1]], ys, dec, seen)
                return
            # branch: taken iff the check condition holds
            cc, args = role[2], role[3]
            walk(at.labels[role[1]] + 1, ys, dec + ((cc, args, True),), seen)
            walk(i + 2, ys, dec + ((cc, args, False),), seen)
            return
        walk(i + 1, ys, dec, seen)
    walk(at.labels[entry], (), (), frozenset())
    return out


def constant_substitution(repo, chk, rule):
    """A named constant used in an expression is replaced by a copy of its value placed at the use (PrimitiveValue.at): the
    copy has the class, the value and the type of the constant - the overload `write(K)` resolves to is the one of K's type.
    Interpreted for every primitive value class."""
    from ..consteval import Interp
    it = Interp(repo)
    ns = it.load('hidc/ast/__init__.py')
    lex = it.load('hidc/lexer/__init__.py')
    a = lex['Span'](lex['Cursor'](0, 0), lex['Cursor'](0, 1))
    b = lex['Span'](lex['Cursor'](3, 4), lex['Cursor'](3, 9))
    vals = [('int', ns['IntValue'](5, a)), ('int beyond a byte', ns['IntValue'](300, a)), ('char int', ns['IntValue'](65, a, is_char=True)),
            ('byte', ns['ByteValue'](44, a)), ('char byte', ns['ByteValue'](44, a, is_char=True)), ('bool', ns['BoolValue'](True, a)),
            ('string', ns['StringValue'](b'x,y', a))]
    n = 0
    for label, v in vals:
        n += 1
        try:
            r = v.at(b)
            ok = type(r) is type(v) and r.data == v.data and r.type == v.type and r.span == b and \
                getattr(r, 'is_char', None) == getattr(v, 'is_char', None)
            detail = f'{type(v).__name__}({v.data!r}) of type {v.type} becomes {type(r).__name__}({r.data!r}) of type {r.type}'
        except Exception as e:      # noqa: BLE001
            ok, detail = False, f'{type(e).__name__}: {e}'
        chk.expect(ok, rule, f'PrimitiveValue.at[{label}]', detail, 'hidc/ast/expressions.py')
    # a byte constant cast to int is an int constant (`'A' is int` is written as 65, not as the byte)
    DT = ns['DataType']
    for label, v in (('byte', ns['ByteValue'](65, a)), ('char byte', ns['ByteValue'](65, a, is_char=True))):
        try:
            r = v.cast(DT.INT)
            ok = type(r).__name__ == 'IntValue' and r.data == 65 and r.type == DT.INT
            detail = f'{type(r).__name__} of type {r.type}'
        except Exception as e:      # noqa: BLE001
            ok, detail = False, f'{type(e).__name__}: {e}'
        chk.expect(ok, rule, f'ByteValue.cast(int)[{label}]', detail, 'hidc/ast/expressions.py')
    # the documented builtin table: write and writeln take the same argument types (writeln also none)
    prog = it.load('hidc/ast/program.py')
    wl = {s_.param_types for s_ in prog['builtin_stubs'] if s_.name.base_name == 'writeln' and s_.param_types}
    wr = {s_.param_types for s_ in prog['builtin_stubs'] if s_.name.base_name == 'write'}
    chk.expect(wl == wr and any(s_.name.base_name == 'writeln' and not s_.param_types for s_ in prog['builtin_stubs']), rule,
               'builtin stubs: write / writeln twins', f'write only: {sorted(map(str, wr - wl))}; writeln only: {sorted(map(str, wl - wr))}',
               'hidc/ast/program.py')
    return n


def run(repo, chk):
    chk.explanation = (
        'Decided structurally: the dispatch from write/writeln overloads to inlined code or library routines is '
        'exhaustive over the storage classes a const byte array can have; write(bool) yields exactly t,r,u,e on the '
        'non-zero side and f,a,l,s,e on the zero side of a branch form; writeln adds exactly one newline; write(byte) '
        'is one yield; the byte-array loops count the length down by one while the pointer goes up by one and run iff '
        'the counter is positive; every routine returns through its return-address slot and writes only scratch '
        'registers; write(int) conforms to the itoa template (radix 10 in mod, div and the minimum-integer correction '
        'applied to the quotient, digit offset \'0\', sign \'-\', store after decrement, count from fp).  That the digits '
        'are right for every value is NOT decided (it is arithmetic of the VM).')
    chk.assumptions = ['Sphinx div/mod semantics on non-negative operands; two\'s complement negation of the minimum integer is itself']
    chk.rule('C17.D1', 'dispatch: every write/writeln overload is inlined or bound to the library routine for each concrete storage class')
    chk.rule('C17.D2', 'write(bool): "true" on the non-zero side, "false" on the zero side')
    chk.rule('C17.D3', 'writeln = write + exactly one newline; write(byte) = exactly one yield of the value')
    chk.rule('C17.D4', 'every routine returns through [fp - 1w]; routines write only r0/r1/r2 (and their own buffer)')
    chk.rule('C17.D5', 'byte-array / string loops: run iff counter > 0, counter -1, pointer +1, yield the loaded byte; operands from the right frame slots')
    chk.rule('C17.D6', 'write(int) itoa template: constants, register roles, minimum-integer correction on the quotient, count from fp')
    gf = GenFacts(repo)
    at = AsmText(repo)
    tf = TextForms(at)
    it = Interp(repo)
    stdlib = it.load(STDLIB)
    prog = it.load(PROGRAM)
    sym = it.load('hidc/codegen/symbols.py')
    astpkg = it.load('hidc/ast/__init__.py')
    DT = astpkg['DataType']
    AM = sym['AccessMode']
    CAT = sym['ConcreteArrayType']
    Ident = astpkg['Ident']
    funcs = stdlib['stdlib_funcs']

    # ---------------- D1 -------------------------------------------------------------
    want = {
        ('write', (CAT(DT.BYTE, AM.RC),)): 'write_const_byte_array',
        ('write', (CAT(DT.BYTE, AM.R),)): 'write_state_byte_array',
        ('write', (DT.STRING,)): 'write_string',
        ('write', (DT.BOOL,)): 'write_bool',
        ('write', (DT.INT,)): 'write_int',
        ('all_is_win', ()): 'all_is_win',
        ('all_is_broken', ()): 'all_is_broken',
    }
    got = {(k.name.base_name, k.concrete_params): v.label_name for k, v in funcs.items()}
    for key, lab in want.items():
        chk.expect(got.get(key) == lab, 'C17.D1', f'stdlib_funcs {key[0]}({", ".join(map(str, key[1]))})',
                   f'bound to {got.get(key)}, expected {lab}', STDLIB)
        chk.expect(lab in at.labels, 'C17.D1', f'library routine {lab}', 'label present in the text', STDLIB)
    chk.expect(set(got) == set(want), 'C17.D1', 'stdlib_funcs keys', f'unexpected entries {sorted(map(str, set(got) - set(want)))}', STDLIB)
    # storage classes: a const byte[] argument is never RW
    gen = it.load(GEN)
    AR = gen['ArrayRef']
    for acc, wantacc in ((AM.RW, AM.R), (AM.R, AM.R), (AM.RC, AM.RC)):
        r = AR(CAT(DT.BYTE, acc), None, None).make_const()
        chk.expect(r.type.access is wantacc, 'C17.D1', f'ArrayRef.make_const({acc.name})', f'-> {r.type.access.name}, expected {wantacc.name}', GEN)
    chk.expect(AM.RC.section.name == 'CONST' and AM.R.section.name == 'STATE' and AM.RW.section.name == 'STATE', 'C17.D1',
               'AccessMode.section', 'RC reads the const section, R/RW the state section', 'hidc/codegen/symbols.py')
    for p, ev in gf.inlined('eval_expr'):
        if F.arm_of(ev, len(ev) - 1).startswith('Volatile') and p.outcome != 'raise':
            rets = [src(e.value) for e in ev if e.kind == 'return']
            chk.expect(rets == ['bubble.with_value(bubble.value.make_const())'], 'C17.D1', 'eval_expr[Volatile]',
                       'a mutable array passed as const keeps its storage but becomes read-only (R)', GEN)
            break
    # abstract signature of a concrete one: R and RC both map to `const`
    CS = sym['ConcreteSignature']
    AT_ = astpkg['ArrayType']
    for acc, c in ((AM.R, True), (AM.RC, True), (AM.RW, False)):
        ap = CS(Ident('write'), (CAT(DT.BYTE, acc),)).abstract_params
        chk.expect(ap == (AT_(DT.BYTE, c),), 'C17.D1', f'abstract_params({acc.name})', f'{ap}', 'hidc/codegen/symbols.py')
    # the byte-array routines read the right section
    for lab, load in (('write_const_byte_array', 'lbc'), ('write_state_byte_array', 'lbs'), ('write_string', 'lbc')):
        if lab not in at.labels:
            continue
        seen, special = tf.reachable(lab)
        loads = {at.ins[i].op for i in seen if at.ins[i].op in ('lbc', 'lbs')}
        chk.expect(loads == {load}, 'C17.D1', f'{lab} element loads', f'{sorted(loads)}, expected {load}', STDLIB)

    # ---------------- D2 ----------------------------------------------------------------
    if 'write_bool' in at.labels:
        paths = yields_on_paths(at, tf, 'write_bool')
        table = {}
        for dec, ys in paths:
            text = ''.join(y.strip("'") for y in ys)
            table[tuple((cc, a, t) for cc, a, t in dec)] = text
        ok = len(paths) == 2
        for dec, text in table.items():
            if len(dec) != 1:
                ok = False
                continue
            cc, args, taken = dec[0]
            nonzero = (cc == 'hne' and taken) or (cc == 'heq' and not taken)
            if tuple(args) != ('[r0]', '0') or cc not in ('hne', 'heq'):
                ok = False
            elif text != ('true' if nonzero else 'false'):
                ok = False
        chk.expect(ok, 'C17.D2', 'stdlib:write_bool', f'paths {[(d, t) for d, t in table.items()]}: expected "true" iff [r0] != 0', STDLIB)
        i0 = at.labels['write_bool']
        chk.expect(str(at.ins[i0]) == 'lbso [r0], [fp], -1w - 1', 'C17.D2', 'stdlib:write_bool argument', f'{at.ins[i0]}: the bool is '
                   'the byte just below the return address', STDLIB)

    # ---------------- D3 ------------------------------------------------------------------
    n3 = 0
    for p, ev in gf.inlined('eval_func_call'):
        if p.outcome == 'raise':
            continue
        conds = _efg.Conds(ev)
        em = [e for e in ev if e.kind == 'emit' and e.ctor != 'asm.Metadata']
        if conds.get("name == ast.Ident('write') and abstract_params == (DataType.BYTE,)") or \
                (conds.get("name == ast.Ident('write')") and conds.get('abstract_params == (DataType.BYTE,)')):
            n3 += 1
            subs = [e for e in ev if e.kind == 'sub']
            ok = [e.short() for e in em] == ['asm.Yield(val)'] and subs and subs[0].func == 'self.get_expr_value' and subs[0].bound == 'val'
            chk.expect(ok, 'C17.D3', 'eval_func_call[write(byte)]', f'{[e.short() for e in em]}', GEN)
        elif conds.get("name == ast.Ident('writeln')"):
            n3 += 1
            ys = [e.short() for e in em if e.ctor == 'asm.Yield']
            ok = ys == ["asm.Yield(asm.IntLiteral(ord('\\n'), is_char=True))"] and em[-1].ctor == 'asm.Yield'
            if conds.get('len(args) != 0'):
                sub = [e for e in ev if e.kind == 'sub' and e.func == 'self.eval_func_call']
                ok = ok and len(sub) == 1 and [src(a) for a in sub[0].args] == ['DataType.EMPTY', "ast.Ident('write')", 'args']
                ok = ok and [e.short() for e in em] == ys
            else:
                ok = ok and len(em) == 1
            chk.expect(ok, 'C17.D3', f'eval_func_call[writeln, args={bool(conds.get("len(args) != 0"))}]',
                       f'writeln must be write(args) followed by exactly one newline: {[e.short() for e in em]}', GEN)
    chk.floor('inline write paths', n3, 3)
    # ... decided for every writeln stub and concrete argument tuples (also the corner values: the empty string, zero): every
    # path of eval_func_call whose decisions on name / parameter types / arguments hold for that call emits exactly one
    # newline, as its last output
    from ..consteval import Env as _Env
    ns_g = gf.module_ns()
    it_g = repo.__dict__['_gen_ns']['it']
    prog_ns = it_g.load('hidc/ast/program.py')
    lexm = it_g.load('hidc/lexer/__init__.py')
    sp_ = lexm['Span'](lexm['Cursor'](0, 0), lexm['Cursor'](0, 1))
    A_ = ns_g['ast']
    DT_ = ns_g['DataType']

    def examples(t):
        if t == DT_.STRING:
            return [A_.StringValue(b'', sp_), A_.StringValue(b'ab', sp_)]
        if t == DT_.INT:
            return [A_.IntValue(0, sp_), A_.IntValue(7, sp_)]
        if t == DT_.BOOL:
            return [A_.BoolValue(False, sp_), A_.BoolValue(True, sp_)]
        if t == DT_.BYTE:
            return [A_.ByteValue(0, sp_), A_.ByteValue(65, sp_)]
        return [A_.VariableLookup(A_.Variable('v', t, False), sp_)]
    n_wl = 0
    for stub in prog_ns['builtin_stubs']:
        if getattr(stub.name, 'base_name', None) not in ('writeln', 'write') or getattr(stub.name.flavor, 'name', 'NONE') != 'NONE':
            continue
        is_write = stub.name.base_name == 'write'
        import itertools as _it
        for args in _it.product(*[examples(t) for t in stub.param_types]):
            bad = None
            n_feasible = 0
            for pth, ev in gf.inlined('eval_func_call'):
                feasible = True
                for idx, e in enumerate(ev):
                    if e.kind != 'cond' or e.node is None:
                        continue
                    if 'BuiltinStub' in e.text and 'isinstance' in e.text:
                        # the call is one of a builtin stub: the lookup in the environment yields the stub
                        if not e.truth:
                            feasible = False
                            break
                        continue
                    try:
                        node = ast.parse(_efg.expand(ev, idx, e.node, keep=('name', 'abstract_params', 'args')), mode='eval').body
                    except SyntaxError:
                        continue
                    names = {n.id for n in ast.walk(node) if isinstance(n, ast.Name)}
                    if not names & {'name', 'abstract_params', 'args'} or 'self' in names or \
                            any(isinstance(n, (ast.Yield, ast.YieldFrom, ast.NamedExpr)) for n in ast.walk(node)):
                        continue
                    if not names - {'name', 'abstract_params', 'args'} <= set(ns_g) | set(dir(__import__('builtins'))):
                        continue
                    try:
                        v = bool(it_g.eval(node, _Env(ns_g, {'name': stub.name, 'abstract_params': stub.param_types, 'args': tuple(args)})))
                    except Exception:      # noqa: BLE001
                        continue
                    if v != e.truth:
                        feasible = False
                        break
                if not feasible or pth.outcome == 'raise':
                    continue
                n_feasible += 1
                em = [e for e in ev if e.kind == 'emit' and e.ctor != 'asm.Metadata']
                ys = [e.short() for e in em if e.ctor == 'asm.Yield']
                if is_write:
                    # write(x) is the byte yield (write(byte)) or the call of the library routine for x's own type: it is never
                    # re-dispatched to another overload (the digits of a constant are the routine's business, at every word size)
                    redispatch = [e for e in ev if e.kind == 'sub' and e.func == 'self.eval_func_call']
                    calls_lib = any(e.kind == 'call' and e.func == 'self.label_for_func' for e in ev)
                    if redispatch or not (calls_lib or ys):
                        bad = bad or ('a path feasible for this call ' + ('hands the value to another overload '
                                      f'({[src(a) for a in redispatch[0].args][:3]})' if redispatch else 'neither yields nor calls the library routine'))
                    continue
                if not (ys == ["asm.Yield(asm.IntLiteral(ord('\\n'), is_char=True))"] and em and em[-1].ctor == 'asm.Yield'):
                    bad = bad or f'a path feasible for this call emits {ys or "no output"} (line {ev[-1].line if ev else "?"})'
            n_wl += 1
            label = ', '.join(f'{type(a).__name__}({getattr(a, "data", "")!r})' for a in args)
            chk.expect(bad is None and n_feasible > 0, 'C17.D3' if not is_write else 'C17.D1', f'eval_func_call[{stub.name.base_name}({label})]',
                       bad or ('no feasible path' if not n_feasible else 'exactly one newline, last' if not is_write else 'own routine'), GEN)
    chk.floor('writeln calls decided', n_wl, 6)

    # ---------------- D4 --------------------------------------------------------------------
    entries = [v for v in want.values()] + ['stack_overflow', 'division_by_zero', 'out_of_bounds', 'nonlocal_preempt']
    for lab in ('write_const_byte_array', 'write_string', 'write_state_byte_array', 'write_bool', 'write_int'):
        if lab not in at.labels:
            continue
        seen, special = tf.reachable(lab)
        rets = [i for i in seen if at.ins[i].op == 'j' and at.ins[i].args[0].startswith('[')]
        ok = bool(rets)
        for i in rets:
            ok = ok and str(at.ins[i]) == 'j [r0]' and str(at.ins[i - 1]) == 'lwso [r0], [fp], -1w'
        chk.expect(ok, 'C17.D4', f'{lab} return', 'return must be `lwso [r0], [fp], -1w; j [r0]; halt`', STDLIB)
        dests = set()
        for i in seen:
            x = at.ins[i]
            if x.op in ('sws', 'sbs', 'swso', 'sbso', 'yield', 'sleep', 'flag', 'j', 'halt') or x.op in COND_HALTS:
                continue
            dests.add(x.args[0])
        chk.expect(dests <= {'[r0]', '[r1]', '[r2]'}, 'C17.D4', f'{lab} destinations',
                   f'routine writes {sorted(dests)}; only the scratch registers may be written (fp, ap and the caller\'s data stay untouched)', STDLIB)
    from . import c04
    c04._library_stores(repo, Remap(chk, {'C04.A6': 'C17.D4'}), gf)

    # ---------------- D5 ----------------------------------------------------------------------
    def loop_rule(loop_label, load_op, key):
        if loop_label not in at.labels:
            chk.fail('C17.D5', key, f'loop label {loop_label} missing', STDLIB)
            return
        i = at.labels[loop_label]
        body = [str(x) for x in at.ins[i:i + 7]]
        want_body = ['hle [r1], 0', f'{load_op} [r2], [r0]', 'yield [r2]', 'add [r0], [r0], 1', 'sub [r1], [r1], 1',
                     f'j {loop_label}', 'hgt [r1], 0']
        # order of the two updates may be swapped
        alt = list(want_body)
        alt[3], alt[4] = alt[4], alt[3]
        chk.expect(body in (want_body, alt), 'C17.D5', key,
                   f'loop body is {body}; expected: stop when the counter is <= 0, load, yield, pointer +1, counter -1, repeat while counter > 0', STDLIB)
    loop_rule('write_string_loop', 'lbc', 'stdlib:write_string_loop')
    loop_rule('write_state_byte_array_loop', 'lbs', 'stdlib:write_state_byte_array_loop')
    # entry sequences: operands from the frame slots, guarded entry into the loop
    entry_want = {
        'write_const_byte_array': (['lwso [r0], [fp], -3w', 'lwso [r1], [fp], -2w'], 'write_string_loop', 'write_string_done'),
        'write_state_byte_array': (['lwso [r0], [fp], -3w', 'lwso [r1], [fp], -2w'], 'write_state_byte_array_loop', 'write_state_byte_array_done'),
        'write_string': (['lwso [r0], [fp], -2w', 'lwc [r1], [r0]', 'add [r0], [r0], 1w'], 'write_string_loop', 'write_string_done'),
    }
    for lab, (pre, loop, done) in entry_want.items():
        if lab not in at.labels:
            continue
        i = at.labels[lab]
        seq = [str(x) for x in at.ins[i:i + len(pre) + 4]]
        wantseq = pre + [f'j {loop}', 'hgt [r1], 0', f'j {done}', 'halt']
        chk.expect(seq == wantseq, 'C17.D5', f'stdlib:{lab} entry',
                   f'{seq}; expected pointer from the origin slot, counter from the length slot, loop entered iff counter > 0', STDLIB)
    for done in ('write_string_done', 'write_state_byte_array_done'):
        if done in at.labels:
            i = at.labels[done]
            chk.expect([str(x) for x in at.ins[i:i + 3]] == ['lwso [r0], [fp], -1w', 'j [r0]', 'halt'], 'C17.D5', f'stdlib:{done}', 'return', STDLIB)

    # ---------------- D6 -------------------------------------------------------------------------
    if 'write_int' in at.labels:
        s, e = routine_span(at, 'write_int', list(at.labels))
        # the routine extends to the end of the text (sub-labels are internal)
        e = len(at.ins)
        ins = at.ins[s:e]
        strs = [str(x) for x in ins]
        key = 'stdlib:write_int'
        divs = [x for x in ins if x.op == 'div']
        mods = [x for x in ins if x.op == 'mod']
        ok = len(divs) == 2 and len(mods) == 2
        if ok:
            Q = divs[0].args[0]
            R = mods[0].args[0]
            ok = all(d.args == [Q, Q, '10'] for d in divs) and all(m.args == [R, Q, '10'] for m in mods) and Q != R
            chk.expect(ok, 'C17.D6', key + ' radix', f'div {[d.args for d in divs]} mod {[m.args for m in mods]}: quotient register '
                       'divided by 10 in place, remainder of the same register modulo 10', STDLIB)
            if ok:
                # each mod precedes its div (remainder taken before the quotient is overwritten)
                for m, d in zip(mods, divs):
                    chk.expect(m.idx + 1 == d.idx, 'C17.D6', key + ' mod before div', f'{m} ; {d}', STDLIB)
                # minimum-integer correction: sub Q,Q,10 before the first mod, add Q,Q,1 right after the first div
                first_mod, first_div = mods[0], divs[0]
                pre = at.ins[first_mod.idx - 1]
                post = at.ins[first_div.idx + 1]
                chk.expect(str(pre) == f'sub {Q}, {Q}, 10' and str(post) == f'add {Q}, {Q}, 1', 'C17.D6', key + ' minimum-integer path',
                           f'{pre} ... {post}: the most negative value is handled by subtracting 10 (wraps to a positive number), taking one '
                           f'digit, and adding the carry 1 back to the QUOTIENT {Q}', STDLIB)
                nxt = at.ins[post.idx + 1:post.idx + 3]
                chk.expect([str(x) for x in nxt] == ['j write_int_push', 'halt'], 'C17.D6', key + ' minimum-integer join', f'{[str(x) for x in nxt]}', STDLIB)
                # digit push
                if 'write_int_push' in at.labels:
                    i = at.labels['write_int_push']
                    push = [str(x) for x in at.ins[i:i + 5]]
                    P = '[r0]'
                    wantp = [f"add {R}, {R}, '0'", f'sub {P}, {P}, 1', f'sbs {P}, {R}', 'j write_int_get_digits', f'hne {Q}, 0']
                    chk.expect(push == wantp, 'C17.D6', key + ' digit push',
                               f'{push}; expected digit + \'0\', pointer decremented, byte stored, loop while quotient != 0', STDLIB)
                if 'write_int_get_digits' in at.labels and 'write_int_get_digits_body' in at.labels:
                    i = at.labels['write_int_get_digits']
                    chk.expect(str(at.ins[i]) == f'heq {Q}, 0' and at.labels['write_int_get_digits_body'] == i + 1 and
                               at.labels['write_int_get_digits_body'] == mods[1].idx, 'C17.D6', key + ' digit loop head', f'{at.ins[i]}', STDLIB)
                # sign handling
                head = [str(x) for x in at.ins[s:s + 8]]
                wanth = ['add [r0], [fp], -1w', f'lwso {Q}, [fp], -2w', 'j write_int_pos', f'hge {Q}, 0', "yield '-'", f'sub {Q}, 0, {Q}',
                         'j write_int_pos', f'hge {Q}, 0']
                chk.expect(head == wanth, 'C17.D6', key + ' sign',
                           f'{head}; expected: buffer below the return address, value from the argument slot, "-" only when negative, '
                           'negate, and the still-negative case goes to the minimum-integer path', STDLIB)
                if 'write_int_pos' in at.labels:
                    i = at.labels['write_int_pos']
                    chk.expect([str(x) for x in at.ins[i:i + 3]] == [f'hlt {Q}, 0', 'j write_int_get_digits_body', 'halt'], 'C17.D6',
                               key + ' non-negative entry', f'{[str(x) for x in at.ins[i:i+3]]}: zero must still produce one digit', STDLIB)
                tail = strs[-6:]
                wantt = ['sub [r1], [fp], [r0]', 'sub [r1], [r1], 1w', 'j write_state_byte_array_loop', 'hgt [r1], 0',
                         'j write_state_byte_array_done', 'halt']
                chk.expect(tail == wantt, 'C17.D6', key + ' output', f'{tail}; expected count = (fp - 1w) - pointer, then the state byte loop', STDLIB)
        else:
            chk.fail('C17.D6', key + ' radix', f'expected two div and two mod instructions, found {len(divs)}/{len(mods)}', STDLIB)
    # ---------------- D7 the data that write(string) / write(byte[]) reads ---------------------------
    chk.rule('C17.D7', 'the bytes and lengths the write routines read are the ones the program denotes: escaping of constants, '
                       'string table length prefix, string-to-byte-array conversion (shared with C13.B0/B2)')
    from . import c13
    c13.run(repo, Remap(chk, {'C13.B0': 'C17.D7', 'C13.B2': 'C17.D7', 'C13.B3': lambda c: 'C17.D7' if c.startswith('make_global') else None}))
    constant_substitution(repo, chk, 'C17.D1')
    # a string converted to a byte array stays in the const section: the reference is tagged RC, so that write(s is byte[]) is
    # dispatched to the routine that reads const memory
    for fn_ in ('eval_expr',):
        ok_ = False
        for n_ in ast.walk(gf.methods[fn_]):
            if isinstance(n_, ast.match_case) and 'StringToByteArray' in src(n_.pattern):
                calls_ = [c_ for st_ in n_.body for c_ in ast.walk(st_) if isinstance(c_, ast.Call) and src(c_.func) == 'ConcreteArrayType']
                ok_ = bool(calls_) and all(len(c_.args) == 2 and src(c_.args[1]) == 'AccessMode.RC' for c_ in calls_)
        chk.expect(ok_, 'C17.D1', 'eval_expr[StringToByteArray]::access mode', 'the converted array must be a ConcreteArrayType(BYTE, AccessMode.RC)', GEN)
    chk.not_decided = ['the digits printed for every representable integer (VM arithmetic)']
