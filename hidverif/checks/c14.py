"""C14 - compile-time evaluation is invisible (fold tables, literal casts, substitution guard, word-size flow)."""
from __future__ import annotations

import ast

from ..pyfacts import AnalysisError, src
from ..consteval import Interp
from ..report import Remap

OPERATORS = 'hidc/ast/operators.py'
EXPRESSIONS = 'hidc/ast/expressions.py'


def run(repo, chk):
    chk.explanation = (
        'Compile-time evaluation is invisible only if every fold computes what the run-time lowering computes.  '
        'Decided here: (1) the fold function of each operator is the one paired with its run-time instruction '
        '(shared rows with C09); (2) the simplify/evaluate methods, interpreted from their syntax trees, fold only '
        'when all operands are compile-time values and ?? only when both are; (3) literal casts to byte / bool '
        'and the logical folds, tabulated over boundary values, equal the run-time cast (low byte, non-zero); '
        '(4) const-variable substitution happens only for const (or global-scope) variables with primitive '
        'initialisers and clears literal shrinkability; (5) information flow: folds whose operator does not '
        'commute with reduction modulo 2^(8w) must receive the word size.  Agreement of folded and run-time '
        'VALUES in general is not decided.')
    chk.assumptions = ['the assembler reduces decimal immediates modulo 2^(8w) (so + - * folds are ring homomorphisms)']
    chk.rule('C14.F1', 'fold table: each operator folds with the Python function matching its run-time instruction')
    chk.rule('C14.F2', 'simplify folds only compile-time operands; ?? only when both sides are; division by zero becomes a compile error only via ZeroDivisionError')
    chk.rule('C14.F3', 'const substitution guard: only const / global-scope variables with primitive initialisers; substituted literals are not shrinkable')
    chk.rule('C14.W1', 'word-size non-interference: non-homomorphic folds (/ % < <= > >= == != and byte/bool casts) must take the word size as input')
    chk.rule('C14.W2', 'literal narrowing: compile-time int->byte keeps only the low byte, int->bool is non-zero, as the run-time casts do')
    from . import c09, c02, c16, c05
    chk.rule('C14.W3', 'run-time narrowing agrees with compile-time narrowing for every consumer: the value an `is byte` cast '
                       'hands on (including its fast value) is the low byte, as the folded literal is - shared with C09.M4')
    c09.run(repo, Remap(chk, {'C09.M1': 'C14.F1', 'C09.M4': 'C14.W3'}))
    c02.run(repo, Remap(chk, {'C02.T6': 'C14.F2'}))
    chk.rule('C14.F4', 'constant conditions: a loop whose condition folds to a constant is treated exactly like the run-time loop '
                       '(only a literally-true condition without break never completes) - shared with C16.E1/E2')
    c16.run(repo, Remap(chk, {'C16.E1': 'C14.F4', 'C16.E2': 'C14.F4'}))
    chk.rule('C14.F5', 'a constant operand never removes a run-time check: x / <constant> keeps the division guard - shared with C05.G4')
    c05.run(repo, Remap(chk, {'C05.G4': 'C14.F5'}))
    chk.rule('C14.F9', 'a literal element and a run-time element holding the same value give the same array: in bool array literals the '
                       'run-time elements are OR-ed into the byte pre-packed from the constant ones; `is_safe` (which decides whether a '
                       'pending operand may stay in a register) does not depend on an operand being a compile-time constant beyond '
                       'immediates - shared with C13.B1 and C09.M2')
    if chk.__class__.__name__ == 'Check':
        from . import c13
        c13.run(repo, Remap(chk, {'C13.B1': lambda c: 'C14.F9' if 'ArrayLiteral' in c or 'pack_bools' in c else None}))
        c09.run(repo, Remap(chk, {'C09.M2': lambda c: 'C14.F9' if c == 'is_safe' else None}))
    chk.rule('C14.F6', 'constant arms of the condition lowerings (truth_is_defeat / bool_expr_branch on a folded BoolValue) use the '
                       'same averting form and the same defeat target as their run-time arms - shared with C03.J1/J2')
    if chk.__class__.__name__ == 'Check':
        from .. import condsim
        condsim.decide(repo, chk, 'C14.F6', 'C14.F6', 'hidc/codegen/generator.py')
        from . import c03

        def cond_lowering(construct):
            return 'C14.F6' if construct.startswith(('truth_is_defeat::', 'bool_expr_branch::')) else None
        c03.run(repo, Remap(chk, {'C03.J1': cond_lowering, 'C03.J2': cond_lowering}))
    it = Interp(repo)
    ns = it.load('hidc/ast/__init__.py')
    lex = it.load('hidc/lexer/__init__.py')
    span = lex['Span'](lex['Cursor'](0, 0), lex['Cursor'](0, 1))
    DT = ns['DataType']
    IV, BV, ByV, SV = ns['IntValue'], ns['BoolValue'], ns['ByteValue'], ns['StringValue']
    Var, VL = ns['Variable'], ns['VariableLookup']
    dyn = VL(Var('x', DT.INT, False), span)
    dynb = VL(Var('p', DT.BOOL, False), span)

    # ---------------- F2 -------------------------------------------------------------
    for cls in ('Add', 'Sub', 'Mul', 'Div', 'Mod'):
        C = ns[cls]
        a = C(span, IV(7, span), IV(2, span)).simplify()
        b = C(span, IV(7, span), dyn).simplify()
        c = C(span, dyn, IV(2, span)).simplify()
        ok = isinstance(a, IV) and not isinstance(b, IV) and not isinstance(c, IV) and b.left.data == 7
        chk.expect(ok, 'C14.F2', f'{cls}.simplify', 'fold iff both operands are integer literals; otherwise the node is kept', OPERATORS)
    for cls in ('Lt', 'Le', 'Gt', 'Ge', 'Eq', 'Ne'):
        C = ns[cls]
        a = C(span, IV(7, span), IV(2, span)).simplify()
        b = C(span, IV(7, span), dyn).simplify()
        ok = isinstance(a, BV) and not isinstance(b, BV)
        chk.expect(ok, 'C14.F2', f'{cls}.simplify', 'fold iff both operands are compile-time values', OPERATORS)
        # grid agreement with the mathematical relation on small values (no wrap involved)
        import operator as op
        ref = {'Lt': op.lt, 'Le': op.le, 'Gt': op.gt, 'Ge': op.ge, 'Eq': op.eq, 'Ne': op.ne}[cls]
        grid = [-3, -1, 0, 1, 2, 3, 127, 128, 255]
        bad = [(x, y) for x in grid for y in grid if C(span, IV(x, span), IV(y, span)).simplify().data != ref(x, y)]
        chk.expect(not bad, 'C14.F2', f'{cls} fold grid', f'fold disagrees with the relation at {bad[:3]}', OPERATORS)
    for cls in ('And', 'Or'):
        C = ns[cls]
        a = C(span, BV(True, span), BV(False, span)).simplify()
        b = C(span, BV(True, span), dynb).simplify()
        chk.expect(isinstance(a, BV) and not isinstance(b, BV), 'C14.F2', f'{cls}.simplify',
                   'a logical operator with a run-time operand must be kept (the operand may have effects)', OPERATORS)
    n = ns['Not'](span, BV(True, span)).simplify()
    chk.expect(isinstance(n, BV) and n.data is False, 'C14.F2', 'Not.simplify', '', OPERATORS)
    for cls, val in (('Neg', -5), ('Pos', 5)):
        r = ns[cls](span, IV(5, span)).simplify()
        chk.expect(isinstance(r, IV) and r.data == val, 'C14.F2', f'{cls}.simplify', '', OPERATORS)
    # division by zero: compile error only when both constant
    for cls in ('Div', 'Mod'):
        C = ns[cls]
        try:
            C(span, IV(1, span), IV(0, span)).simplify()
            err = None
        except ns['TypeCheckError'] as e:
            err = str(e)
        kept = C(span, dyn, IV(0, span)).simplify()
        chk.expect(err is not None and not isinstance(kept, IV), 'C14.F2', f'{cls} by constant zero',
                   'constant/0 is a compile error (it would fault at run time); x/0 with run-time x must be left to the run-time check', OPERATORS)
        # ... and a division by a run-time value keeps its division whatever the dividend is (0 / d and 0 % d fault when d is 0)
        bad = None
        for c in (0, 1, -1, 5, 256):
            r = C(span, IV(c, span), dyn).simplify()
            if not isinstance(r, C) or getattr(r, 'right', None) is not dyn:
                bad = bad or f'{c} {cls} <run-time value> is folded to {type(r).__name__}({getattr(r, "data", "")}): the division_by_zero check disappears'
        chk.expect(bad is None, 'C14.F2', f'{cls} by a run-time value', bad or 'kept for every constant dividend', OPERATORS)

    _effects_kept(chk, ns, span)
    _generator_constant_arms(repo, chk)
    if chk.__class__.__name__ == 'Check':
        _typed_tree_effects(repo, chk)
        # a named constant substituted at its use keeps class, value and type (shared with C17.D1)
        from . import c17 as _c17
        _c17.constant_substitution(repo, chk, 'C14.W2')

    # ---------------- W2 literal casts ---------------------------------------------------
    bad = []
    for v in (0, 1, 2, 127, 128, 255, 256, 258, 511, 65535, -1, -128, -256):
        r = IV(v, span).cast(DT.BYTE)
        if not isinstance(r, ByV) or r.data != (v & 0xFF):
            bad.append((v, getattr(r, 'data', r)))
    chk.expect(not bad, 'C14.W2', 'IntValue.cast(byte)',
               f'compile-time `v is byte` must keep only the low byte like the run-time cast (byte access): (value, folded) = {bad[:5]}',
               EXPRESSIONS)
    bad = [(v, IV(v, span).cast(DT.BOOL).data) for v in (0, 1, 2, 256, -1) if IV(v, span).cast(DT.BOOL).data != (v != 0)]
    chk.expect(not bad, 'C14.W2', 'IntValue.cast(bool)', f'{bad}', EXPRESSIONS)
    chk.expect(BV(True, span).cast(DT.INT).data == 1 and BV(False, span).cast(DT.INT).data == 0
               and BV(True, span).cast(DT.BYTE).data == 1, 'C14.W2', 'BoolValue.cast', 'true is exactly 1', EXPRESSIONS)
    chk.expect(SV(b'', span).cast(DT.BOOL).data is False and SV(b'a', span).cast(DT.BOOL).data is True, 'C14.W2',
               'StringValue.cast(bool)', 'non-empty is true', EXPRESSIONS)
    r = ByV(200, span).cast(DT.INT)
    chk.expect(type(r).__name__ == 'IntValue' and r.data == 200, 'C14.W2', 'ByteValue.cast(int)', 'zero extension', EXPRESSIONS)

    # ---------------- F3 substitution guard -------------------------------------------------
    Env_ = ns['Environment']
    Decl = ns['Declaration']
    UN = ns['UnresolvedName']
    cur = lex['Cursor'](0, 0)

    def lookup(env, name):
        return VL(UN(name), span).evaluate(env)
    genv = Env_.empty()
    genv.vars['K'] = Decl(Var('K', DT.INT, True), IV(3, span), cur)          # const global, literal
    genv.vars['g'] = Decl(Var('g', DT.INT, False), IV(4, span), cur)         # mutable global, literal
    genv.vars['c'] = Decl(Var('c', DT.INT, True), dyn, cur)                  # const, non-literal initialiser
    fenv = genv.new_child(DT.EMPTY)
    fenv.vars['L'] = Decl(Var('L', DT.INT, True), IV(5, span), cur)          # const local
    fenv.vars['m'] = Decl(Var('m', DT.INT, False), IV(6, span), cur)         # mutable local
    r = lookup(fenv, 'K')
    chk.expect(isinstance(r, IV) and r.data == 3 and r.shrinkable is False, 'C14.F3', 'const global literal',
               'substituted by its value, no longer shrinkable to byte', EXPRESSIONS)
    r = lookup(fenv, 'g')
    chk.expect(isinstance(r, VL), 'C14.F3', 'mutable global inside a function', 'must stay a run-time lookup (it can be reassigned)', EXPRESSIONS)
    r = lookup(genv, 'g')
    chk.expect(isinstance(r, IV) and r.data == 4, 'C14.F3', 'mutable global at global scope', 'initialisers are evaluated before any code runs', EXPRESSIONS)
    r = lookup(fenv, 'c')
    chk.expect(isinstance(r, VL), 'C14.F3', 'const with run-time initialiser', 'not substituted', EXPRESSIONS)
    r = lookup(fenv, 'L')
    chk.expect(isinstance(r, IV) and r.data == 5 and r.shrinkable is False, 'C14.F3', 'const local literal', '', EXPRESSIONS)
    r = lookup(fenv, 'm')
    chk.expect(isinstance(r, VL), 'C14.F3', 'mutable local', 'not substituted', EXPRESSIONS)
    try:
        lookup(fenv, 'nope')
        und = False
    except ns['TypeCheckError']:
        und = True
    chk.expect(und, 'C14.F3', 'undeclared name', 'TypeCheckError', EXPRESSIONS)

    # ---------------- W1 word size flow --------------------------------------------------------
    mentions = []
    for rel in ('hidc/ast/operators.py', 'hidc/ast/expressions.py', 'hidc/ast/symbols.py', 'hidc/ast/program.py',
                'hidc/ast/statements.py', 'hidc/ast/blocks.py'):
        for node in ast.walk(repo.module(rel)):
            if isinstance(node, (ast.Name, ast.Attribute, ast.arg, ast.keyword)):
                t = getattr(node, 'id', None) or getattr(node, 'attr', None) or getattr(node, 'arg', None)
                if t and 'word' in t.lower():
                    mentions.append((rel, t, getattr(node, 'lineno', 0)))
    chk.expect(bool(mentions), 'C14.W1', 'typechecker folds :: word size input',
               'the typechecker never sees the target word size, so folds of operators that do not commute with reduction '
               'modulo 2^(8w) ( / % < <= > >= == != , `is bool`) are computed on unreduced integers: e.g. at 16 bits '
               '`40000 > 0` folds to true but is false at run time, `(32767+1)/2` folds to 16384 but is -16384 at run time',
               OPERATORS)
    chk.not_decided = ['agreement of folded and run-time values in general (needs the VM semantics)']


def _generator_constant_arms(repo, chk):
    """F8: where the generator itself evaluates a cast of a compile-time value (an immediate: a literal, or the length of
    an array whose size it knows), it must compute what the run-time instructions compute: int->bool is `!= 0`,
    int->byte is the low byte, byte->int the value itself, bool->int 0/1.  The arms are interpreted on immediates."""
    chk.rule('C14.F8', 'constant arms of the cast lowerings: for an immediate operand the generator computes v != 0 (to bool), '
                       'v mod 256 (to byte), v (to int) - exactly what its run-time instructions compute')
    from ..genfacts import new_codegen, GenFacts, GEN
    gf = GenFacts(repo)
    ns = gf.module_ns()
    it = repo.__dict__['_gen_ns']['it']
    lex = it.load('hidc/lexer/__init__.py')
    span = lex['Span'](lex['Cursor'](0, 0), lex['Cursor'](0, 1))
    CG, asm, A = ns['CodeGen'], ns['asm'], ns['ast']
    n = 0
    for ws in (2, 3):
        M = 1 << (8 * ws)
        for cast, ref in (('IntToBool', lambda v: int(v % M != 0)), ('IntToByte', lambda v: v % 256)):
            bad = None
            for v in (0, 1, 2, 3, 4, 6, 127, 128, 255, 256, 257, 510, 512, 32768, 65535, -1, -2, -256):
                try:
                    g = new_codegen(CG)
                    g.word_size = ws
                    g.stack = ns['StackPoint']()
                    g.allocated_arrays = []
                    g.checkpoints = ns['Tracker']()
                    g.unchecked = False
                    res = g.eval_expr(asm.LabelRef('r0'), A[cast](A.IntValue(v, span)) if isinstance(A, dict) else getattr(A, cast)(A.IntValue(v, span)), False)
                    val = res.value.value
                except Exception as e:      # noqa: BLE001
                    bad = bad or f'{cast} of {v}: {type(e).__name__}: {e}'
                    n += 1
                    continue
                n += 1
                if res.items or type(val).__name__ != 'IntLiteral' or (val.data - ref(v)) % M != 0 and val.data != ref(v):
                    bad = bad or f'{cast} of the immediate {v} gives {getattr(val, "data", val)!r} (instructions emitted: {len(res.items)}); run time gives {ref(v)}'
                    continue
                if cast == 'IntToBool' and val.data not in (0, 1):
                    bad = bad or f'IntToBool of {v} gives {val.data}: booleans are strictly 0 / 1'
            chk.expect(bad is None, 'C14.F8', f'eval_expr[{cast}] on an immediate, w={ws}', bad or '', GEN)
    chk.floor('constant cast evaluations', n, 60)


def _typed_tree_effects(repo, chk):
    """F10: whatever the typechecker folds, the calls the language evaluates are still in the typed tree.

    A catalogue of small programs is parsed and typechecked by the checker's interpreter (hidverif.frontend); each places
    calls of `tick()` / `flag()` / `b()` (functions that write) where the language always evaluates them - elements of array
    literals whose length or element is taken, operands of operators with absorbing or neutral constant partners, casts,
    array lengths, the evaluated side of short-circuit operators, live branches - or where it never does (dead side of a
    short-circuit, dead branches).  The number of such calls in the typed tree of the entry function must lie between the
    number always evaluated and the number written."""
    chk.rule('C14.F10', 'typed-tree effect census: after typechecking, every call the language always evaluates is still there '
                        '(array literal elements under .length / [i], operands next to absorbing constants, casts, live branches)')
    from ..frontend import Frontend, typecheck, walk_nodes
    fe = Frontend(repo)
    prelude = 'int tick() { write(1); return 1; }\nbool flag() { write(2); return true; }\nbyte b() { write(3); return 7 is byte; }\n'
    # (statement text, calls always evaluated, calls written)
    cat = [
        ('int n = [tick(), tick(), 7].length;', 2, 2), ('int n = [tick()].length;', 1, 1), ('int n = [flag(), true].length;', 1, 1),
        ('int n = [b(), b()].length;', 2, 2), ('int n = [tick(), 2][0];', 1, 1), ('int n = [tick(), 2][1];', 1, 1),
        ('int n = [2, tick()][0];', 1, 1), ('byte c = "abc"[tick()];', 1, 1), ('int n = [[tick()].length][0];', 1, 1),
        ('int n = tick() * 0;', 1, 1), ('int n = 0 * tick();', 1, 1), ('int n = tick() - tick();', 2, 2), ('int n = tick() / 1;', 1, 1),
        ('int n = tick() % 1;', 1, 1), ('int n = 0 / tick();', 1, 1), ('bool q = tick() == tick();', 2, 2), ('bool q = tick() < tick();', 2, 2),
        ('bool q = flag() and false;', 1, 1), ('bool q = flag() or true;', 1, 1), ('bool q = true and flag();', 1, 1),
        ('bool q = false or flag();', 1, 1), ('bool q = false and flag();', 0, 1), ('bool q = true or flag();', 0, 1),
        ('bool q = not flag();', 1, 1), ('bool q = flag() == true;', 1, 1), ('bool q = tick() is bool;', 1, 1),
        ('byte c = tick() is byte;', 1, 1), ('int n = b() is int;', 1, 1), ('int n = flag() is int;', 1, 1), ('int n = -tick();', 1, 1),
        ('int n = +tick();', 1, 1), ('int n = - - tick();', 1, 1), ('int a[tick()];', 1, 1), ('int n = (tick() + 0) * 1;', 1, 1),
        ('tick();', 1, 1), ('tick() + 1;', 1, 1), ('[tick()];', 1, 1), ('[tick(), 1].length;', 1, 1),
        ('if (true) { tick(); }', 1, 1), ('if (false) { tick(); }', 0, 1), ('if (false) { } else { tick(); }', 1, 1),
        ('while (false) { tick(); }', 0, 1), ('if (flag()) { }', 1, 1), ('if (flag() and false) { tick(); }', 1, 2),
        ('for (int i = tick(); false; ) { }', 1, 1), ('int n = 1; n += tick() * 0;', 1, 1), ('int n = [1, 2][tick() * 0];', 1, 1),
        ('write([tick(), 3].length);', 1, 1), ('writeln("" , );' if False else 'write("ab"[tick() * 0]);', 1, 1),
    ]
    names = {'tick', 'flag', 'b'}
    n = 0
    bad = []
    for stmt, lo, hi in cat:
        res = typecheck(fe, 'empty @is_you() { ' + stmt + ' }', prelude=prelude)
        n += 1
        if isinstance(res, tuple):
            bad.append((stmt, f'the catalogue program does not typecheck: {res[1]}: {res[2]}'))
            continue
        entry = [f for f in res.func_decls if getattr(f.name, 'base_name', '') == 'is_you']
        if len(entry) != 1:
            bad.append((stmt, 'entry function not found in the typed tree'))
            continue
        calls = [x for x in walk_nodes(entry[0].body) if type(x).__name__ == 'FuncCall' and getattr(x.func, 'base_name', None) in names]
        if not lo <= len(calls) <= hi:
            bad.append((stmt, f'{len(calls)} of the {hi} calls are left in the typed tree; {lo} are always evaluated'))
    for stmt, why in bad[:6]:
        chk.fail('C14.F10', f'`{stmt}`', why, 'hidc/ast/expressions.py')
    if not bad:
        chk.ok('C14.F10', 'effect census', f'{n} programs: every always-evaluated call survives typechecking')
    chk.count('effect_census_programs', n)
    chk.floor('effect census programs', n, 40)


def _contains(obj, target, depth=0):
    """Does the (interpreted dataclass) tree `obj` contain `target` by identity?"""
    if obj is target:
        return True
    if depth > 12:
        return False
    if isinstance(obj, (tuple, list)):
        return any(_contains(x, target, depth + 1) for x in obj)
    d = getattr(obj, '__dict__', None)
    if d and not isinstance(obj, type):
        return any(_contains(v, target, depth + 1) for v in d.values())
    return False


def _effects_kept(chk, ns, span):
    """F7: compile-time evaluation never deletes an operand that has effects.

    For every operator class registered in binary_ops / unary_ops (and ??), every position, every effectful
    operand shape (a call, and calls nested at depth 1-2 under the casts and operators the typechecker itself
    inserts) and every constant partner value, the simplified node must still contain the effectful operand."""
    chk.rule('C14.F7', 'folding never deletes effects: simplify() of any operator with a call-containing operand (at any depth) and '
                       'any constant partner still contains that operand; casts of such operands keep them')
    DT = ns['DataType']
    IV, BV = ns['IntValue'], ns['BoolValue']
    FC, Ident = ns['FuncCall'], ns['Ident']
    ops = ns['operators'] if 'operators' in ns else None
    binary = dict(ns.get('binary_ops') or getattr(ops, 'binary_ops', {}))
    unary = dict(ns.get('unary_ops') or getattr(ops, 'unary_ops', {}))
    if not binary or not unary:
        raise AnalysisError('operator registries binary_ops / unary_ops not found')
    classes = {c.__name__: c for c in list(binary.values()) + list(unary.values())}
    if 'Speculation' in ns:
        classes['Speculation'] = ns['Speculation']
    logical = {n for n, c in classes.items() if issubclass(c, ns['LogicalOp'])} if 'LogicalOp' in ns else {'And', 'Or', 'Not'}

    def effectful(kind):
        ci = FC(Ident('f'), (), span, DT.INT)
        cb = FC(Ident('g'), (), span, DT.BOOL)
        shapes_int = [ci, classes['Neg'](span, ci), classes['Add'](span, ci, IV(1, span)), classes['Mul'](span, IV(0, span), ci)]
        shapes_bool = [cb, classes['Not'](span, cb), ns['IntToBool'](ci), classes['Lt'](span, ci, IV(1, span)),
                       classes['Not'](span, ns['IntToBool'](ci)), classes['And'](span, BV(True, span), cb)]
        return shapes_bool if kind == 'bool' else shapes_int

    consts = {'bool': [BV(False, span), BV(True, span)],
              'int': [IV(v, span) for v in (0, 1, -1, 2, 255, 256)]}
    n = 0
    for name, C in sorted(classes.items()):
        kind = 'bool' if name in logical else 'int'
        is_unary = C in unary.values() and name not in ('Speculation',)
        bad = None
        for E in effectful(kind):
            if is_unary:
                trials = [((E,), 'operand')]
            else:
                trials = [((E, c), f'left, right={c.data!r}') for c in consts[kind]] + \
                         [((c, E), f'right, left={c.data!r}') for c in consts[kind]] + [((E, E), 'both')]
            for args, where in trials:
                try:
                    r = C(span, *args).simplify()
                except ns['TypeCheckError']:
                    continue          # rejecting is not deleting
                n += 1
                if not _contains(r, E):
                    bad = f'{name}({where}) with effectful operand {type(E).__name__} simplifies to {type(r).__name__}: the call is deleted'
                    break
            if bad:
                break
        chk.expect(bad is None, 'C14.F7', f'{name}.simplify keeps effectful operands', bad or '', OPERATORS)
    # casts the typechecker applies to operands
    for T in (DT.BOOL, DT.INT, DT.BYTE):
        bad = None
        for kind in ('int', 'bool'):
            for E in effectful(kind):
                try:
                    r = E.cast(T)
                except Exception as ex:      # noqa: BLE001 - an unsupported cast is a rejection, not a deletion
                    if type(ex).__name__ in ('TypeCheckError', 'InternalCompilerError', 'AssertionError'):
                        continue
                    raise
                n += 1
                if not _contains(r, E):
                    bad = f'{type(E).__name__}.cast({T}) gives {type(r).__name__} without the operand'
        chk.expect(bad is None, 'C14.F7', f'cast to {T} keeps effectful operands', bad or '', 'hidc/ast/expressions.py')
    chk.floor('effect-preservation trials', n, 300)
