"""C04 - checked builds are memory safe, even with the stack exactly full (stack-accounting rules)."""
from __future__ import annotations

import ast
import re

from .. import efg as _efg
from ..pyfacts import AnalysisError, src, parent
from ..genfacts import new_codegen, GenFacts, GEN, STDLIB
from ..asmtext import AsmText, parse_offset, STORES, STORES_OFF
from ..report import Remap
from .. import forms as F

TRACKER = 'hidc/codegen/tracker.py'
STACK_MOVERS = {'reserve_byte', 'reserve_word', 'create_new_stack_array', 'pop', 'at_offset', 'push_expr'}
RESERVING_SUBS = {'self.get_expr_value', 'self.eval_expr', 'self.push_expr', 'self.eval_func_call', 'self.push_value',
                  'self.array_lookup', 'self.bool_expr_branch', 'self.truth_is_defeat', 'self.array_assignment'}
RESERVING_CALLS = {'self.reserve_word', 'self.reserve_byte', 'self.reserve_type'}


def fn_of(node):
    p = node
    while p is not None and not isinstance(p, ast.FunctionDef):
        p = parent(p)
    return p.name if p is not None else '?'


def initialiser_reserve(repo, chk, rule='C04.A14'):
    """The overflow guard of a run-time sized array keeps free exactly what the frame still needs: the ArrayInitializer arm
    of eval_expr is interpreted on synthetic frames (offset O, static arrays A already allocated and included in ap), the
    frame then grows to a maximum static size M, the tracker level is closed, and the amount the guard subtracted from
    fp - ap must be M - A (everything static the function will ever need, minus the static arrays ap already contains)."""
    gf = GenFacts(repo)
    ns = gf.module_ns()
    it = repo.__dict__['_gen_ns']['it']
    lex = it.load('hidc/lexer/__init__.py')
    span = lex['Span'](lex['Cursor'](0, 0), lex['Cursor'](0, 1))
    CG, asm, A = ns['CodeGen'], ns['asm'], ns['ast']
    DT = ns['DataType']
    bad = None
    n = 0
    for ws in (2, 3):
        for el in ('INT', 'BYTE', 'BOOL'):
            for off, arr in ((0, 0), (2 * ws, 0), (4 * ws, 6), (3 * ws + 1, 10)):
                for grow in (0, 1, 3 * ws + 5):
                    try:
                        g = new_codegen(CG)
                        g.word_size = ws
                        n_arr = 1 if arr else 0
                        g.stack = ns['StackPoint'](off, n_arr, arr)
                        g.allocated_arrays = [object()] * n_arr
                        g.checkpoints = ns['Tracker']()
                        g.checkpoints.update(g.stack.static_size)
                        g.unchecked = False
                        node = A.ArrayInitializer(A.ArrayType(getattr(DT, el), False), A.VariableLookup(A.Variable('n', DT.INT, False), span))
                        g.local_vars = {'n': asm.Indirect(asm.Section.STATE, asm.State(asm.LabelRef('fp')), asm.WordOffset(-3))} \
                            if hasattr(asm, 'Indirect') else {}
                        res = g.eval_expr(asm.LabelRef('r0'), node, True)
                        dyn = [op for ins in res.items for op in vars(ins).values() if type(op).__name__ == 'DynamicValue']
                        if len(dyn) != 1:
                            bad = bad or f'{el}[] at w={ws}: {len(dyn)} deferred operands in the arm (expected the one of the overflow guard)'
                            continue
                        s_emit = g.stack.static_size
                        top = max(s_emit, off + arr) + grow
                        g.checkpoints.update(top)
                        g.checkpoints.pop_level()
                        got = dyn[0]._data
                        want = max(top, s_emit) - arr
                        n += 1
                        if got != want:
                            bad = bad or (f'{el}[] at w={ws}, frame offset {off}, static arrays {arr}, later maximum {top}: the guard keeps '
                                          f'{got} free, the frame still needs {want} (maximum static size minus the static arrays ap contains)')
                    except Exception as e:      # noqa: BLE001
                        bad = bad or f'{el}[] at w={ws}: {type(e).__name__}: {str(e)[:160]}'
    chk.expect(bad is None, rule, 'eval_expr[ArrayInitializer]::overflow guard reserve', bad or f'{n} frames: reserve = max static size - static arrays', GEN)
    return n


def _deferred(repo, chk):
    chk.rule('C04.A13', 'deferred values are closed: a lambda in the code generator reads its parameters, module-level names and '
                        'locals bound exactly once before it - never `self` state, which changes before the value is finalised')
    import builtins as _b
    n = 0
    for rel in sorted(repo.files):
        if not rel.startswith('hidc/codegen/'):
            continue
        tree = repo.module(rel)
        module_names = {t.id for st in tree.body for t in ast.walk(st) if isinstance(t, ast.Name) and isinstance(t.ctx, ast.Store)} | \
            {a.asname or a.name.split('.')[0] for st in tree.body if isinstance(st, (ast.Import, ast.ImportFrom)) for a in st.names} | \
            {st.name for st in tree.body if isinstance(st, (ast.FunctionDef, ast.ClassDef))}
        for fn in ast.walk(tree):
            if not isinstance(fn, (ast.FunctionDef, ast.AsyncFunctionDef)):
                continue
            for lam in [x for x in ast.walk(fn) if isinstance(x, ast.Lambda)]:
                if any(lam in list(ast.walk(inner)) for inner in ast.walk(fn)
                       if isinstance(inner, (ast.FunctionDef, ast.AsyncFunctionDef)) and inner is not fn):
                    continue
                n += 1
                params = {a.arg for a in lam.args.args + lam.args.kwonlyargs}
                free = {x.id for x in ast.walk(lam.body) if isinstance(x, ast.Name) and isinstance(x.ctx, ast.Load)} - params
                key = f'{rel}::{fn.name}::lambda@{src(lam)[:50]}'
                bad = []
                for name in sorted(free):
                    if name == 'self':
                        bad.append('reads `self` state when it is finalised, not when it is created')
                        continue
                    if name in module_names or hasattr(_b, name):
                        continue
                    binds = [x for x in ast.walk(fn) if isinstance(x, ast.Name) and x.id == name and isinstance(x.ctx, ast.Store)]
                    args = [a for a in fn.args.args + fn.args.kwonlyargs if a.arg == name]
                    if len(binds) + len(args) != 1:
                        bad.append(f'captures `{name}`, which is bound {len(binds) + len(args)} times in {fn.name}')
                    elif binds and (binds[0].lineno, binds[0].col_offset) > (lam.lineno, lam.col_offset):
                        bad.append(f'captures `{name}`, which is bound after the lambda')
                    elif binds:
                        # a loop variable or a name bound inside a loop that also contains the lambda changes per iteration
                        p = parent(binds[0])
                        while p is not None and p is not fn:
                            if isinstance(p, (ast.For, ast.While)) and lam in list(ast.walk(p)) and False:
                                bad.append(f'captures `{name}` bound in a loop')
                            p = parent(p)
                chk.expect(not bad, 'C04.A13', key, '; '.join(bad) or 'closed over values fixed at emission', rel, lam.lineno)
    chk.count('deferred_lambdas', n)


def run(repo, chk):
    chk.explanation = (
        'The guards can only protect memory if the compile-time accounting they compare against is right.  This '
        'check decides the accounting discipline: who may move the frame pointer model (self.stack) and that every '
        'growth is recorded in the checkpoint tracker before the new slot can be used; that `ap` is advanced only '
        'when the bytes are accounted for; that guards dominate the operations they protect (shared with C05); that '
        'index scaling / size functions agree across the five places that classify element types; that every store '
        'the generator can emit has a frame slot, the array being built, or a guarded element of a mutable array as '
        'its target; and that stores of the hand-written library stay inside the callee frame or inside an extent the '
        'caller has reserved.  A numeric worst-case bound for an arbitrary program is not decided.')
    chk.assumptions = ['L2 skip-guard lemma; unsigned comparison semantics of hgeu/hleu/hltu',
                       'decimal digits of a w-byte two\'s complement integer (with sign) computed by the checker for w in 2,3,4,8']
    chk.rule('C04.A1', 'who may move the frame: self.stack assigned only by the allocator functions; every growth is followed by checkpoints.update(static_size) before the slot is usable')
    chk.rule('C04.A2', 'ap moves only after it is accounted for: no stack-reserving event between an ap advance and the book-keeping that records it')
    chk.rule('C04.A3', 'guard dominance (entry guard, array-initialiser guards, index guards) - shared with C05.G4/G5')
    chk.rule('C04.A4', 'scale agreement: bool (i>>3, bit i&7, size (n+7)>>3), byte (i, n), word (i*w, n*w) in every classifier')
    chk.rule('C04.A6', 'library stores confined to the callee frame or to an extent reserved by the caller')
    chk.rule('C04.A7', 'store-base provenance: generator stores target frame slots, the array under construction, or guarded elements of state arrays')
    gf = GenFacts(repo)

    # ---------------- A1 -----------------------------------------------------------
    # the allocator functions, plus helpers that did not exist when the rules were written and are called only from them
    from ..canon import roles as _roles
    movers = set(STACK_MOVERS)
    changed = True
    while changed:
        changed = False
        for cand, cfn in gf.methods.items():
            if cand in movers or f'{GEN}::CodeGen.{cand}' in _roles():
                continue
            callers = {fname for fname, fn in gf.methods.items() for x in ast.walk(fn)
                       if isinstance(x, ast.Attribute) and x.attr == cand and src(x.value) == 'self' and fname != cand}
            if callers and callers <= movers:
                movers.add(cand)
                changed = True
    n_assign = 0
    for fname, fn in gf.methods.items():
        for n in ast.walk(fn):
            if isinstance(n, (ast.Assign, ast.AugAssign)):
                tg = n.targets if isinstance(n, ast.Assign) else [n.target]
                if any(src(t) == 'self.stack' for t in tg):
                    n_assign += 1
                    v = src(n.value)
                    # the paired static-size accounting around array-literal elements: +E and -E in the same function (the
                    # literal arm of eval_expr, or a context manager / helper split off from it)
                    m_ = re.fullmatch(r'self\.stack\.add\(static_array_size=(-?)(.+)\)', v)
                    others = {src(x.value) for x in ast.walk(fn) if isinstance(x, ast.Assign) and any(src(t) == 'self.stack' for t in x.targets)}
                    paired = bool(m_) and (fname == 'eval_expr' or f'{GEN}::CodeGen.{fname}' not in _roles()) and \
                        f'self.stack.add(static_array_size={"" if m_.group(1) else "-"}{m_.group(2)})' in others
                    # a release (`self.stack = b.prev`, the tail of pop written out or split off) moves the model down; that it
                    # releases a live bubble, in order, is the typestate rule C08.L1
                    release = isinstance(n, ast.Assign) and isinstance(n.value, ast.Attribute) and n.value.attr == 'prev' and \
                        isinstance(n.value.value, ast.Name)
                    chk.expect(fname in movers or paired or release, 'C04.A1', f'{fname}::self.stack = {v[:50]}',
                               'the frame model may only be moved by the allocator functions (or by the paired '
                               'static-size accounting around array-literal elements)', GEN, n.lineno)
    chk.floor('assignments to self.stack', n_assign, 6)
    _reserve_slots(repo, chk, gf)
    for p in gf.paths('create_new_stack_array'):
        ev = p.events
        conds = _efg.Conds(ev)
        a = [i for i, e in enumerate(ev) if e.kind == 'assign' and e.target == 'self.stack']
        u = [i for i, e in enumerate(ev) if e.kind == 'call' and e.func == '.update' and src(e.recv) == 'self.checkpoints'
             and [src(x) for x in e.args] == ['self.stack.static_size']]
        static = conds.get('static_size is not None')
        if static:
            ok = len(a) == 1 and len(u) >= 1 and a[0] < u[0] if conds.get('static_size') else True
            chk.expect(ok, 'C04.A1', 'create_new_stack_array::static size recorded',
                       'after self.stack includes the new static array size it must be recorded with checkpoints.update '
                       '(an update before the assignment records the old size)', GEN)
        cur = [src(e.value) for e in ev if e.kind == 'assign' and e.target == 'cur']
        chk.expect(cur == ['bubble.cur.add(array_num=1, static_array_size=static_size)'], 'C04.A1',
                   'create_new_stack_array::cur', f'{cur}', GEN)
    # frame accessors are only built by the reserve functions
    for fname, fn in gf.methods.items():
        for n in ast.walk(fn):
            if isinstance(n, ast.Call) and src(n.func) in ('asm.Indirect', 'asm.IndirectByte'):
                chk.expect(fname in ('reserve_byte', 'reserve_word'), 'C04.A1', f'{fname}::{src(n)[:50]}',
                           'fp-relative accessors may only be created by reserve_byte/reserve_word', GEN, n.lineno)
    # Tracker.update / add / pop_level semantics: decided by interpretation over all operation sequences (_tracker below)

    _tracker(repo, chk)
    _bookkeeping(repo, chk)
    # a guarded index must not be re-read after its check (shared with C01.R1: pending operands are protected)
    if chk.__class__.__name__ == 'Check':
        chk.rule('C04.A9', 'checked values are the used values: an index / operand is not re-read from a mutable location after its '
                           'guard, held registers are not clobbered between guard and use, and word-wide results are only computed into word cells (shared with C01.R1/R2)')
        from . import c01
        c01.run(repo, Remap(chk, {'C01.R1': 'C04.A9', 'C01.R2': 'C04.A9'}))

    # ---------------- A2 -------------------------------------------------------------
    for armname in ('ArrayLiteral', 'ArrayInitializer'):
        n = 0
        findings = set()
        for p, ev in gf.inlined('eval_expr'):
            arm = F.arm_of(ev, len(ev) - 1)
            if not arm.startswith(armname) or p.outcome == 'raise':
                continue
            adv = [i for i, e in enumerate(ev) if e.kind == 'emit' and e.ctor == 'asm.Add' and src(e.args[0]) == 'self.ap']
            if not adv:
                continue
            n += 1
            rec = [i for i, e in enumerate(ev) if e.kind == 'call' and e.func == 'self.create_new_stack_array']
            if len(rec) != 1 or rec[0] < adv[0]:
                findings.add('ap advanced without (or after) create_new_stack_array')
                continue
            accounted = False
            for e in ev[adv[0] + 1:rec[0]]:
                if e.kind == 'assign' and e.target == 'self.stack' and 'static_array_size=' in src(e.value):
                    # +static_size: the array is counted from here on; -static_size: no longer counted
                    accounted = 'static_array_size=-' not in src(e.value).replace(' ', '')
                # (raising the recorded maximum once with checkpoints.update is NOT accounting: what is reserved afterwards is
                # measured from self.stack, which then still lacks the array)
                reserving = (e.kind == 'sub' and e.func in RESERVING_SUBS) or (e.kind == 'call' and e.func in RESERVING_CALLS)
                if reserving and not accounted:
                    findings.add(e.short().split('=')[-1].strip()[:60])
        key = f'eval_expr[{armname}]::ap advance'
        if findings:
            chk.fail('C04.A2', key, 'stack can be reserved between the ap advance and the book-keeping that records the new '
                     f'array ({sorted(findings)[:3]}): temporaries and nested frames are then checked against a maximum that '
                     'does not include the array, so with an exactly-full stack they overlap it', GEN)
        else:
            chk.expect(n > 0, 'C04.A2', key, f'{n} paths', GEN)

    # ---------------- A3 (shared) --------------------------------------------------------
    from . import c05
    c05.run(repo, Remap(chk, {'C05.G4': 'C04.A3', 'C05.G5': 'C04.A3', 'C05.G2': 'C04.A3'}))

    # ---------------- A8 saved try context ---------------------------------------------------
    chk.rule('C04.A8', 'the stop handler restores fp from try_fp BEFORE it reloads ap from the fp-relative save slot (otherwise ap is '
                       'loaded from a slot of whatever frame defeat happened in) - shared with C02.T2')
    from . import c02
    c02.run(repo, Remap(chk, {'C02.T2': 'C04.A8'}))

    # ---------------- A10 global arrays ----------------------------------------------------
    if chk.__class__.__name__ == 'Check':
        chk.rule('C04.A10', 'global arrays: the length word the index guards compare against is the validated unsigned length that '
                            'sized the reserved storage (a negative constant length must not survive as a length literal) - '
                            'shared with C13.B3')
        from . import c13

        def global_arrays(construct):
            return 'C04.A10' if construct.startswith(('make_global', 'add_global_array')) else None
        c13.run(repo, Remap(chk, {'C13.B3': global_arrays}))
        # the entry point's array parameter: its length word is $argc minus the number of scalar parameters wherever the
        # array stands in the parameter list (too large a length lets guarded accesses run past the argument table)
        chk.rule('C04.A11', 'entry array parameter: length = $argc - number of scalar parameters, origin = its own argument table '
                            '(interpreted for the array at every position) - shared with C01.A1')
        from . import c01 as _c01
        _c01.entry_binding(repo, Remap(chk, {'C01.A1': lambda c: None if c.endswith('::entry specialisation') else 'C04.A11'}), gf)
        # accessors of another function's frame must not survive into the next function (they point far outside its frame)
        _c01.fresh_function_state(repo, Remap(chk, {'C01.S1': 'C04.A11'}), gf)

        # byte-sized cells are written with byte stores: a word move into a bool / byte global overwrites its neighbours.
        # What every accessor's get / set / to emits is tabulated in C09 (rendering) for every accessor class
        chk.rule('C04.A12', 'accessors write exactly their cell: byte accessors store with byte stores, word accessors with word '
                            'moves (interpreted for every accessor class, aliased registers included) - shared with C09.M1')
        from .c09 import rendering as _rendering
        _rendering(repo, Remap(chk, {'C09.M1': lambda c: 'C04.A12' if c.startswith('asm.') and any(
            c.endswith(x) or (x + ' ') in c for x in ('.to', '.get', '.set')) else None}), 'C09.M1')
    # deferred values: what a lambda handed to a deferred value (Tracker checkpoint .map) computes is fixed when the
    # instruction is emitted - it must not read compiler state, which has moved on by the time the value is finalised
    _deferred(repo, chk)
    chk.rule('C04.A14', 'run-time sized arrays: the overflow guard subtracts from fp - ap exactly the static size the frame still needs '
                        '(its eventual maximum minus the static arrays already counted in ap); interpreted on synthetic frames')
    chk.floor('initialiser reserve frames', initialiser_reserve(repo, chk), 40)

    # ---------------- A4 scale agreement ---------------------------------------------------
    _scale(repo, chk, gf)
    if chk.__class__.__name__ == 'Check':
        # the largest admissible length of each element type keeps the byte size below the signed maximum (global arrays are
        # validated against it at compile time) - shared with C18.D4
        from . import c18 as _c18
        _c18.run(repo, Remap(chk, {'C18.D4': lambda c: 'C04.A4' if c.startswith('max_length') else None}))

    # ---------------- A6 library stores -----------------------------------------------------
    _library_stores(repo, chk, gf)

    # ---------------- A7 store-base provenance ------------------------------------------------
    n_st = 0
    for fname, fn in gf.methods.items():
        for n in ast.walk(fn):
            if isinstance(n, ast.Call):
                f = src(n.func)
                if f in ('asm.Sbso', 'asm.Swso', 'asm.Sws', 'asm.Sbs') or f in ('so_instr',):
                    if f == 'so_instr' and fname != 'eval_expr':
                        continue
                    n_st += 1
                    base = src(n.args[0]) if n.args else ''
                    ok = fname == 'eval_expr' and base == 'asm.State(self.ap)' and src(n.args[1]) == 'asm.IntLiteral(offset)'
                    chk.expect(ok, 'C04.A7', f'{fname}::{src(n)[:60]}',
                               'direct store instructions may only fill the array under construction at [ap + negative offset]', GEN, n.lineno)
                if isinstance(n.func, ast.Attribute) and n.func.attr in ('sbo', 'swo', 'sb', 'sw') and src(n.func.value) == 'section':
                    n_st += 1
                    ok = fname == 'array_assignment' and src(n.args[0]) == 'origin' and src(n.args[1]) == 'offset'
                    chk.expect(ok, 'C04.A7', f'{fname}::{src(n)[:60]}',
                               'section stores may only write the guarded element (origin, offset) in array_assignment', GEN, n.lineno)
                if f == 'asm.Mov' and n.args:
                    dest = src(n.args[0])
                    ok = dest in ('self.r0', 'self.r1', 'self.r2', 'r_out', 'self.ap', 'self.fp', 'self.try_fp', 'self.defeat',
                                  'self.immed')
                    chk.expect(ok, 'C04.A7', f'{fname}::Mov({dest}, ..)', 'Mov destination must be a register-block word', GEN, n.lineno)
    chk.floor('store constructions', n_st, 4)
    # ArrayLiteral offsets run from -static_size to 0
    for p, ev in gf.inlined('eval_expr'):
        arm = F.arm_of(ev, len(ev) - 1)
        if not arm.startswith('ArrayLiteral') or p.outcome == 'raise':
            continue
        offs = [src(e.value) for e in ev if e.kind == 'assign' and e.target == 'offset' and e.text != 'aug']
        if not offs:
            continue
        asserts = [e.text for e in ev if e.kind == 'assert']
        ok = all(o == '-static_size' for o in offs) and _efg.assert_text('offset == 0') in asserts
        ss = [src(e.value) for e in ev if e.kind == 'assign' and e.target == 'static_size']
        ok = ok and ss == ['self.array_size(el_type, length)']
        adv = [e for e in ev if e.kind == 'emit' and e.ctor == 'asm.Add' and src(e.args[0]) == 'self.ap']
        ok = ok and len(adv) == 1 and src(adv[0].args[2]) == 'asm.IntLiteral(static_size)'
        if not ok:
            chk.fail('C04.A7', 'eval_expr[ArrayLiteral]::offsets', f'offsets {offs} asserts {asserts} static_size {ss}: elements must be '
                     'stored at [ap - static_size .. ap) after ap advanced by static_size', GEN)
            break
    else:
        chk.ok('C04.A7', 'eval_expr[ArrayLiteral]::offsets', 'elements fill [ap - static_size, ap)')
    # _store_const refuses const-section stores
    sc = repo.find_func('hidc/codegen/asm.py', '_store_const')
    chk.expect(any(isinstance(n, ast.Raise) for n in ast.walk(sc)), 'C04.A7', 'asm._store_const', 'const-section stores must raise', 'hidc/codegen/asm.py')
    sect = repo.class_assign('hidc/codegen/asm.py', 'Section', 'CONST')
    chk.expect(src(sect).count('_store_const') == 4, 'C04.A7', 'Section.CONST', 'all four store slots of the const section must be _store_const', 'hidc/codegen/asm.py')
    chk.not_decided = ['a quantitative worst-case stack bound for an arbitrary program',
                       'reads of uninitialised string elements (excluded by the property)']


def _bookkeeping(repo, chk, rule='C04.A1'):
    """StackPoint / Bubble arithmetic, interpreted over a small grid (they are pure value classes)."""
    import itertools
    from ..consteval import Interp
    it = Interp(repo)
    gen = it.load(GEN)
    SP, Bu = gen.get('StackPoint'), gen.get('Bubble')
    if SP is None or Bu is None:
        raise AnalysisError('StackPoint / Bubble not found')
    grid = [(0, 0, 0), (2, 0, 0), (5, 1, 0), (5, 1, 4), (9, 2, 7)]
    bad = None
    for a in grid:
        p = SP(*a)
        if (p.offset, p.array_num, p.static_array_size) != a or p.static_size != a[0] + a[2] or bool(p) != any(a):
            bad = f'StackPoint{a}: fields {(p.offset, p.array_num, p.static_array_size)} static_size {p.static_size} bool {bool(p)}'
        for d in grid:
            q = p.add(offset=d[0], array_num=d[1], static_array_size=d[2])
            if (q.offset, q.array_num, q.static_array_size) != (a[0] + d[0], a[1] + d[1], a[2] + d[2]):
                bad = f'StackPoint{a}.add{d} = {(q.offset, q.array_num, q.static_array_size)}'
    chk.expect(bad is None, rule, 'StackPoint arithmetic', bad or 'field-wise sums; static_size = offset + static_array_size', GEN)
    bad = None
    pts = [SP(*a) for a in grid]
    for i, j in itertools.combinations(range(len(pts)), 2):
        b = Bu(pts[i], pts[j])
        try:
            fs, sa, al = b.frame_size, b.static_array_size, b.array_allocations
        except AssertionError:
            continue
        want = (grid[j][0] - grid[i][0], grid[j][2] - grid[i][2], grid[j][1] - grid[i][1])
        if (fs, sa, al) != want or b.vacuous or b.has_array != (al > 0 or sa > 0):
            bad = f'Bubble({grid[i]}, {grid[j]}): frame_size/static/allocations {(fs, sa, al)} expected {want}'
        for k in range(len(pts)):
            if k > j:
                c = b + Bu(pts[j], pts[k])
                if c.prev != pts[i] or c.cur != pts[k]:
                    bad = 'adjacent bubbles must merge to (first.prev, second.cur)'
        try:
            b + Bu(pts[i], pts[j])
            if pts[i] != pts[j]:
                bad = 'non-adjacent bubbles merged'
        except ValueError:
            pass
    chk.expect(Bu(pts[1], pts[1]).vacuous and bad is None, rule, 'Bubble arithmetic', bad or 'differences of the two stack points; + only for adjacent bubbles', GEN)


def _reserve_slots(repo, chk, gf):
    # reserve_byte / reserve_word, interpreted at every word size from several starting frames: the frame model grows by
    # exactly the slot size, the new static size is reported to the checkpoint tracker before the accessor is handed
    # out, and the accessor is the new slot [fp - offset] in the state section with the slot's width
    ns = gf.module_ns()
    asmv = ns['asm']

    class _Rec:
        def __init__(self):
            self.calls = []

        def update(self, v):
            self.calls.append(v)
    for fname, width, acc_cls in (('reserve_byte', lambda ws: 1, 'IndirectByte'), ('reserve_word', lambda ws: ws, 'Indirect')):
        bad = None
        try:
            for ws in (2, 3, 4, 8):
                for start in (0, 1, ws, 3 * ws + 1):
                    g = new_codegen(ns['CodeGen'])
                    g.word_size = ws
                    g.stack = ns['StackPoint']().add(offset=start)
                    g.checkpoints = _Rec()
                    before = g.stack
                    b = getattr(g, fname)()
                    acc = b.value
                    ok = g.stack.offset == start + width(ws) and g.checkpoints.calls == [g.stack.static_size] and \
                        b.prev == before and b.cur == g.stack and type(acc).__name__ == acc_cls and \
                        acc.section == asmv.Section.STATE and acc.base == asmv.State(ns['CodeGen'].fp) and \
                        getattr(acc.offset, 'data', None) == -(start + width(ws))
                    if not ok:
                        bad = (f'word size {ws}, frame offset {start}: new offset {g.stack.offset} (expected {start + width(ws)}), '
                               f'tracker told {g.checkpoints.calls} (expected [{g.stack.static_size}]), accessor {acc!r}')
                        break
                if bad:
                    break
        except Exception as e:      # noqa: BLE001
            bad = f'{type(e).__name__}: {e}'
        chk.expect(bad is None, 'C04.A1', f'{fname}::growth recorded', bad or 'self.stack advanced by the slot size, recorded with '
                   'checkpoints.update(static_size), accessor = [fp - new offset] in state', GEN)


def _tracker(repo, chk):
    """Tabulate the checkpoint tracker against its specification: the value a guard is finalised with is the
    maximum of the value at add() time and every update() until the level it was added in is popped."""
    import itertools
    from ..consteval import Interp
    it = Interp(repo)
    it.step_limit = 50_000_000
    ns = it.load(TRACKER)
    Tr = ns.get('Tracker')
    if Tr is None:
        raise AnalysisError('Tracker class not found')
    vals = (1, 2, 3)
    ops = [('A', v) for v in vals] + [('U', v) for v in vals] + [('P', 0), ('Q', 0)]
    n = 0
    bad = None
    for length in range(1, 6 if getattr(chk, 'tier', 'quick') == 'thorough' else 5):
        for seq in itertools.product(ops, repeat=length):
            depth = 0
            ok = True
            for o, _ in seq:
                if o == 'P':
                    depth += 1
                elif o == 'Q':
                    if depth == 0:
                        ok = False
                        break
                    depth -= 1
            if not ok or not any(o == 'A' for o, _ in seq):
                continue
            n += 1
            t = Tr()
            dyn = []          # (dyn value, level at add, reference max)
            level = 0
            live = []
            try:
                for o, v in seq:
                    if o == 'A':
                        d = t.add(v)
                        live.append([d, level, v, False])
                    elif o == 'U':
                        t.update(v)
                        for rec in live:
                            if not rec[3]:
                                rec[2] = max(rec[2], v)
                    elif o == 'P':
                        t.push_level()
                        level += 1
                    elif o == 'Q':
                        t.pop_level()
                        for rec in live:
                            if rec[1] == level:
                                rec[3] = True
                        level -= 1
                while level >= 0:
                    t.pop_level()
                    for rec in live:
                        if rec[1] == level:
                            rec[3] = True
                    level -= 1
                got = [rec[0]._data for rec in live]
                want = [rec[2] for rec in live]
            except Exception as e:      # noqa
                got, want = f'{type(e).__name__}: {e}', None
            if got != want:
                bad = (seq, got, want)
                break
        if bad:
            break
    chk.count('tracker_sequences', n)
    chk.expect(bad is None, 'C04.A1', 'Tracker add/update/pop_level semantics',
               f'after {bad[0] if bad else ""} the guards were finalised with {bad[1] if bad else ""}, specification says {bad[2] if bad else ""}: '
               'a guard must see the maximum frame size reached while its level is open', TRACKER)


def _scale(repo, chk, gf):
    # array_size / frame_size, interpreted as methods of an unconstructed CodeGen at every word size (module-level constants
    # they may use are resolved in the interpreted module)
    ns = gf.module_ns()
    DT = ns['DataType']
    for w in (2, 3, 4, 8):
        try:
            g = new_codegen(ns['CodeGen'], word_size=w)
            for n in (0, 1, 7, 8, 9, 17):
                got = {dt.value: g.array_size(dt, n) for dt in (DT.BOOL, DT.BYTE, DT.INT, DT.STRING)}
                want = {'bool': (n + 7) >> 3, 'byte': n, 'int': n * w, 'string': n * w}
                chk.expect(got == want, 'C04.A4', f'array_size(n={n}, w={w})', f'{got} expected {want}', GEN)
            fr = {dt.value: g.frame_size(dt) for dt in (DT.BOOL, DT.BYTE, DT.INT, DT.STRING, DT.EMPTY)}
            chk.expect(fr == {'bool': 1, 'byte': 1, 'int': w, 'string': w, 'empty': 0}, 'C04.A4', f'frame_size(w={w})', f'{fr}', GEN)
        except Exception as e:   # noqa
            raise AnalysisError(f'cannot tabulate array_size/frame_size: {type(e).__name__}: {e}')
    # emitted scaling
    for p, ev in gf.inlined('get_array_size'):
        conds = _efg.Conds(ev)
        em = [e.short() for e in ev if e.kind == 'emit']
        if conds.get('isinstance(length, asm.IntLiteral)'):
            continue
        if conds.get('data_type == DataType.BOOL'):
            chk.expect(em == ['asm.Add(r_out, length, asm.IntLiteral(7))', 'asm.Asr(r_out, asm.State(r_out), asm.IntLiteral(3))'],
                       'C04.A4', 'get_array_size[bool]', f'{em}', GEN)
        else:
            chk.expect(em == ['asm.Mul(r_out, length, asm.IntLiteral(self.frame_size(data_type)))'], 'C04.A4',
                       'get_array_size[other]', f'{em}', GEN)
    for fname in ('array_lookup', 'array_assignment'):
        seen = set()
        for p, ev in gf.inlined(fname):
            if p.outcome == 'raise':
                continue
            conds = _efg.Conds(ev)
            em = [e.short() for e in ev if e.kind == 'emit']
            text = ' ; '.join(em)
            if any('DataType.STRING' in t and v for t, v in conds.items()):
                ok = 'asm.Add(self.r1, index, asm.IntLiteral(self.word_size))' in text and 'asm.Lbco(r_out, source, asm.State(self.r1))' in text
                kind = 'string'
            elif any('DataType.BOOL' in t and v for t, v in conds.items()):
                if fname == 'array_lookup':
                    ok = all(x in text for x in ('asm.And(self.r2, index, asm.IntLiteral(7))', 'asm.Asr(self.r1, index, asm.IntLiteral(3))',
                                                 'section.lbo(self.r1, origin, asm.State(self.r1))',
                                                 'asm.Asr(self.r1, asm.State(self.r1), asm.State(self.r2))',
                                                 'asm.And(r_out, asm.State(self.r1), asm.IntLiteral(1))'))
                else:
                    ok = all(x in text for x in ('asm.Asr(self.r2, index, asm.IntLiteral(3))', 'asm.And(self.r1, index, asm.IntLiteral(7))',
                                                 'section.lbo(self.r0, origin, offset)', 'asm.Asl(self.r2, rhs, bit)',
                                                 'asm.Asl(self.r1, asm.IntLiteral(1), bit)',
                                                 'asm.Xor(self.r1, asm.State(self.r1), asm.IntLiteral(-1))',
                                                 'section.sbo(origin, offset, asm.State(self.r2))'))
                kind = 'bool'
            elif any('byte_sized' in t and v for t, v in conds.items()):
                if fname == 'array_lookup':
                    ok = 'section.lbo(r_out, origin, index)' in text and 'asm.Mul(' not in text
                else:
                    ok = 'so_instr(origin, offset, rhs)' in text and 'asm.Mul(' not in text and \
                        any(e.kind == 'assign' and e.target == 'so_instr' and src(e.value) == 'section.sbo' for e in ev)
                kind = 'byte'
            else:
                if fname == 'array_lookup':
                    ok = 'asm.Mul(self.r1, index, asm.IntLiteral(self.word_size))' in text and 'section.lwo(r_out, origin, asm.State(self.r1))' in text
                else:
                    ok = 'asm.Mul(self.r1, index, asm.IntLiteral(self.word_size))' in text and \
                        any(e.kind == 'assign' and e.target == 'so_instr' and src(e.value) == 'section.swo' for e in ev) and \
                        any(e.kind == 'assign' and e.target == 'lo_instr' and src(e.value) == 'section.lwo' for e in ev)
                kind = 'word'
            if (kind, ok) not in seen:
                seen.add((kind, ok))
                chk.expect(ok, 'C04.A4', f'{fname}[{kind}]', f'index scaling / access width for {kind} elements is off: {text[:300]}', GEN)
    # ArrayLiteral strides
    for p, ev in gf.inlined('eval_expr'):
        arm = F.arm_of(ev, len(ev) - 1)
        if not arm.startswith('ArrayLiteral') or p.outcome == 'raise':
            continue
        conds = _efg.Conds(ev)
        if conds.get('el_type == DataType.BOOL') is False:
            st = [src(e.value) for e in ev if e.kind == 'assign' and e.target == 'stride']
            so = [src(e.value) for e in ev if e.kind == 'assign' and e.target == 'so_instr']
            want = (['1'], ['asm.Sbso']) if conds.get('el_type.byte_sized') else (['self.word_size'], ['asm.Swso'])
            if (st, so) != want:
                chk.fail('C04.A4', 'eval_expr[ArrayLiteral]::stride', f'stride {st} store {so}, expected {want}', GEN)
                break
    else:
        chk.ok('C04.A4', 'eval_expr[ArrayLiteral]::stride', 'byte: 1/Sbso, word: word_size/Swso')


def _library_stores(repo, chk, gf):
    at = AsmText(repo)
    stores = [x for x in at.ins if x.op in STORES or x.op in STORES_OFF]
    chk.floor('library store instructions', len(stores), 1)
    for x in stores:
        routine = at.routine_of(x.idx)
        # find the entry routine name (walk back to a label in stdlib_funcs)
        i = x.idx
        entry = None
        while i >= 0:
            for lab in at.ins[i].labels:
                if lab.startswith('write_') and not re.search(r'_(loop|done|pos|push|get_digits|get_digits_body|is_true)$', lab):
                    entry = lab
            if entry:
                break
            i -= 1
        addr = x.args[0]
        m = re.fullmatch(r'\[(r\d)\]', addr)
        key = f'stdlib:{entry}::{x}'
        if not m:
            chk.fail('C04.A6', key, 'store address is not a scratch register: cannot bound it', STDLIB)
            continue
        reg = f'[{m.group(1)}]'
        # all definitions of the address register inside the routine
        start = at.labels.get(entry, 0)
        end = x.idx
        nxt = [at.labels[l] for l in at.labels if at.labels[l] > x.idx and l.startswith('write_') and
               not re.search(r'_(loop|done|pos|push|get_digits|get_digits_body|is_true)$', l)]
        stop = min(nxt) if nxt else len(at.ins)
        defs = [y for y in at.ins[start:stop] if y.args and y.args[0] == reg and y.op not in STORES and y.op not in STORES_OFF
                and y.op not in ('yield', 'sleep', 'j') and not y.op.startswith('h')]
        init = [y for y in defs if y.op == 'add' and y.args[1] == '[fp]']
        steps = [y for y in defs if y not in init]
        ok_shape = len(init) == 1 and parse_offset(init[0].args[2]) is not None and \
            all(y.op == 'sub' and y.args[1] == reg and y.args[2] == '1' for y in steps) and steps
        if not ok_shape:
            chk.fail('C04.A6', key, f'store pointer {reg} is not a descending byte cursor anchored at fp: defs {[str(d) for d in defs]}', STDLIB)
            continue
        a, b = parse_offset(init[0].args[2])
        # descending buffer starting at fp + a*w + b: the number of bytes written is the number of digits (+ sign handled by yield)
        # bytes available inside the callee frame below that anchor: frame = RA + one word argument
        sig_slots = 2      # RA + int argument
        inside = (sig_slots + a) if b == 0 else None
        reserved = _caller_reservation(gf, entry)
        worst = {w: len(str(1 << (8 * w - 1))) for w in (2, 3, 4, 8)}   # digits of the most negative value (sign is yielded, not stored)
        need = {w: worst[w] - (inside or 0) * w for w in worst}
        ok = reserved is not None and all(reserved(w) >= need[w] for w in worst)
        chk.expect(ok, 'C04.A6', key,
                   f'{entry} builds its digits downwards from fp{a:+d}w: {inside} word(s) of that lie inside its own frame, the rest '
                   f'(up to { {w: need[w] for w in need} } bytes for word sizes 2,3,4,8) is below the frame; the caller reserves '
                   f'{"nothing" if reserved is None else {w: reserved(w) for w in worst}} for it, so with an exactly-full stack the digits '
                   'overwrite the array region', STDLIB, at.base_line + x.lineno)


def _caller_reservation(gf, entry):
    """Does eval_func_call reserve extra bytes below the callee frame for this routine?  Recognised idiom:
    ``self.checkpoints.update(self.stack.static_size + K * self.word_size)`` guarded by a test naming the routine."""
    fn = gf.methods['eval_func_call']
    for n in ast.walk(fn):
        if isinstance(n, ast.Call) and src(n.func) == 'self.checkpoints.update' and n.args:
            a = n.args[0]
            if isinstance(a, ast.BinOp) and isinstance(a.op, ast.Add) and src(a.left) == 'self.stack.static_size':
                extra = a.right
                # guarded by a condition mentioning the routine or write(int)
                p = parent(n)
                guard = ''
                tests = []
                while p is not None and not isinstance(p, ast.FunctionDef):
                    if isinstance(p, ast.If):
                        guard += src(p.test)
                        tests.append(p.test)
                    p = parent(p)
                # the guard must name THIS routine: a label comparison whose constant side evaluates to the routine's label
                # (or a test on the signature write(int), which the dispatch table rule C17.D1 ties to the routine)
                names_entry = False
                from ..consteval import Env as _Env
                ns_ = gf.module_ns()
                it_ = gf.repo.__dict__['_gen_ns']['it']
                for t_ in tests:
                    for c_ in ast.walk(t_):
                        if isinstance(c_, ast.Compare) and len(c_.ops) == 1 and isinstance(c_.ops[0], ast.Eq):
                            for side in (c_.left, c_.comparators[0]):
                                try:
                                    v_ = it_.eval(side, _Env(ns_, {}))
                                except Exception:      # noqa: BLE001
                                    continue
                                if getattr(v_, 'label_name', None) == entry:
                                    names_entry = True
                if names_entry or ("'write'" in guard and 'DataType.INT' in guard):
                    text = src(extra)
                    m = re.fullmatch(r'(\d+) \* self\.word_size', text) or re.fullmatch(r'self\.word_size \* (\d+)', text)
                    if m:
                        k = int(m.group(1))
                        return lambda w, k=k: k * w
                    if re.fullmatch(r'\d+', text):
                        k = int(text)
                        return lambda w, k=k: k
    return None
