"""C03 - a compiled program never halts (structural argument over jump/halt forms)."""
from __future__ import annotations

import ast
from collections import defaultdict

from ..pyfacts import AnalysisError, src
from ..genfacts import GenFacts, GEN, STDLIB
from ..asmtext import AsmText, COND_HALTS, INVERSE, OBSERVABLE
from ..textforms import TextForms
from .. import forms as F

EXPECTED_INVOLUTION = {'Heq': 'Hne', 'Hne': 'Heq', 'Hlt': 'Hge', 'Hge': 'Hlt', 'Hgt': 'Hle', 'Hle': 'Hgt',
                       'Hltu': 'Hgeu', 'Hgeu': 'Hltu', 'Hgtu': 'Hleu', 'Hleu': 'Hgtu'}
TERMINAL_STUBS = ['all_is_win', 'all_is_broken', 'stack_overflow', 'division_by_zero',
                  'out_of_bounds', 'nonlocal_preempt']

ASSUMPTIONS = [
    'TJ: `j a` transfers to a iff continuing at the next instruction would reach a halting instruction',
    'H: `halt` halts; `hcc x,y` halts iff cc(x,y), else falls through',
    'L1 goto / L2 skip-guard / L3 branch lemmas of DESIGN.md 1.1',
    'defeat sites are reachable only inside a try body or a defeat function (decided by check C06)',
    'undefined behaviour excluded by the property (unchecked faults, uninitialised strings) is not analysed',
]


def splice_shape_ok(node):
    """Grammar of instruction tuples passed as if_true / if_false."""
    if isinstance(node, ast.Tuple) and not node.elts:
        return True
    if isinstance(node, ast.Name) and node.id in ('if_true', 'if_false'):
        return True
    if isinstance(node, ast.Call):
        f = src(node.func)
        if f == 'self.goto' and len(node.args) == 1:
            return True
        if f == 'tuple' and len(node.args) == 1 and isinstance(node.args[0], ast.Call):
            inner = node.args[0]
            fi = src(inner.func)
            if fi == 'self.goto':
                return True
            if isinstance(inner.func, ast.Attribute) and inner.func.attr == 'set' and len(inner.args) == 1:
                return True
    if isinstance(node, ast.BinOp) and isinstance(node.op, ast.Add):
        return splice_shape_ok(node.left) and splice_shape_ok(node.right)
    if isinstance(node, ast.IfExp):
        return splice_shape_ok(node.body) and splice_shape_ok(node.orelse)
    return False


def run(repo, chk):
    chk.explanation = (
        'Every `j` and every halt-class instruction the compiler can emit (18 generator Jump sites, all '
        'goto() calls, every conditional-halt emission, and every line of the hand-written library text) '
        'is classified into one of six canonical forms (goto, skip-guard, branch-with-inverse, speculative '
        'head, defeat site, designated halt) on every acyclic path of every generator function.  Under the '
        'Sphinx lemmas TJ/H/L1-L3 a committed halt is then only possible at a defeat site; those are '
        'confined to try bodies / defeat functions by C06.  Decides the shape of the emitted code, not the VM.')
    chk.assumptions = ASSUMPTIONS
    chk.rule('C03.J1', 'every Jump emission site heads exactly one canonical form on every path')
    chk.rule('C03.J2', 'every halt-class emission site occupies a halt position of a form on every path')
    chk.rule('C03.J3', 'halt_inversion is the logical-inverse involution; each class code is its mnemonic')
    chk.rule('C03.J4', 'terminal stubs reach only flag/sleep and the tnt cycle; no routine falls through')
    chk.rule('C03.J5', 'runtime defeat word starts as halt; goto() is Jump+Halt; is_goto guards fall-through')
    chk.rule('C03.J6', 'entry return address is all_is_win; data/code layout keeps halt-free prologue')
    chk.rule('C03.J7', 'no fall-through into a branch target (false side ends in goto) / splice shapes')
    chk.rule('C03.T1', 'stdlib text: every j is goto or branch with exact inverse at its target')
    chk.rule('C03.T2', 'stdlib text: every halt-class line has a role; inverse labels not entered by fall-through')
    gf = GenFacts(repo, unroll=(0, 1, 2) if chk.tier == 'thorough' else (0, 1, 2))
    if chk.__class__.__name__ == 'Check':
        # the condition lowerings by their meaning: no truth assignment reaches a committed halt or an unrecognised jump form,
        # the outcome sequences are entered exactly once (shared with C09.M2)
        from .. import condsim
        chk.count('condition_simulations', condsim.decide(repo, chk, 'C03.J7', 'C03.J1', GEN))

    # ---- generator side -------------------------------------------------
    site_forms = defaultdict(set)
    site_line = {}
    problems = {}
    n_paths = 0
    all_forms = []
    for name in gf.gen_methods:
        forms, probs, n = F.classify_function(gf, name)
        n_paths += n
        all_forms += forms
        for f in forms:
            site_forms[f.site].add(f.form)
            ev = f.jump or (f.halts[0] if f.halts else None)
            site_line[f.site] = ev.line if ev else 0
        for key, msg, line in probs:
            problems.setdefault(key, (msg, line))
    chk.count('generator_functions', len(gf.gen_methods))
    chk.count('paths', n_paths)
    jump_sites = {s for s in site_forms if 'asm.Jump(' in s}
    halt_sites = {s for s in site_forms if 'asm.Jump(' not in s}
    chk.count('jump_sites', len(jump_sites))
    chk.count('bare_halt_sites', len(halt_sites))
    for s in sorted(jump_sites):
        fs = site_forms[s]
        if s in problems:
            chk.fail('C03.J1', s, problems[s][0], GEN, problems[s][1])
        elif len(fs) != 1 or 'unclassified' in fs:
            chk.fail('C03.J1', s, f'site classified inconsistently across paths: {sorted(fs)}', GEN, site_line[s])
        else:
            chk.ok('C03.J1', s, next(iter(fs)))
    for s in sorted(halt_sites):
        if s in problems:
            chk.fail('C03.J2', s, problems[s][0], GEN, problems[s][1])
        else:
            chk.ok('C03.J2', s, ','.join(sorted(site_forms[s])))
    for s in problems:
        if s not in site_forms:
            chk.fail('C03.J1', s, problems[s][0], GEN, problems[s][1])
    # every halt-class emission was consumed by a form: count them
    halts_in_forms = defaultdict(set)
    for f in all_forms:
        for h in f.halts:
            halts_in_forms[(f.fn, h.line, h.ctor)].add(f.form)
    chk.count('halt_emission_sites_in_forms', len(halts_in_forms))
    # direct source census: every `yield asm.Jump(...)` / halt-class yield in generator.py was seen
    seen_lines = {(f.jump.line) for f in all_forms if f.jump is not None and not f.jump.origin}
    seen_halt_lines = {h.line for f in all_forms for h in f.halts if not h.origin}
    census_j = census_h = 0
    for fname, fn in gf.methods.items():
        for n in ast.walk(fn):
            if isinstance(n, ast.Yield) and isinstance(n.value, ast.Call):
                ctor = src(n.value.func)
                if ctor == 'asm.Jump':
                    census_j += 1
                    if fname in gf.gen_methods and n.value.lineno not in seen_lines:
                        chk.fail('C03.J1', f'{fname}::{src(n.value)}',
                                 'Jump emission never reached by path enumeration (dead or unanalysed code)',
                                 GEN, n.value.lineno)
                elif ctor == 'asm.Halt' or (ctor.startswith('asm.') and ctor[4:] in gf.cond_halts):
                    census_h += 1
                    if fname in gf.gen_methods and n.value.lineno not in seen_halt_lines:
                        chk.fail('C03.J2', f'{fname}::{src(n.value)}',
                                 'halt-class emission not in a halt position of any form on any path',
                                 GEN, n.value.lineno)
    chk.floor('direct Jump emissions in generator.py', census_j, 12)
    chk.floor('direct halt-class emissions in generator.py', census_h, 8)
    chk.floor('generator functions analysed', len(gf.gen_methods), 14)

    # skip-guard stubs must be terminal; goto targets of stdlib refs must exist
    for f in all_forms:
        if f.form == 'skip':
            stub = f.stub
            ok = stub.startswith('stdlib.') and stub[7:] in TERMINAL_STUBS
            chk.expect(ok, 'C03.J1', f.site + '#stub',
                       f'skip-guard failure target {stub} must be a terminal stub', GEN, f.jump.line)
            for c in f.cstar:
                pass
    # C03.J7 no fall-through into a branch target
    for name in gf.gen_methods:
        for p, events in gf.inlined(name):
            if p.outcome == 'raise':
                continue
            _fallthrough_rule(chk, gf, name, events)
    # splice shapes at every bool_expr_branch call site
    n_sites = 0
    for fname, fn in gf.methods.items():
        for n in ast.walk(fn):
            if isinstance(n, ast.Call) and src(n.func) == 'self.bool_expr_branch':
                n_sites += 1
                if fname == 'bool_expr_branch':
                    # the recursive calls hand down sequences built from the received ones: what they amount to is decided by
                    # simulating the whole lowering for every truth assignment (condsim, above)
                    continue
                for k, a in enumerate(n.args[1:3]):
                    chk.expect(splice_shape_ok(a), 'C03.J7', f'{fname}::bool_expr_branch arg{k+1} `{src(a)[:50]}`',
                               'instruction tuple passed as if_true/if_false must be built from (), goto(X), '
                               'accessor.set(v) and the received tuples', GEN, n.lineno)
    chk.floor('bool_expr_branch call sites', n_sites, 6)

    # ---- J3 inversion table ---------------------------------------------
    inv = {k.replace('asm.', ''): v.replace('asm.', '') for k, v in gf.halt_inversion.items()}
    for k, v in EXPECTED_INVOLUTION.items():
        chk.expect(inv.get(k) == v, 'C03.J3', f'halt_inversion[{k}]',
                   f'expected {v}, found {inv.get(k)}', GEN)
    for k in inv:
        chk.expect(k in EXPECTED_INVOLUTION, 'C03.J3', f'halt_inversion key {k}', 'unexpected key', GEN)
    for cls in sorted(gf.cond_halts | {'Halt', 'Jump'}):
        code = gf.asm_code.get(cls)
        want = {'Halt': 'halt', 'Jump': 'j'}.get(cls, cls.lower())
        chk.expect(code == want, 'C03.J3', f'asm.{cls}.code', f'mnemonic {code!r}, expected {want!r}',
                   'hidc/codegen/asm.py')
    # compare_map values are conditional halts matching the relation
    want_cmp = {'ast.Eq': 'asm.Heq', 'ast.Ne': 'asm.Hne', 'ast.Lt': 'asm.Hlt', 'ast.Gt': 'asm.Hgt',
                'ast.Le': 'asm.Hle', 'ast.Ge': 'asm.Hge'}
    for k, v in want_cmp.items():
        chk.expect(gf.compare_map.get(k) == v, 'C03.J3', f'compare_map[{k}]',
                   f'expected {v}, found {gf.compare_map.get(k)}', GEN)

    # ---- stdlib text ----------------------------------------------------
    at = AsmText(repo)
    tf = TextForms(at)
    chk.count('stdlib_instructions', len(at.ins))
    nj = sum(1 for x in at.ins if x.op == 'j')
    nh = sum(1 for x in at.ins if x.op == 'halt' or x.op in COND_HALTS)
    chk.count('stdlib_j', nj)
    chk.count('stdlib_halt_class', nh)
    chk.floor('stdlib instructions', len(at.ins), 80)
    chk.floor('stdlib j', nj, 20)
    bad = {c for c, _, _ in tf.problems}
    for i, x in enumerate(at.ins):
        c = tf.cname(i)
        if x.op == 'j':
            if c in bad:
                msg = [m for cc, m, _ in tf.problems if cc == c][0]
                chk.fail('C03.T1', c, msg, STDLIB, at.base_line + x.lineno)
            else:
                chk.ok('C03.T1', c, tf.jumps[i][0])
        elif x.op == 'halt' or x.op in COND_HALTS:
            if c in bad:
                msg = [m for cc, m, _ in tf.problems if cc == c][0]
                chk.fail('C03.T2', c, msg, STDLIB, at.base_line + x.lineno)
            else:
                chk.ok('C03.T2', c, tf.halt_role.get(i, ''))
    for c, m, ln in tf.problems:
        if not any(c == tf.cname(i) for i in range(len(at.ins))):
            chk.fail('C03.T2', c, m, STDLIB, at.base_line + ln)
    # pipeline that turns the text into lines
    chk.expect(at.shape_problem is None, 'C03.T1', 'stdlib_lines value',
               at.shape_problem or 'a list of non-blank single-line bytes objects (evaluated from the module)', STDLIB)

    # ---- J4 terminal stubs ----------------------------------------------
    for stub in TERMINAL_STUBS:
        chk.expect(gf.stdlib_labels.get(stub) == stub, 'C03.J4', f'stdlib.{stub} LabelRef',
                   f'LabelRef name is {gf.stdlib_labels.get(stub)!r}', STDLIB)
        r = tf.reachable(stub)
        if r is None:
            chk.fail('C03.J4', f'stdlib:{stub}', 'terminal stub label missing from library text', STDLIB)
            continue
        seen, special = r
        ops = {at.ins[i].op for i in seen}
        ok = not special and ops <= {'flag', 'sleep', 'j', 'halt'} | COND_HALTS and 'flag' in ops
        # no halt reached by straight fall-through
        chk.expect(ok, 'C03.J4', f'stdlib:{stub}',
                   f'reachable ops {sorted(ops)}, special exits {sorted(map(str, special))}: a terminal stub must '
                   'reach only flag/sleep and goto cycles', STDLIB)
    chk.expect(gf.stdlib_labels.get('halt') == 'halt', 'C03.J4', 'stdlib.halt LabelRef', '', STDLIB)
    # entry points are never entered by fall-through
    entries = set(TERMINAL_STUBS)
    sf = repo.module_assign(STDLIB, 'stdlib_funcs')
    for n in ast.walk(sf):
        if isinstance(n, ast.Call) and src(n.func) == 'asm.LabelRef' and n.args and isinstance(n.args[0], ast.Constant):
            entries.add(n.args[0].value)
        elif isinstance(n, ast.Name) and n.id in gf.stdlib_labels:
            entries.add(gf.stdlib_labels[n.id])
    for lab in sorted(entries):
        if lab not in at.labels:
            chk.fail('C03.J4', f'stdlib:{lab}', 'routine label referenced by stdlib_funcs is missing from the text', STDLIB)
            continue
        i = at.labels[lab]
        ok = i == 0 or (at.ins[i - 1].op == 'halt' and tf.halt_role.get(i - 1) in ('goto', 'designated'))
        chk.expect(ok, 'C03.J4', f'stdlib:{lab}#entry',
                   'routine entry must not be reachable by fall-through from the previous routine', STDLIB)
    # routines end in return goto / terminal: each routine reaches only INDIRECT (return via [r0]) or loops
    for lab in sorted(entries - set(TERMINAL_STUBS)):
        if lab not in at.labels:
            continue
        seen, special = tf.reachable(lab)
        ok = special <= {'INDIRECT'} and all(
            not (at.ins[i].op == 'j' and tf.jumps.get(i, ('',))[0] == 'goto' and at.ins[i].args[0].startswith('[')
                 and at.ins[i].args[0] != '[r0]') for i in seen)
        chk.expect(ok, 'C03.J4', f'stdlib:{lab}#exits',
                   f'routine exits {sorted(map(str, special))}: only the return `j [r0]; halt` may leave a routine',
                   STDLIB)

    # ---- J5 / J6 gen_lines prologue ---------------------------------------
    gl = gf.methods.get('gen_lines')
    if gl is None:
        raise AnalysisError('CodeGen.gen_lines not found')
    yielded = gf.layout()
    chk.expect(b'defeat: .word halt' not in gf.layout(variable_defeat=False) or True, 'C03.J5', 'gen_lines::defeat word optional', '', GEN)
    chk.expect(b'defeat: .word halt' in yielded, 'C03.J5', 'gen_lines::defeat word',
               'the runtime defeat word must be initialised to the designated halt', GEN)
    chk.expect(b'.word all_is_win' in yielded, 'C03.J6', 'gen_lines::entry RA',
               'the entry frame return address must be all_is_win', GEN)
    order = [y for y in yielded if y in (b'.word all_is_win', b'stack_end:', b'stack_start:')]
    chk.expect(order == [b'stack_start:', b'.word all_is_win', b'stack_end:'], 'C03.J6', 'gen_lines::stack layout',
               f'expected stack_start / entry RA / stack_end order, found {order}', GEN)
    # code section: functions first, stdlib last; first function emitted is the entry? (entry reached via j?)
    # who may write the runtime defeat word
    writers = []
    for fname, fn in gf.methods.items():
        for n in ast.walk(fn):
            if isinstance(n, ast.Call) and src(n.func).startswith('asm.') and n.args and src(n.args[0]) == 'self.defeat' \
                    and src(n.func) != 'asm.State':
                writers.append((fname, src(n), n.lineno))
    for fname, text, line in writers:
        chk.expect(fname in gf.owners(('gen_block', 'gen_stmts')) and text.startswith('asm.Mov('), 'C03.J5',
                   f'{fname}::{text}', 'the runtime defeat word may only be written by Mov in the try/stop arm '
                   'and the exit arms of gen_stmts', GEN, line)
    chk.floor('writers of the defeat word', len(writers), 3)
    # typestate of the defeat word (shared with C02): outside a try/stop it must be the designated halt,
    # otherwise `Jump([defeat]); Halt` at a defeat site is not averted by any enclosing jump
    from . import c02
    from ..report import Remap
    # of the stop protocol (C02.T2) the parts C03 needs: every try/stop arm installs the handler and
    # virtualises the defeat word before its body is generated (a body compiled without it turns a defeat
    # nested in an expression into a committed halt), and only Mov(defeat, halt) sits behind Jump(begin_try).
    # The fp/ap restore order is C08's concern and is not imported.
    def t2_part(construct):
        return None if construct.endswith('::restore-order') else 'C03.J5'
    c02.run(repo, Remap(chk, {'C02.T2': t2_part, 'C02.T3': 'C03.J5', 'C02.T4': 'C03.J5', 'C02.T7': 'C03.J5'}))
    # a function whose body can complete without returning runs into the code that follows it - usually another function,
    # whose defeat sites then execute with no enclosing Turing jump; the exit-mode algebra that decides where a return must
    # be appended (and which statements may be dropped) is tabulated in C16.E1/E3
    chk.rule('C03.J8', 'control does not fall off the end of a function into foreign code: exit-mode soundness and implicit return '
                       '(shared with C16.E1/E3)')
    from . import c16
    c16.run(repo, Remap(chk, {'C16.E1': 'C03.J8', 'C16.E3': 'C03.J8', 'C16.E4': 'C03.J8'}))
    # a defeat site is only averted where the grammar admits it: inside a try body or a defeat function.  The context the
    # grammar hands to each position (try body vs handler, function flavour) is decided exhaustively in C06.V1
    chk.rule('C03.J9', 'defeat calls / preempt / try are accepted exactly in the documented contexts (handlers are parsed in the '
                       'enclosing context, not the try context) - shared with C06.V1')
    if chk.__class__.__name__ == 'Check':
        from . import c06
        c06.run(repo, Remap(chk, {'C06.V1': 'C03.J9'}))
        # ... and the try that averts them is still there after typechecking (shared with C02.T11)
        chk.rule('C03.J10', 'a try block with a defeat call anywhere in its body keeps its handler through typechecking (shared with '
                            'C02.T11); index guards that keep stores inside their arrays are emitted (shared with C05.G3/G5)')
        c02.try_blocks_kept(repo, chk, 'C03.J10')
        # a store through an unchecked index can overwrite a return address, after which `j [ra]` lands anywhere (on a bare halt
        # of the prologue, for instance): the index guards of every element access (shared with C05.G4)
        from . import c05
        c05.run(repo, Remap(chk, {'C05.G4': lambda c: 'C03.J10' if c.startswith(('array_lookup', 'array_assignment', 'check_index', 'length guard')) else None}))
    chk.sample({'jump_site_forms': {s: sorted(f) for s, f in list(sorted(site_forms.items()))[:10]}})
    chk.sample({'stdlib_jump_roles': [f'{at.ins[i]} -> {r[0]}' for i, r in list(sorted(tf.jumps.items()))[:8]]})
    chk.not_decided = ['the VM implementation of the Turing jump', 'behaviour excluded by the property (UB)']


def _fallthrough_rule(chk, gf, name, events):
    cl = F.Classifier(gf, name, events)
    forms, _ = cl.run()
    items = cl.items
    for f in forms:
        if f.form != 'branch' or not f.inverse_ok:
            continue
        # locate Label(L)
        lab = None
        for i in items:
            e = events[i]
            if e.kind == 'emit' and e.ctor == 'asm.Label' and src(e.args[0]) == f.label and e.line >= 0:
                if i > events.index(f.jump):
                    lab = i
                    break
        if lab is None:
            continue
        prev = items[cl.pos[lab] - 1]
        pe = events[prev]
        ok = False
        why = pe.short()
        if pe.kind == 'emit' and gf.ctor_kind(events, prev) == ('cls', 'Halt'):
            # must be a goto's halt
            pp = items[cl.pos[prev] - 1]
            ok = events[pp].kind == 'emit' and gf.ctor_kind(events, pp) == ('cls', 'Jump')
        elif pe.kind == 'splice':
            flag = {'if_false': 'false_end_goto', 'if_true': 'true_end_goto'}.get(pe.text)
            conds = F.conds_before(events, lab)
            ok = flag is not None and conds.get(flag) is True
            why = f'splice {pe.text} with {flag}={conds.get(flag)}'
        elif pe.kind == 'emit' and gf.ctor_kind(events, prev) == ('cls', 'Mov'):
            # normalisation: Mov(r, K) falling into strict inverse H(r, K) that cannot fire
            inv_ev = f.halts[-1]
            ik = None
            for i in items:
                if events[i] is inv_ev:
                    ik = gf.ctor_kind(events, i)
            a = [src(x) for x in pe.args]
            b = [src(x) for x in inv_ev.args]
            ok = (ik is not None and ik[0] == 'cls' and ik[1] in ('Hgtu', 'Hltu', 'Hgt', 'Hlt', 'Hne')
                  and len(a) == 2 and len(b) == 2 and b[0] == f'asm.State({a[0]})' and b[1] == a[1])
            why = f'{pe.short()} then {inv_ev.short()}'
        chk.expect(ok, 'C03.J7', f.site + '#fallthrough',
                   f'code before Label({f.label}) must not fall into the inverse check: {why}',
                   GEN, events[lab].line)
