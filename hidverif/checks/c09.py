"""C09 - operators and casts: the compiler's mapping (tables, sibling lowerings, accessors)."""
from __future__ import annotations

import ast
import operator

from .. import efg as _efg
from ..pyfacts import AnalysisError, src
from ..genfacts import GenFacts, GEN, ASM
from ..consteval import Interp
from .. import forms as F

OPERATORS = 'hidc/ast/operators.py'
GRAMMAR = 'hidc/parser/grammar.py'

# ground truth: spelling, OpToken member, AST class, python fold, run-time instruction class, mnemonic
BINARY = [
    ('+', 'ADD', 'Add', operator.add, 'arith', 'Add', 'add'),
    ('-', 'SUB', 'Sub', operator.sub, 'arith', 'Sub', 'sub'),
    ('*', 'MUL', 'Mul', operator.mul, 'arith', 'Mul', 'mul'),
    ('/', 'DIV', 'Div', 'floordiv', 'arith', 'Div', 'div'),
    ('%', 'MOD', 'Mod', 'mod', 'arith', 'Mod', 'mod'),
    ('<', 'LT', 'Lt', operator.lt, 'cmp', 'Hlt', 'hlt'),
    ('>', 'GT', 'Gt', operator.gt, 'cmp', 'Hgt', 'hgt'),
    ('<=', 'LE', 'Le', operator.le, 'cmp', 'Hle', 'hle'),
    ('>=', 'GE', 'Ge', operator.ge, 'cmp', 'Hge', 'hge'),
    ('==', 'EQ', 'Eq', operator.eq, 'cmp', 'Heq', 'heq'),
    ('!=', 'NE', 'Ne', operator.ne, 'cmp', 'Hne', 'hne'),
]


def items_of(ev):
    return [e for e in ev if (e.kind == 'emit' and e.ctor != 'asm.Metadata') or e.kind in ('sub', 'splice')]


def _compound_width(repo, chk):
    """`x op= e` is `x = x op e` computed at word width and narrowed once, at the store.  The typechecked statement must
    therefore keep e as evaluated - not coerced to the (possibly narrower) type of x: `b /= 256` with a byte b divides by
    256, not by 0; `b %= 300` is b % 300, not b % 44."""
    chk.rule('C09.M6', 'compound assignment: the right-hand side keeps its own width (it is not narrowed to the target type before the '
                       'operation); the operation is the one of the plain operator')
    it = Interp(repo)
    ns = it.load('hidc/ast/__init__.py')
    lex = it.load('hidc/lexer/__init__.py')
    span = lex['Span'](lex['Cursor'](0, 0), lex['Cursor'](0, 1))
    cur = lex['Cursor'](0, 1)
    DT, IV, VL, Var = ns['DataType'], ns['IntValue'], ns['VariableLookup'], ns['Variable']
    AT = ns['ArrayType']
    env = ns['Environment'].empty().new_child(DT.EMPTY)
    targets = [('byte variable', VL(Var('b', DT.BYTE, False), span)),
               ('int variable', VL(Var('i', DT.INT, False), span)),
               ('byte[] element', ns['ArrayLookup'](VL(Var('a', AT(DT.BYTE, False), False), span), IV(0, span), cur)),
               ('int[] element', ns['ArrayLookup'](VL(Var('w', AT(DT.INT, False), False), span), IV(0, span), cur))]
    n = 0
    for label, tgt in targets:
        for opname in ('Add', 'Sub', 'Mul', 'Div', 'Mod'):
            for v in (1, 255, 256, 300, 512, 65535, 65536):
                try:
                    st = ns['IncAssignment'](tgt, IV(v, span), ns[opname], span).evaluate(env)
                except ns['TypeCheckError'] as e:
                    chk.fail('C09.M6', f'{label} {opname}= {v}', f'rejected: {e}', 'hidc/ast/statements.py')
                    continue
                n += 1
                rhs = st.expr
                data = getattr(rhs, 'data', None)
                byte_target = tgt.type == DT.BYTE
                # + - * commute with reduction modulo 256, so for a byte target an operand already reduced is the same
                # computation; / and % do not
                same = data == v or (byte_target and opname in ('Add', 'Sub', 'Mul') and isinstance(data, int) and (data - v) % 256 == 0)
                ok = type(st).__name__ == 'IncAssignment' and st.bin_op is ns[opname] and same
                if not ok:
                    chk.fail('C09.M6', f'{label} {opname}= {v}', f'typechecked right-hand side is {type(rhs).__name__}({getattr(rhs, "data", "?")}) '
                             f'with operator {getattr(st.bin_op, "__name__", st.bin_op)}: the operand must stay the int {v}', 'hidc/ast/statements.py')
        chk.ok('C09.M6', f'{label}', 'operand kept at its own width for + - * / % and values up to 65536')
    chk.floor('compound assignment evaluations', n, 100)


def _describe(gf, ev, em):
    """(constructor kind, operand texts) of each emission - the class an emission constructs, however it is spelled
    (literal class, table lookup, helper parameter bound to a class)."""
    out = []
    for e in em:
        if e.kind == 'emit':
            out.append((gf.ctor_kind(ev, ev.index(e)), tuple(src(a) for a in e.args)))
        else:
            out.append((('splice', e.text), ()))
    return out


def rendering(repo, chk, rule='C09.M1'):
    """Every instruction / directive / accessor class of asm.py, interpreted on one representative operand tuple
    each (the classes are pure formatters): mnemonic, operand order, `[...]` wrapping of destinations, separators."""
    it = Interp(repo)
    it.allow_generators = True
    asm = it.load(ASM)
    L, St, IL, WO = asm['LabelRef'], asm['State'], asm['IntLiteral'], asm['WordOffset']
    r0, fp, ap = L('r0'), L('fp'), L('ap')

    def lines(x):
        try:
            return [bytes(b) for b in x.lines()]
        except Exception as e:      # noqa
            return f'{type(e).__name__}: {e}'
    cases = []
    for cls, code in (('Add', 'add'), ('Sub', 'sub'), ('Mul', 'mul'), ('Div', 'div'), ('Mod', 'mod'), ('And', 'and'), ('Or', 'or'),
                      ('Xor', 'xor'), ('Asl', 'asl'), ('Asr', 'asr')):
        cases.append((cls, lambda c=cls: asm[c](r0, St(fp), IL(-2)), [f'{code} [r0], [fp], -2'.encode()]))
    cases.append(('Mov', lambda: asm['Mov'](r0, IL(5)), [b'mov [r0], 5']))
    for cls, code in (('Lws', 'lws'), ('Lwc', 'lwc'), ('Lbs', 'lbs'), ('Lbc', 'lbc')):
        cases.append((cls, lambda c=cls: asm[c](r0, St(fp)), [f'{code} [r0], [fp]'.encode()]))
    for cls, code in (('Lwso', 'lwso'), ('Lwco', 'lwco'), ('Lbso', 'lbso'), ('Lbco', 'lbco')):
        cases.append((cls, lambda c=cls: asm[c](r0, St(fp), IL(-4)), [f'{code} [r0], [fp], -4'.encode()]))
    for cls, code in (('Sws', 'sws'), ('Sbs', 'sbs')):
        cases.append((cls, lambda c=cls: asm[c](St(ap), St(r0)), [f'{code} [ap], [r0]'.encode()]))
    for cls, code in (('Swso', 'swso'), ('Sbso', 'sbso')):
        cases.append((cls, lambda c=cls: asm[c](St(ap), IL(-2), St(r0)), [f'{code} [ap], -2, [r0]'.encode()]))
    for cls in ('Heq', 'Hne', 'Hlt', 'Hle', 'Hgt', 'Hge', 'Hltu', 'Hleu', 'Hgtu', 'Hgeu'):
        cases.append((cls, lambda c=cls: asm[c](St(r0), IL(1)), [f'{cls.lower()} [r0], 1'.encode()]))
    cases += [
        ('Jump', lambda: asm['Jump'](L('x')), [b'j x']), ('Jump indirect', lambda: asm['Jump'](St(r0)), [b'j [r0]']),
        ('Halt', lambda: asm['Halt'](), [b'halt']),
        ('Yield', lambda: asm['Yield'](IL(10, True)), [b"yield '\\n'"]), ('Sleep', lambda: asm['Sleep'](St(r0)), [b'sleep [r0]']),
        ('Flag', lambda: asm['Flag'](asm['SpecialArg'](b'debug')), [b'flag debug']),
        ('Label', lambda: asm['Label'](L('loop_3')), [b'loop_3:']),
        ('WordDirective', lambda: asm['WordDirective'](IL(1), L('x')), [b'.word 1, x']),
        ('WordDirective empty', lambda: asm['WordDirective'](), []),
        ('ByteDirective', lambda: asm['ByteDirective'](IL(1), IL(255)), [b'.byte 1, 255']),
        ('ZeroDirective', lambda: asm['ZeroDirective'](WO(5)), [b'.zero 5w']),
        ('ZeroDirective bytes', lambda: asm['ZeroDirective'](IL(7)), [b'.zero 7']),
        ('AsciiDirective', lambda: asm['AsciiDirective'](b'a"b'), [b'.ascii "a\\"b"']),
        ('ArgDirective', lambda: asm['ArgDirective']('n', 'word'), [b'.arg n word']),
        ('ArgDirective array', lambda: asm['ArgDirective']('a', 'asciip', ('array',)), [b'.arg a asciip array']),
        ('Metadata', lambda: asm['Metadata']('x\ny'), [b'; x', b'; y']),
        ('Metadata silent', lambda: asm['Metadata'](add_indent=1), []),
    ]
    for name, mk, want in cases:
        try:
            got = lines(mk())
        except Exception as e:     # noqa
            got = f'{type(e).__name__}: {e}'
        chk.expect(got == want, rule, f'asm.{name} rendering', f'renders as {got}, expected {want}', ASM)
    # operand expressions
    exprs = [(St(r0), b'[r0]'), (asm['Const'](L('s')), b'{s}'), (WO(-3), b'-3w'), (IL(-7), b'-7'), (IL(65, True), b"'A'"),
             (IL(300, True), b'300'), (L('lbl'), b'lbl'), (asm['SpecialArg'](b'$argc - 1'), b'$argc - 1')]
    for e, want in exprs:
        chk.expect(bytes(e) == want, rule, f'operand {want.decode()}', f'renders as {bytes(e)}', ASM)
    # accessors: what get / set emit and what get returns
    S = asm['Section']

    def run(g):
        return [repr(x) for x in g.items], repr(g.value)
    acc = [
        ('State.get', lambda: St(fp).get(r0), ([], repr(St(fp)))),
        ('State.set', lambda: St(fp).set(IL(1)), ([repr(asm['Mov'](fp, IL(1)))], 'None')),
        ('State.set self', lambda: St(fp).set(St(fp)), ([], 'None')),
        ('State.to', lambda: St(fp).to(r0), ([repr(asm['Mov'](r0, St(fp)))], 'None')),
        ('StateByte.get', lambda: asm['StateByte'](fp).get(r0), ([repr(asm['Lbs'](r0, fp))], repr(St(r0)))),
        ('StateByte.set', lambda: asm['StateByte'](fp).set(IL(1)), ([repr(asm['Sbs'](fp, IL(1)))], 'None')),
        ('ConstByte.get', lambda: asm['ConstByte'](fp).get(r0), ([repr(asm['Lbc'](r0, fp))], repr(St(r0)))),
        ('Indirect.get', lambda: asm['Indirect'](S.STATE, St(fp), IL(-2)).get(r0), ([repr(asm['Lwso'](r0, St(fp), IL(-2)))], repr(St(r0)))),
        ('Indirect.set', lambda: asm['Indirect'](S.STATE, St(fp), IL(-2)).set(IL(9)), ([repr(asm['Swso'](St(fp), IL(-2), IL(9)))], 'None')),
        ('Indirect.to', lambda: asm['Indirect'](S.STATE, St(fp), IL(-2)).to(r0), ([repr(asm['Lwso'](r0, St(fp), IL(-2)))], 'None')),
        ('IndirectByte.get', lambda: asm['IndirectByte'](S.STATE, St(fp), IL(-3)).get(r0), ([repr(asm['Lbso'](r0, St(fp), IL(-3)))], repr(St(r0)))),
        ('IndirectByte.set', lambda: asm['IndirectByte'](S.STATE, St(fp), IL(-3)).set(IL(9)), ([repr(asm['Sbso'](St(fp), IL(-3), IL(9)))], 'None')),
        ('Indirect(CONST).get', lambda: asm['Indirect'](S.CONST, L('tbl'), St(r0)).get(r0), ([repr(asm['Lwco'](r0, L('tbl'), St(r0)))], repr(St(r0)))),
        # destination register == address register: the load is what narrows / dereferences, it is never redundant
        ('StateByte.get aliased', lambda: asm['StateByte'](r0).get(r0), ([repr(asm['Lbs'](r0, r0))], repr(St(r0)))),
        ('ConstByte.get aliased', lambda: asm['ConstByte'](r0).get(r0), ([repr(asm['Lbc'](r0, r0))], repr(St(r0)))),
        ('Indirect.get aliased', lambda: asm['Indirect'](S.STATE, St(r0), IL(0)).get(r0), ([repr(asm['Lwso'](r0, St(r0), IL(0)))], repr(St(r0)))),
        ('IndirectByte.get aliased', lambda: asm['IndirectByte'](S.STATE, St(r0), St(r0)).get(r0),
         ([repr(asm['Lbso'](r0, St(r0), St(r0)))], repr(St(r0)))),
        ('StateByte.set aliased', lambda: asm['StateByte'](r0).set(St(r0)), ([repr(asm['Sbs'](r0, St(r0)))], 'None')),
        ('State.to same register', lambda: St(r0).to(r0), ([], 'None')),
        ('IntLiteral.get', lambda: IL(4).get(r0), ([], repr(IL(4)))),
        ('IntLiteral.to', lambda: IL(4).to(r0), ([repr(asm['Mov'](r0, IL(4)))], 'None')),
    ]
    for name, mk, want in acc:
        try:
            got = run(mk())
        except Exception as e:     # noqa
            got = f'{type(e).__name__}: {e}'
        chk.expect(got == want, rule, f'asm.{name}', f'emits/returns {got}, expected {want}', ASM)
    # const-section stores are refused
    try:
        asm['Indirect'](S.CONST, L('tbl'), IL(0)).set(IL(1))
        refused = False
    except Exception as e:      # noqa
        refused = type(e).__name__ == 'InternalCompilerError'
    chk.expect(refused, rule, 'asm.Indirect(CONST).set', 'a store into the const section must be refused', ASM)
    # asm.lines: indentation follows Metadata(add_indent)
    try:
        out = [bytes(b) for b in asm['lines']([asm['Label'](L('f')), asm['Metadata'](add_indent=1), asm['Halt'](),
                                                asm['Metadata']('c'), asm['Metadata'](add_indent=-1), asm['Halt']()])]
    except Exception as e:      # noqa
        out = f'{type(e).__name__}: {e}'
    chk.expect(out == [b'f:', b'    halt', b'    ; c', b'halt'], rule, 'asm.lines indentation', f'{out}', ASM)


def _is_subclass(repo, sub, sup):
    """Class `sub` of asm.py derives (transitively) from `sup`, read off the class statements."""
    classes = repo.classes(ASM)
    seen, todo = set(), [sub]
    while todo:
        c = todo.pop()
        if c == sup:
            return True
        if c in seen or c not in classes:
            continue
        seen.add(c)
        todo += [src(b).split('.')[-1].split('[')[0] for b in classes[c].bases]
    return False


def run(repo, chk):
    chk.explanation = (
        'For each operator the chain token -> AST class -> compile-time fold -> run-time instruction class -> '
        'mnemonic is read from five places in the source and must agree with one ground-truth row.  The three '
        'lowerings of a comparison (value, branch, argument of !truth_is_defeat) are siblings: all must use '
        'compare_map[type(expr)] on (left, right) in that order, with the documented polarity.  Unary lowerings, '
        'the bool normalisation (unsigned compare against 1), and the byte-access accessor mapping are checked on '
        'emission paths or by interpreting the accessor classes.  What the VM computes for an instruction is not '
        'decided.')
    chk.assumptions = ['Sphinx instruction semantics (add/sub/mul wrap; hlt.. signed; h..u unsigned; byte loads zero-extend)']
    chk.rule('C09.M1', 'operator rows: token spelling, AST class token, fold function, arith_map/compare_map image, mnemonic')
    chk.rule('C09.M2', 'the value / branch / defeat lowerings of comparisons and generic booleans agree (operand order, polarity)')
    chk.rule('C09.M3', 'unary lowering: Neg = 0 - x, Not = 1 - x, Pos = move; bool normalisation uses unsigned <=1 / >1 with Mov 1')
    chk.rule('C09.M4', 'byte access mapping of accessors; IntToByte only switches the accessor; ByteToInt zeroes a word first')
    chk.rule('C09.M5', 'exhaustiveness: every operator class is handled by each lowering that can receive it')
    gf = GenFacts(repo)
    it = Interp(repo)
    ops = it.load(OPERATORS)
    tok = it.load('hidc/lexer/tokens.py')
    OpToken = tok['OpToken']
    lex = it.load('hidc/lexer/__init__.py')
    span = lex['Span'](lex['Cursor'](0, 0), lex['Cursor'](0, 1))

    # ---------------- M1 -----------------------------------------------------------
    for sp, member, cls, fold, kind, icls, mnem in BINARY:
        key = f'operator {sp}'
        c = ops.get(cls)
        if c is None:
            chk.fail('C09.M1', key, f'AST class {cls} missing', OPERATORS)
            continue
        ok = getattr(OpToken, member).value == sp and c.token is getattr(OpToken, member)
        chk.expect(ok, 'C09.M1', key + ' token', f'{cls}.token = {c.token!r}, OpToken.{member} = {getattr(OpToken, member).value!r}', OPERATORS)
        chk.expect(ops['binary_ops'].get(getattr(OpToken, member)) is c, 'C09.M1', key + ' registry',
                   'binary_ops[token] must be this class (used by augmented assignment)', OPERATORS)
        # fold
        if callable(fold):
            chk.expect(c.__dict__.get('operate') is fold, 'C09.M1', key + ' fold',
                       f'{cls}.operate is {c.__dict__.get("operate")!r}, expected operator.{fold.__name__}', OPERATORS)
        else:
            node = c(span, None, None)
            samples = [(7, 2), (-7, 2), (7, -2), (-7, -2), (0, 5), (6, 3)]
            pyf = operator.floordiv if fold == 'floordiv' else operator.mod
            good = all(node.operate(a, b) == pyf(a, b) for a, b in samples)
            try:
                node.operate(1, 0)
                zerr = None
            except Exception as e:   # noqa
                zerr = type(e).__name__
            chk.expect(good and zerr == 'TypeCheckError', 'C09.M1', key + ' fold',
                       f'{cls}.operate must be floor {fold} and turn a zero divisor into a TypeCheckError (got {zerr})', OPERATORS)
        table = gf.arith_map if kind == 'arith' else gf.compare_map
        chk.expect(table.get(f'ast.{cls}') == f'asm.{icls}', 'C09.M1', key + ' instruction',
                   f'{"arith_map" if kind == "arith" else "compare_map"}[ast.{cls}] = {table.get(f"ast.{cls}")}, expected asm.{icls}', GEN)
        chk.expect(gf.asm_code.get(icls) == mnem, 'C09.M1', key + ' mnemonic', f'asm.{icls}.code = {gf.asm_code.get(icls)!r}', ASM)
    chk.expect(set(gf.arith_map) == {f'ast.{r[2]}' for r in BINARY if r[4] == 'arith'}, 'C09.M1', 'arith_map keys', f'{sorted(gf.arith_map)}', GEN)
    chk.expect(set(gf.compare_map) == {f'ast.{r[2]}' for r in BINARY if r[4] == 'cmp'}, 'C09.M1', 'compare_map keys', f'{sorted(gf.compare_map)}', GEN)
    # other instruction mnemonics used by lowerings
    for icls, mnem in (('And', 'and'), ('Or', 'or'), ('Xor', 'xor'), ('Asl', 'asl'), ('Asr', 'asr'), ('Mov', 'mov'),
                       ('Hltu', 'hltu'), ('Hleu', 'hleu'), ('Hgtu', 'hgtu'), ('Hgeu', 'hgeu'),
                       ('Lws', 'lws'), ('Lwc', 'lwc'), ('Lbs', 'lbs'), ('Lbc', 'lbc'), ('Lwso', 'lwso'), ('Lwco', 'lwco'),
                       ('Lbso', 'lbso'), ('Lbco', 'lbco'), ('Sws', 'sws'), ('Sbs', 'sbs'), ('Swso', 'swso'), ('Sbso', 'sbso'),
                       ('Yield', 'yield'), ('Sleep', 'sleep'), ('Flag', 'flag')):
        chk.expect(gf.asm_code.get(icls) == mnem, 'C09.M1', f'asm.{icls}.code', f'{gf.asm_code.get(icls)!r}', ASM)
    # unary / logical classes
    for cls, member, fold in (('Pos', 'ADD', operator.pos), ('Neg', 'SUB', operator.neg)):
        c = ops[cls]
        chk.expect(c.token is getattr(OpToken, member) and c.__dict__.get('operate') is fold, 'C09.M1', f'unary {cls}',
                   f'token {c.token!r} fold {c.__dict__.get("operate")!r}', OPERATORS)
    for cls, member in (('And', 'AND'), ('Or', 'OR'), ('Not', 'NOT')):
        chk.expect(ops[cls].token is getattr(OpToken, member), 'C09.M1', f'logical {cls}', f'{ops[cls].token!r}', OPERATORS)
    tt = [(a, b) for a in (False, True) for b in (False, True)]
    chk.expect([ops['And'].operate(a, b) for a, b in tt] == [False, False, False, True]
               and [ops['Or'].operate(a, b) for a, b in tt] == [False, True, True, True]
               and [ops['Not'].operate(a) for a in (False, True)] == [True, False], 'C09.M1', 'logical folds',
               'truth tables of and / or / not', OPERATORS)
    # instruction operand order: dest, left, right
    ai = repo.find_class(ASM, 'ArithmeticInstruction')
    fields = [n.target.id for n in ai.body if isinstance(n, ast.AnnAssign)]
    chk.expect(fields == ['left', 'right'], 'C09.M1', 'ArithmeticInstruction fields', f'{fields}', ASM)
    ch = repo.find_class(ASM, 'ConditionalHalt')
    fields = [n.target.id for n in ch.body if isinstance(n, ast.AnnAssign)]
    chk.expect(fields == ['left', 'right'], 'C09.M1', 'ConditionalHalt fields', f'{fields}', ASM)

    rendering(repo, chk, 'C09.M1')
    # the branch lowering re-checks the logical inverse at the jump target: the table must be the exact involution
    from .c03 import EXPECTED_INVOLUTION
    inv = {k.replace('asm.', ''): v.replace('asm.', '') for k, v in gf.halt_inversion.items()}
    for k, v in EXPECTED_INVOLUTION.items():
        chk.expect(inv.get(k) == v, 'C09.M1', f'halt_inversion[{k}]',
                   f'the inverse of {k} is {v} (same signedness, complementary relation); found {inv.get(k)}: with a wrong '
                   'inverse the branch position disagrees with the value/defeat positions for some operand pairs', GEN)

    # ---------------- M2 -----------------------------------------------------------------
    # operands of the three comparison lowerings
    def operand_protocol(ev, who):
        # (the three evaluations that feed the comparison: the window that starts at the evaluation of expr.left - a lowering
        # written as a loop over pending sub-conditions has earlier rounds on the same path)
        subs = [e for e in ev if e.kind == 'sub']
        starts = [i for i, e in enumerate(subs) if e.func == 'self.eval_expr' and [src(a) for a in e.args[:2]] == ['self.r0', 'expr.left']]
        if starts:
            subs = subs[starts[-1]:]
        want = [('self.eval_expr', ['self.r0', 'expr.left'], 'left_bubble'),
                ('self.get_expr_value', ['self.r1', 'expr.right'], 'right'),
                ('self.pop_value', ['self.r0', 'left_bubble'], 'left')]
        got = [(e.func, [src(a) for a in e.args], e.bound) for e in subs[:3]]
        keep = src(subs[0].kwargs.get('keep')) if subs else None
        return got == want and keep == 'not self.is_safe(expr.right)', got

    n_cmp = 0
    for p, ev in gf.inlined('bool_expr_branch'):
        if p.outcome == 'raise':
            continue
        seq = items_of(ev)
        cmp_path = any(e.kind == 'cond' and 'compare_map.get(type(expr))' in e.text and e.truth for e in ev)
        if cmp_path:
            n_cmp += 1
            ok, got = operand_protocol(ev, 'branch')
            chk.expect(ok, 'C09.M2', 'bool_expr_branch[compare]::operands', f'left evaluated first into r0 (kept if the right '
                       f'side is unsafe), right into r1: {got}', GEN)
            em = [e for e in seq if e.kind in ('emit', 'splice')]
            names = [e.short() for e in em]
            desc = _describe(gf, ev, em)
            try:
                i_chk = desc.index((('tbl', 'compare_map'), ('left', 'right')))
                i_false = names.index('splice:if_false')
                i_lab = names.index('asm.Label(compare_is_true)')
                i_inv = next(i for i, d in enumerate(desc) if d[0][0] == 'inv' and d[1] == ('left', 'right')
                             and gf.ctor_kind(ev, ev.index(em[i_chk])) == ('tbl', 'compare_map'))
                i_true = names.index('splice:if_true')
                ok = names[i_chk - 1] == 'asm.Jump(compare_is_true)' and i_chk < i_false < i_lab < i_inv < i_true and i_inv == i_lab + 1
            except (ValueError, StopIteration):
                ok = False
            chk.expect(ok, 'C09.M2', 'bool_expr_branch[compare]::polarity',
                       f'false code must follow the relation check, true code must follow the inverse at the target: {names}', GEN)
        gen_path = any(_efg.cond_is(e, 'expr.type == DataType.BOOL') is True for e in ev)
        if gen_path:
            em = [e for e in seq if e.kind in ('emit', 'splice')]
            names = [e.short() for e in em]
            desc = _describe(gf, ev, em)
            try:
                i_chk = desc.index((('cls', 'Hne'), ('value', 'asm.IntLiteral(0)')))
                i_false = names.index('splice:if_false')
                i_lab = names.index('asm.Label(expr_is_true)')
                i_inv = desc.index((('cls', 'Heq'), ('value', 'asm.IntLiteral(0)')))
                i_true = names.index('splice:if_true')
                ok = names[i_chk - 1] == 'asm.Jump(expr_is_true)' and i_chk < i_false < i_lab < i_inv < i_true and i_inv == i_lab + 1
            except ValueError:
                ok = False
            chk.expect(ok, 'C09.M2', 'bool_expr_branch[generic]::polarity', f'non-zero is true: {names}', GEN)
    chk.floor('comparison branch paths', n_cmp, 1)
    # Not / And / Or structure of bool_expr_branch (not swaps the continuations; and / or evaluate the right side only when
    # needed; the end label is omitted exactly when the outcome leaves by a goto): decided by meaning, see condsim above
    for p, ev in gf.inlined('bool_expr_branch'):
        conds = _efg.Conds(ev)
        if conds.get('type(expr) is ast.BoolValue'):
            names = [e.short() for e in items_of(ev)]
            want = ['splice:if_true'] if conds.get('expr.data') else ['splice:if_false']
            chk.expect(names == want, 'C09.M2', f'bool_expr_branch[literal {conds.get("expr.data")}]', f'{names}', GEN)
        if conds.get('type(expr) is ast.And'):
            labs = [e.short() for e in ev if e.kind == 'emit' and e.ctor == 'asm.Label']
            subs = [e for e in ev if e.kind == 'sub' and e.func == 'self.bool_expr_branch']
            ok = labs[:1] == ['asm.Label(left_is_true)'] and len(subs) == 2
            if ok:
                i1, i2 = ev.index(subs[0]), ev.index(subs[1])
                il = [i for i, e in enumerate(ev) if e.kind == 'emit' and e.short() == 'asm.Label(left_is_true)'][0]
                ok = i1 < il < i2
            chk.expect(ok, 'C09.M2', 'bool_expr_branch[and]::label order', 'left, Label(left_is_true), right', GEN)
        if conds.get('type(expr) is ast.Or'):
            subs = [e for e in ev if e.kind == 'sub' and e.func == 'self.bool_expr_branch']
            il = [i for i, e in enumerate(ev) if e.kind == 'emit' and e.short() == 'asm.Label(left_is_false)']
            ok = len(subs) == 2 and il and ev.index(subs[0]) < il[0] < ev.index(subs[1])
            chk.expect(ok, 'C09.M2', 'bool_expr_branch[or]::label order', 'left, Label(left_is_false), right', GEN)
    # value lowering: BooleanOp arm sets 1 on true, 0 on false
    for p, ev in gf.inlined('eval_expr'):
        arm = F.arm_of(ev, len(ev) - 1)
        if arm.startswith('BooleanOp') and p.outcome != 'raise':
            sub = [e for e in ev if e.kind == 'sub' and e.func == 'self.bool_expr_branch']
            ok = len(sub) == 1 and [src(a) for a in sub[0].args] == [
                'expr', 'tuple(bubble.value.set(asm.IntLiteral(1)))', 'tuple(bubble.value.set(asm.IntLiteral(0)))']
            chk.expect(ok, 'C09.M2', 'eval_expr[BooleanOp]::value lowering',
                       'a boolean operator used as a value is the branch lowering storing 1 (true) / 0 (false)', GEN)
            break
    # defeat lowering
    for p, ev in gf.inlined('truth_is_defeat'):
        if p.outcome == 'raise':
            continue
        conds = _efg.Conds(ev)
        em = [e for e in ev if e.kind == 'emit' and e.ctor != 'asm.Metadata']
        if any('compare_map.get(type(expr))' in t and v for t, v in conds.items()):
            ok, got = operand_protocol(ev, 'defeat')
            chk.expect(ok, 'C09.M2', 'truth_is_defeat[compare]::operands', f'{got}', GEN)
    # (what truth_is_defeat halts on - the relation itself for comparisons, non-zero for values, each disjunct in turn, a bare
    # defeat for the literal true - is decided by meaning: condsim.run_defeat, both with the real halt and a virtual handler)
    # the only wrappers the boolean lowerings may look through are `not` (swaps polarity) and one int->bool cast: decided by
    # meaning (condsim: the truthiness of an int narrowed to a byte is tested on the low byte in every position)
    # out-of-range constants are reduced modulo 2^(8w), nothing else
    ee = gf.methods['eval_expr']
    red = [n for n in ast.walk(ee) if isinstance(n, ast.AugAssign) and src(n.target) == 'data']
    if red:
        ok = all(isinstance(n.op, ast.BitAnd) and src(n.value) == 'self.max_unsigned' for n in red)
        chk.expect(ok, 'C09.M1', 'eval_expr[IntValue]::constant reduction',
                   f'{[src(n) for n in red]}: an out-of-range constant must be reduced with `& max_unsigned` (modulo 2^(8w)), '
                   'the value the assembler would wrap it to', GEN)
    # arithmetic arm operand protocol
    for p, ev in gf.inlined('eval_expr'):
        arm = F.arm_of(ev, len(ev) - 1)
        if arm.startswith('BinaryArithmeticOp') and p.outcome != 'raise':
            subs = [e for e in ev if e.kind == 'sub'][:4]
            got = [(e.func, [src(a) for a in e.args], e.bound) for e in subs]
            want = [('self.eval_expr', ['self.r0', 'expr.left'], 'left_bubble'),
                    ('self.get_expr_value', ['self.r1', 'expr.right'], 'right'),
                    ('self.pop_value', ['self.r0', 'left_bubble'], 'left'),
                    ('self.arith_op_reg_arg', ['type(expr)', 'r_out', 'left', 'right'], None)]
            keep = src(subs[0].kwargs.get('keep')) if subs else None
            chk.expect(got == want and keep == 'not self.is_safe(expr.right)', 'C09.M2', 'eval_expr[BinaryArithmeticOp]::operands',
                       f'{got} keep={keep}', GEN)
            break
    for p, ev in gf.inlined('arith_op_reg_arg'):
        if p.outcome == 'raise':
            continue
        em = [e for e in ev if e.kind == 'emit' and e.ctor != 'asm.Metadata']
        last = em[-1]
        chk.expect(gf.ctor_kind(ev, ev.index(last)) == ('tbl', 'arith_map') and [src(a) for a in last.args] == ['r_out', 'arg_left', 'arg_right'],
                   'C09.M2', 'arith_op_reg_arg::instruction', f'{last.short()}', GEN)
    # is_safe tabulated over one instance of every expression class (interpreted): only literals and plain variable reads
    genmod = it.load(GEN)
    astns = it.load('hidc/ast/__init__.py')
    CGc = genmod['CodeGen']
    stub_self = object.__new__(CGc)
    stub_self.unchecked = False
    safe_true, safe_err = [], None
    n_cls = 0
    for cname, cls_ in sorted(astns.items()):
        if isinstance(cls_, type) and issubclass(cls_, astns['Expression']) and cls_ is not astns['Expression']:
            try:
                inst = object.__new__(cls_)
            except TypeError:
                continue
            n_cls += 1
            try:
                if stub_self.is_safe(inst):
                    safe_true.append(cname)
            except Exception as e:      # noqa
                safe_err = f'{cname}: {type(e).__name__}: {e}'
    want_safe = sorted(c for c, k in astns.items() if isinstance(k, type) and
                       (issubclass(k, astns['PrimitiveValue']) or issubclass(k, astns['VariableLookup'])))
    chk.expect(safe_err is None and sorted(safe_true) == want_safe, 'C09.M2', 'is_safe',
               f'is_safe accepts {sorted(safe_true)}; only literals and plain variable reads ({want_safe}) can be evaluated without '
               f'touching registers or globals {safe_err or ""}', GEN)

    # ---------------- M2 by meaning ------------------------------------------------------------
    # the control skeleton the condition lowerings build, simulated under the jump / halt lemmas for every truth assignment
    from .. import condsim
    chk.count('condition_simulations', condsim.decide(repo, chk, 'C09.M2', 'C09.M2', GEN))

    # ---------------- M3 -------------------------------------------------------------------
    for p, ev in gf.inlined('un_op_reg_arg'):
        if p.outcome == 'raise':
            continue
        conds = _efg.Conds(ev)
        em = [e.short() for e in ev if e.kind == 'emit']
        if conds.get('op_type is ast.Neg'):
            chk.expect(em == ['asm.Sub(r_out, asm.IntLiteral(0), arg_in)'], 'C09.M3', 'un_op_reg_arg[Neg]', f'{em}', GEN)
        elif conds.get('op_type is ast.Not'):
            chk.expect(em == ['asm.Sub(r_out, asm.IntLiteral(1), arg_in)'], 'C09.M3', 'un_op_reg_arg[Not]', f'{em}', GEN)
        elif conds.get('op_type is ast.Pos'):
            want = ['asm.Mov(r_out, arg_in)'] if conds.get('arg_in != asm.State(r_out)') else []
            chk.expect(em == want, 'C09.M3', f'un_op_reg_arg[Pos moved={bool(want)}]', f'{em}', GEN)
    n_norm = 0
    for p, ev in gf.inlined('eval_expr'):
        arm = F.arm_of(ev, len(ev) - 1)
        if not arm.startswith('IntToBool') or p.outcome == 'raise':
            continue
        conds = _efg.Conds(ev)
        em = [e.short() for e in items_of(ev)]
        if conds.get('isinstance(value, asm.IntLiteral)'):
            # the folded literal is what is returned: directly, or as `result` through the common tail (where a literal,
            # being an Immediate, is packed and never pushed - the path that takes it for a non-immediate cannot happen)
            if conds.get('isinstance(result, asm.Immediate)') is False and _is_subclass(repo, 'IntLiteral', 'Immediate'):
                continue
            rets = [_efg.expand(ev, i, e.value, keep=('value',)) for i, e in enumerate(ev) if e.kind == 'return']
            chk.expect(rets == ['self.vacpack(asm.IntLiteral(int(bool(value.data))))'], 'C09.M3', 'eval_expr[IntToBool literal]', f'{rets}', GEN)
            continue
        n_norm += 1
        want = ['value = sub:self.get_expr_value(r_out, expr.expr)', 'sub:value.to(r_out)', 'asm.Jump(bool_normalized)',
                'asm.Hleu(asm.State(r_out), asm.IntLiteral(1))', 'asm.Mov(r_out, asm.IntLiteral(1))',
                'asm.Label(bool_normalized)', 'asm.Hgtu(asm.State(r_out), asm.IntLiteral(1))']
        chk.expect(em[:7] == want, 'C09.M3', 'eval_expr[IntToBool]::normalisation',
                   f'a value greater than 1 UNSIGNED must be replaced by exactly 1 (hleu / mov 1 / hgtu): {em[:7]}', GEN)
    chk.floor('bool normalisation paths', n_norm, 1)

    # ---------------- M4 --------------------------------------------------------------------
    asm = it.load(ASM)
    L = asm['LabelRef']('x')
    S = asm['Section']
    st = asm['State'](L)
    chk.expect(type(st.access_byte()).__name__ == 'StateByte' and st.access_byte().immed == L, 'C09.M4', 'State.access_byte', '', ASM)
    co = asm['Const'](L)
    chk.expect(type(co.access_byte()).__name__ == 'ConstByte' and co.access_byte().immed == L, 'C09.M4', 'Const.access_byte', '', ASM)
    ind = asm['Indirect'](S.STATE, st, asm['IntLiteral'](-4))
    ib = ind.access_byte()
    chk.expect(type(ib).__name__ == 'IndirectByte' and ib.section is S.STATE and ib.base == st and ib.offset == asm['IntLiteral'](-4),
               'C09.M4', 'Indirect.access_byte', 'same section/base/offset, byte width', ASM)
    chk.expect(all(asm['IntLiteral'](v).access_byte().data == (v & 0xFF) for v in (0, 1, 255, 256, 258, -1, 65535, -32768)),
               'C09.M4', 'IntLiteral.access_byte', 'low byte of the literal', ASM)
    want_sect = {'STATE': ('State', 'StateByte', 'Lws', 'Lwso', 'Lbs', 'Lbso', 'Sws', 'Swso', 'Sbs', 'Sbso')}
    names = ('word', 'byte', 'lw', 'lwo', 'lb', 'lbo', 'sw', 'swo', 'sb', 'sbo')
    got = tuple(getattr(getattr(S.STATE, n), '__name__', '?') for n in names)
    chk.expect(got == want_sect['STATE'], 'C09.M4', 'Section.STATE slots', f'{dict(zip(names, got))}', ASM)
    gotc = tuple(getattr(getattr(S.CONST, n), '__name__', '?') for n in names[:6])
    chk.expect(gotc == ('Const', 'ConstByte', 'Lwc', 'Lwco', 'Lbc', 'Lbco'), 'C09.M4', 'Section.CONST slots', f'{gotc}', ASM)
    # accessor get/set emissions (generators: read structurally)
    # accessor get / set emissions: decided by the interpreted accessor tabulation in rendering() for every accessor class
    # (also with aliased registers), whichever base class holds the code
    # State.set / Accessor.to: decided by the interpreted accessor tabulation in rendering() (State.set, State.set self,
    # State.to, Indirect.to, IntLiteral.to, aliased cases)
    for p, ev in gf.inlined('eval_expr'):
        arm = F.arm_of(ev, len(ev) - 1)
        if arm.startswith('IntToByte') and p.outcome != 'raise':
            em = items_of(ev)
            rets = [src(e.value) for e in ev if e.kind == 'return']
            ok = len(em) == 1 and em[0].kind == 'sub' and em[0].func == 'self.eval_expr' and \
                rets == ['bubble.with_value(bubble.value.access_byte())']
            chk.expect(ok, 'C09.M4', 'eval_expr[IntToByte]', 'narrowing only switches to byte access of the same slot', GEN)
            break
    for p, ev in gf.inlined('push_expr'):
        if any(e.kind == 'cond' and 'ast.ByteToInt' in e.text and e.truth for e in ev):
            seq = [e.short() for e in ev if e.kind in ('sub', 'call', 'assign') and ('reserve_word' in e.short() or '.set(' in e.short()
                                                                                      or 'offset=-1' in e.short() or 'push_expr' in e.short())]
            ok = any('sub:bubble.value.set(asm.IntLiteral(0))' in s for s in seq) and any('self.stack.add(offset=-1)' in s for s in seq)
            order = [i for i, s in enumerate(seq) if 'set(asm.IntLiteral(0))' in s] + [i for i, s in enumerate(seq) if 'sub:self.push_expr' in s]
            ok = ok and len(order) == 2 and order[0] < order[1]
            chk.expect(ok, 'C09.M4', 'push_expr[ByteToInt]', 'widening zeroes a word, then pushes the byte into its low end', GEN)
            break

    # explicit casts survive in the typechecked tree (a narrowing cast is never optimised away) - shared with C07.K1
    if chk.__class__.__name__ == 'Check':
        from . import c07
        from ..report import Remap
        c07.run(repo, Remap(chk, {'C07.K1': 'C09.M4'}))
        # ... and the casts of CONSTANTS computed by the typechecker give what the run-time casts give (three positions of one
        # cast must agree: literal, folded, run-time) - shared with the literal-narrowing tabulation C14.W2
        from . import c14
        c14.run(repo, Remap(chk, {'C14.W2': 'C09.M4'}))
        # ... and the typechecker neither drops a narrowing on a round trip nor folds a comparison by a wrong range (typing census)
        from .. import typecensus
        typecensus.decide(repo, chk, 'C09.M4', {'casts kept', 'compare'}, 'hidc/ast/operators.py')

    # ---------------- M5 ---------------------------------------------------------------------
    bases = repo.class_bases(OPERATORS)

    def concrete_subclasses(base):
        subs = repo.subclasses(OPERATORS, base)
        return {s for s in subs if not any(base_ in subs and False for base_ in [])
                and not any(s in bs for bs in bases.values())}
    bool_ops = concrete_subclasses('BooleanOp')
    handled = {k.replace('ast.', '') for k in gf.compare_map} | {'Not', 'And', 'Or'}
    chk.expect(bool_ops <= handled, 'C09.M5', 'bool_expr_branch handles every BooleanOp',
               f'unhandled: {sorted(bool_ops - handled)}', GEN)
    ar_ops = concrete_subclasses('BinaryArithmeticOp')
    chk.expect(ar_ops <= {k.replace('ast.', '') for k in gf.arith_map}, 'C09.M5', 'arith_map handles every BinaryArithmeticOp',
               f'unhandled: {sorted(ar_ops - {k.replace("ast.", "") for k in gf.arith_map})}', GEN)
    un_ops = concrete_subclasses('Unary')
    un_text = src(gf.methods['un_op_reg_arg'])
    missing = [u for u in un_ops if f'op_type is ast.{u}' not in un_text]
    chk.expect(not missing, 'C09.M5', 'un_op_reg_arg handles every Unary', f'unhandled: {missing}', GEN)
    tdef = src(gf.methods['truth_is_defeat'])
    chk.expect('compare_map.get(type(expr))' in tdef and 'type(expr) is ast.Or' in tdef and 'expr.type == DataType.BOOL' in tdef,
               'C09.M5', 'truth_is_defeat dispatch', 'comparisons, or, literals, generic booleans', GEN)
    # eval_expr match order: Unary before BooleanOp (Not is both)
    ee = gf.methods['eval_expr']
    m = [n for n in ast.walk(ee) if isinstance(n, ast.Match)]
    pats = [src(c.pattern) for c in m[0].cases] if m else []
    chk.expect('ast.Unary()' in pats and 'ast.BooleanOp()' in pats and pats.index('ast.Unary()') < pats.index('ast.BooleanOp()'),
               'C09.M5', 'eval_expr arm order', '`not` as a value must take the unary arm (1 - x)', GEN)
    _compound_width(repo, chk)
    chk.not_decided = ['arithmetic of the VM at boundary values (wrap-around, signed compare, truncation)']
