"""C01 - compiled code computes what the source says: necessary structural conditions of the sequential core."""
from __future__ import annotations

import ast
import re

from .. import efg as _efg
from ..pyfacts import AnalysisError, src
from ..genfacts import new_codegen, GenFacts, GEN, STDLIB
from ..asmtext import AsmText, parse_offset
from ..consteval import Interp
from ..report import Remap
from .. import forms as F

SCRATCH = ('self.r0', 'self.r1', 'self.r2', 'r_out', 'r_use')
EVALUATING = {'self.get_expr_value', 'self.eval_expr', 'self.push_expr'}
CLOBBER_ALL = EVALUATING | {'self.eval_func_call', 'self.array_lookup', 'self.array_assignment', 'self.bool_expr_branch',
                            'self.truth_is_defeat', 'self.gen_block', 'self.gen_stmts', 'self.arith_op_reg_arg'}
HOLD_FUNCS = ['eval_expr', 'bool_expr_branch', 'truth_is_defeat', 'array_lookup', 'array_assignment', 'gen_stmts',
              'eval_func_call', 'push_expr', 'get_expr_value', 'pop_value', 'push_value']


def expr_arg(e):
    """The source-expression argument of an evaluating sub (2nd positional)."""
    if e.func in EVALUATING and len(e.args) >= 2:
        return src(e.args[1])
    return None


class Hold:
    """Register-hold discipline along one path."""

    def __init__(self, fn, ev):
        self.fn = fn
        self.ev = ev
        self.held = {}        # python variable -> register text
        self.stale = {}       # python variable -> description of the clobbering event
        self.bubbles = {}     # bubble variable -> (keep text, r_out)
        self.problems = []
        self.ctor_of = {}     # variable -> asm constructor it was last assigned from
        self.last_written = None

    def clobber(self, regs, why):
        for v, r in list(self.held.items()):
            if regs == 'all' or r in regs:
                self.stale[v] = why
                del self.held[v]

    def use(self, names, e):
        for n in names:
            if n in self.stale:
                self.problems.append((f'{n} used after {self.stale[n]}',
                                      f'`{n}` may live in a scratch register that `{self.stale[n]}` overwrites, but it is used afterwards in '
                                      f'`{e.short()[:80]}`', e.line))

    def run(self):
        for e in self.ev:
            if e.kind == 'cond':
                # paths that contradict the constructor a variable was just assigned from are infeasible
                m = re.fullmatch(r'isinstance\((\w+), asm\.(\w+)\)', e.text)
                if m and m.group(1) in self.ctor_of:
                    is_it = self.ctor_of[m.group(1)] == f'asm.{m.group(2)}'
                    if is_it != e.truth:
                        return []
                continue
            if e.kind in ('emit', 'sub') and not (e.kind == 'emit' and e.ctor == 'asm.Metadata'):
                pass
            if e.kind in ('emit', 'sub', 'call', 'silent'):
                names = set()
                for a in list(e.args) + list(e.kwargs.values()):
                    names |= {n.id for n in ast.walk(a) if isinstance(n, ast.Name)}
                if e.recv is not None:
                    names |= {n.id for n in ast.walk(e.recv) if isinstance(n, ast.Name)}
                if e.kind != 'call' or e.func.startswith('self.'):
                    self.use(names, e)
            if e.kind == 'sub':
                f = e.func
                args = [src(a) for a in e.args]
                self.last_written = args[0] if f in ('.get', '.to', '.get_fast') and args else None
                if f in EVALUATING:
                    ex = expr_arg(e)
                    # every live bubble must be protected against this evaluation
                    for b, (keep, reg, line) in list(self.bubbles.items()):
                        if keep in ('True', f'not self.is_safe({ex})'):
                            continue
                        self.problems.append((f'{b} not protected against evaluating {ex}',
                                              f'`{b}` was produced with keep={keep} but `{ex}` is evaluated while it is still pending: '
                                              f'the value may sit in a scratch register or a mutable global that evaluating `{ex}` changes '
                                              f'(keep must be True or `not self.is_safe({ex})`)', e.line))
                    self.clobber('all', f'{f.replace("self.", "")}({ex})')
                    if f == 'self.get_expr_value' and isinstance(e.bound, str):
                        self.held[e.bound] = args[0]
                        self.stale.pop(e.bound, None)
                    if f in ('self.eval_expr', 'self.push_expr') and isinstance(e.bound, str):
                        keep = src(e.kwargs['keep']) if 'keep' in e.kwargs else (args[2] if len(args) > 2 else ('True' if f == 'self.push_expr' else 'False'))
                        self.bubbles[e.bound] = (keep, args[0], e.line)
                elif f == 'self.pop_value':
                    self.clobber({args[0]}, f'pop_value({args[0]}, ..)')
                    if len(args) > 1:
                        self.bubbles.pop(args[1], None)
                    if isinstance(e.bound, str):
                        self.held[e.bound] = args[0]
                        self.stale.pop(e.bound, None)
                elif f == 'self.pop' and args:
                    self.bubbles.pop(args[0], None)
                elif f in ('.get', '.to', '.get_fast') and args:
                    self.clobber({args[0]}, f'{src(e.recv)}{f}({args[0]})')
                    if isinstance(e.bound, str):
                        self.held[e.bound] = args[0]
                        self.stale.pop(e.bound, None)
                elif f in CLOBBER_ALL:
                    self.clobber('all', f.replace('self.', ''))
                elif f.startswith('self.') and args and args[0] in SCRATCH:
                    # any other emitting helper handed a scratch register as its destination writes it
                    # (get_array_size(self.r0, ..), arith_op_reg_arg(r_out, ..)); its result lives there
                    self.clobber({args[0]}, f'{f.replace("self.", "")}({args[0]}, ..)')
                    if isinstance(e.bound, str):
                        self.held[e.bound] = args[0]
                        self.stale.pop(e.bound, None)
                elif f == '.set':
                    pass
            elif e.kind == 'emit':
                if e.args and src(e.args[0]) in SCRATCH and e.ctor.startswith(('asm.', 'section.l', 'lo_instr', 'instr')) \
                        and not e.ctor.startswith(('asm.H', 'asm.Jump', 'asm.Label', 'asm.Yield', 'asm.Sleep', 'asm.Flag', 'asm.S')):
                    self.clobber({src(e.args[0])}, f'{e.ctor}({src(e.args[0])}, ..)')
                    self.last_written = src(e.args[0])
            elif e.kind == 'assign' and isinstance(e.value, (ast.YieldFrom, ast.Await)):
                continue      # the binding was recorded by the `sub` event of the same statement
            elif e.kind == 'assign' and isinstance(e.value, ast.AST):
                # aliasing: x = asm.State(self.r1)
                m = re.fullmatch(r'asm\.State\((self\.r\d|r_out|r_use)\)', src(e.value)) if not isinstance(e.value, ast.AugAssign) else None
                if isinstance(e.value, ast.Call) and src(e.value.func).startswith('asm.'):
                    self.ctor_of[e.target] = src(e.value.func)
                if m and self.last_written == m.group(1):
                    # names the register just written by the previous instruction: a held value from here on
                    self.held[e.target] = m.group(1)
                    self.stale.pop(e.target, None)
                elif m:
                    # forward declaration of an output register (`result = asm.State(r_out)`): not a held value
                    self.held.pop(e.target, None)
                    self.stale.pop(e.target, None)
                elif e.target in self.held and e.text not in ('aug',):
                    del self.held[e.target]
                if e.target in self.stale and e.text != 'aug':
                    self.stale.pop(e.target, None)
        return self.problems


def run(repo, chk):
    chk.explanation = (
        'Necessary conditions of correct sequential compilation, each decided on every emission path or by finite '
        'tabulation: caller and callee derive the same frame layout (return address first, one slot per argument in '
        'order, arrays as (length, origin), result in the callee\'s slot 0 = the slot the caller reads); the library '
        'routines read the slots their signature puts there; the return address is loaded before slot 0 is '
        'overwritten; operands are evaluated left to right and call arguments in order; a value that may live in a '
        'scratch register (or a pending operand that may live in a mutable global) is never used after an event that '
        'can overwrite it; locals are looked up before globals and bound only after their initialiser ran; the '
        'entry frame laid out by gen_lines is the frame gen_func expects for @is_you.  The bytes a program prints '
        'are not decided.')
    chk.assumptions = ['Sphinx lemmas; little-endian words and a downward-growing frame as assumed by the generator comments']
    chk.rule('C01.P1', 'call protocol: reserve_type and frame_size agree for every type and word size; arrays are (length, origin); caller/callee slot order; result slot')
    chk.rule('C01.P2', 'library agreement: fp-relative loads of each routine are exactly the slots of its signature, with the right roles')
    chk.rule('C01.P3', 'return: the return address is loaded before the return value overwrites slot 0, in a different register')
    chk.rule('C01.E1', 'evaluation order: left before right, source before index before right-hand side, arguments in order')
    chk.rule('C01.R1', 'scratch-register hold discipline: pending operands are protected against what is evaluated next; held values are not used after a clobber')
    chk.rule('C01.S1', 'scoping: locals before globals; a declaration is bound after its initialiser; globals materialised once from their initialiser')
    chk.rule('C01.A1', 'entry binding: reversed entry arguments, then the win return address, then stack_end; array parameter as (length, origin)')
    gf = GenFacts(repo)
    it = Interp(repo)
    gen = it.load(GEN)
    sym = it.load('hidc/codegen/symbols.py')
    tok = it.load('hidc/lexer/tokens.py')
    astns = it.load('hidc/ast/__init__.py')
    DT = tok['DataType']
    CG, SP, Tracker = gen['CodeGen'], gen['StackPoint'], gen['Tracker']
    CAT, AM, ATy = sym['ConcreteArrayType'], sym['AccessMode'], astns['ArrayType']

    def fresh(w):
        g = new_codegen(CG)
        g.word_size = w
        g.stack = SP()
        g.checkpoints = Tracker()
        g.allocated_arrays = []
        return g

    # ---------------- P1 ----------------------------------------------------------------
    types = [DT.INT, DT.BOOL, DT.BYTE, DT.STRING, DT.EMPTY, CAT(DT.INT, AM.RW), CAT(DT.BYTE, AM.RC), CAT(DT.BOOL, AM.R)]
    for w in (2, 3, 4, 8):
        for t in types:
            g = fresh(w)
            g.reserve_word()      # the return address
            before = g.stack.offset
            try:
                b = g.reserve_type(t)
            except Exception as e:      # noqa
                raise AnalysisError(f'cannot tabulate reserve_type({t}): {type(e).__name__}: {e}')
            delta = g.stack.offset - before
            fs = g.frame_size(t)
            chk.expect(delta == fs, 'C01.P1', f'reserve_type/frame_size({t}, w={w})',
                       f'callee reserves {delta} bytes, caller assumes {fs}: push_expr keeps a pushed value only when its size '
                       'equals frame_size, so a mismatch shifts every later argument', GEN)
            if isinstance(t, CAT):
                lo = -b.value.length.offset.data
                oo = -b.value.origin.offset.data
                chk.expect(lo == before + w and oo == before + 2 * w, 'C01.P1', f'array reference layout (w={w}, {t.el_type.value})',
                           f'length at fp-{lo}, origin at fp-{oo}; expected length nearer to the return address', GEN)
            elif t != DT.EMPTY:
                off = -b.value.offset.data
                chk.expect(off == before + fs, 'C01.P1', f'slot address ({t}, w={w})', f'slot at fp-{off}', GEN)
            g2 = fresh(w)
            ra = g2.reserve_word()
            chk.expect(-ra.value.offset.data == w, 'C01.P1', f'return address slot (w={w})', 'RA at fp-1w', GEN)
    # callee: RA then parameters in declaration order
    for p, ev in gf.inlined('gen_func'):
        if p.outcome == 'raise':
            continue
        seq = [e for e in ev if e.kind in ('call', 'assign') and (e.kind == 'assign' or e.func in ('self.reserve_word', 'self.reserve_type'))]
        calls = [e for e in ev if e.kind == 'call' and e.func in ('self.reserve_word', 'self.reserve_type')]
        first = calls[0] if calls else None
        ok = first is not None and first.func == 'self.reserve_word' and first.bound == 'bubble'
        ra = [src(e.value) for e in ev if e.kind == 'assign' and e.target == 'self.return_address']
        ok = ok and ra == ['bubble.value']
        loops = [e.text for e in ev if e.kind == 'iter']
        ok = ok and all(t == 'for (arg_type, param) in zip(csig.concrete_params, func.params, strict=True)' for t in loops)
        for e in calls[1:]:
            ok = ok and e.func == 'self.reserve_type' and [src(a) for a in e.args] == ['arg_type']
        binds = [src(e.value) for e in ev if e.kind == 'assign' and e.target == 'self.local_vars[param.var.name]']
        ok = ok and all(b == 'arg_bubble.value' for b in binds) and len(binds) == len(calls) - 1
        if not ok:
            chk.fail('C01.P1', 'gen_func::frame', 'the callee frame must be: return address, then one reserve_type per parameter in '
                     'declaration order, each bound to its parameter name', GEN)
            break
    else:
        chk.ok('C01.P1', 'gen_func::frame', 'RA, then parameters in order')
    # caller
    n_call = 0
    bad_call = None
    for p, ev in gf.inlined('eval_func_call'):
        if p.outcome == 'raise' or not any(e.kind == 'emit' and e.ctor == 'asm.Add' and src(e.args[0]) == 'self.fp' for e in ev):
            continue
        n_call += 1
        calls = [e for e in ev if (e.kind == 'call' and e.func == 'self.reserve_word') or (e.kind == 'sub' and e.func == 'self.push_expr')]
        ok = calls and calls[0].func == 'self.reserve_word' and calls[0].bound == 'bubble'
        ok = ok and all(e.func == 'self.push_expr' and [src(a) for a in e.args] == ['self.r1', 'arg'] for e in calls[1:])
        loops = [e.text for e in ev if e.kind == 'iter']
        ok = ok and all(t == 'for arg in args' for t in loops)
        setra = [e for e in ev if e.kind == 'sub' and e.func == '.set' and src(e.recv) == 'bubble.value']
        ok = ok and len(setra) == 1 and src(setra[0].args[0]) == 'end_call'
        # result slot: reserve_type(ret_type) directly after pop(bubble)
        idx_pop = [i for i, e in enumerate(ev) if e.kind == 'sub' and e.func == 'self.pop' and src(e.args[0]) == 'bubble']
        rets = [e for e in ev if e.kind == 'return']
        ok = ok and idx_pop and rets and src(rets[-1].value) == 'self.reserve_type(ret_type)'
        if ok:
            between = [e for e in ev[idx_pop[-1] + 1:] if e.kind in ('sub', 'emit') or (e.kind == 'call' and e.func.startswith('self.reserve')
                                                                                        and src(e.node) != 'self.reserve_type(ret_type)')]
            ok = not between
        sig = [src(e.value) for e in ev if e.kind == 'assign' and e.target == 'label']
        ok = ok and sig == ['self.label_for_func(ConcreteSignature(name, tuple(concrete_params)))']
        if not ok:
            bad_call = 'the caller must push the return address (end_call), then each argument in order with push_expr, call the '\
                       'specialisation for the concrete parameter types, and read the result from the slot where the frame began'
    chk.expect(bad_call is None and n_call > 0, 'C01.P1', 'eval_func_call::frame', bad_call or f'{n_call} call paths', GEN)
    from . import c08
    c08.run(repo, Remap(chk, {'C08.L5': 'C01.P1'}))
    # push_expr copies an array reference as (length, origin)
    for p, ev in gf.inlined('push_expr'):
        if any(e.kind == 'cond' and e.text == 'isinstance(expr.type, ArrayType)' and e.truth for e in ev) and p.outcome != 'raise':
            subs = [(e.func, src(e.recv) if e.recv is not None else '', [src(a) for a in e.args]) for e in ev if e.kind == 'sub' and e.func in ('.get', '.set')]
            want = [('.get', 'bubble.value.length', ['r_use']), ('.set', 'new_bubble.value.length', ['length']),
                    ('.get', 'bubble.value.origin', ['r_use']), ('.set', 'new_bubble.value.origin', ['origin'])]
            chk.expect(subs == want, 'C01.P1', 'push_expr[array reference]', f'{subs}', GEN)
            break

    # ---------------- P3 return ------------------------------------------------------------
    n_ret = 0
    bad = None
    for p, ev in gf.inlined('gen_stmts'):
        arm = F.arm_of(ev, len(ev) - 1)
        if not arm.startswith('ReturnStatement') or p.outcome != 'return':
            continue
        conds = _efg.Conds(ev)
        if conds.get('stmt.value is not None') is not True:
            continue
        n_ret += 1
        idx = {k: None for k in ('val', 'ra', 'enter', 'res', 'set', 'exit')}
        for i, e in enumerate(ev):
            if e.kind == 'sub' and e.func == 'self.get_expr_value' and e.bound == 'retval':
                idx['val'] = (i, src(e.args[0]))
            elif e.kind == 'sub' and e.func == '.get' and e.bound == 'ra' and src(e.recv) == 'self.return_address':
                idx['ra'] = (i, src(e.args[0]))
            elif e.kind == 'enter' and e.text == 'self.at_offset(0)':
                idx['enter'] = (i, '')
            elif e.kind == 'call' and e.func == 'self.reserve_type' and [src(a) for a in e.args] == ['stmt.value.type'] and idx['enter']:
                idx['res'] = (i, '')
            elif e.kind == 'sub' and e.func == '.set' and src(e.recv) == 'bubble.value' and [src(a) for a in e.args] == ['retval']:
                idx['set'] = (i, '')
            elif e.kind == 'exit' and e.text == 'self.at_offset(0)':
                idx['exit'] = (i, '')
        if any(v is None for v in idx.values()):
            bad = f'steps missing: {[k for k, v in idx.items() if v is None]}'
            break
        order = [idx[k][0] for k in ('val', 'ra', 'enter', 'res', 'set', 'exit')]
        if order != sorted(order) or idx['val'][1] == idx['ra'][1]:
            bad = 'order must be: value into one register, return address into another, then the value stored to slot 0'
            break
    chk.expect(bad is None and n_ret > 0, 'C01.P3', 'gen_stmts[ReturnStatement]::value return', bad or f'{n_ret} paths', GEN)

    # ---------------- P2 library agreement ----------------------------------------------------
    at = AsmText(repo)
    from ..textforms import TextForms
    tf = TextForms(at)
    stdlib = it.load(STDLIB)
    for csig, label in stdlib['stdlib_funcs'].items():
        lab = label.label_name
        if lab in ('all_is_win', 'all_is_broken') or lab not in at.labels:
            continue
        # expected slots (symbolic in w): compute at two word sizes and solve a*w + b
        offs = {}
        for w in (2, 3):
            g = fresh(w)
            g.reserve_word()
            slots = [('RA', w)]
            for t in csig.concrete_params:
                b = g.reserve_type(t)
                if isinstance(t, CAT):
                    slots.append(('length', -b.value.length.offset.data))
                    slots.append(('origin', -b.value.origin.offset.data))
                else:
                    slots.append(('arg', -b.value.offset.data))
            offs[w] = slots
        want = {}
        for (role, o2), (_, o3) in zip(offs[2], offs[3]):
            a = o3 - o2
            b = o2 - 2 * a
            want[(-a, -b)] = role
        # loads from [fp] in the routine (up to the next public routine)
        got = {}
        reach = tf.reachable(lab)
        for i in sorted(reach[0]) if reach else []:
            x = at.ins[i]
            if x.op in ('lwso', 'lbso') and x.args[1] == '[fp]':
                po = parse_offset(x.args[2])
                got.setdefault(po, (x.op, x.args[0]))
        ok = set(got) == set(want)
        detail = f'loads {sorted(got)} vs slots {sorted(want)}'
        if ok:
            for po, role in want.items():
                op, reg = got[po]
                if role == 'arg' and csig.concrete_params[0].byte_sized if hasattr(csig.concrete_params[0], 'byte_sized') else False:
                    ok = ok and op == 'lbso'
                elif role in ('RA', 'length', 'origin') or role == 'arg':
                    ok = ok and op == ('lbso' if (role == 'arg' and getattr(csig.concrete_params[0], 'byte_sized', False)) else 'lwso')
                if role == 'origin':
                    ok = ok and reg == '[r0]'
                if role == 'length':
                    ok = ok and reg == '[r1]'
        chk.expect(ok, 'C01.P2', f'stdlib:{lab}', f'the routine must read exactly the slots its signature occupies ({detail}); pointer from the '
                   'origin slot, counter from the length slot', STDLIB)

    # ---------------- E1 ------------------------------------------------------------------------
    from . import c09, c02
    chk.rule('C01.V1', 'value lowerings shared with C09/C04: unary operators, strict 0/1 bool normalisation, byte access / widening, '
                       'element index scaling at every word size')
    # (the operator rows of C09.M1 too: the instruction each operator maps to, the inverse of each conditional halt, what each
    # accessor's get / set / to emits and how each instruction is rendered - a sequential program depends on every one of them)
    c09.run(repo, Remap(chk, {'C09.M1': 'C01.V1', 'C09.M2': 'C01.E1', 'C09.M3': 'C01.V1', 'C09.M4': 'C01.V1'}))
    from . import c04, c16
    c04._scale(repo, Remap(chk, {'C04.A4': 'C01.V1'}), gf)
    chk.rule('C01.X1', 'statements are generated iff reachable: the exit-mode analysis never drops code that can run (shared with C16.E1/E2/E3)')
    c16.run(repo, Remap(chk, {'C16.E1': 'C01.X1', 'C16.E2': 'C01.X1', 'C16.E3': 'C01.X1'}))
    c02.run(repo, Remap(chk, {'C02.T6': 'C01.E1'}))
    if chk.__class__.__name__ == 'Check':
        # what a program prints also depends on its constants reaching the output unchanged and on the write family doing
        # what the language says (shared with C13.B0-B3 and C17.D1-D7); C07 / C11 / C12 (typing, grouping, literal values)
        # are not repeated here
        chk.rule('C01.O1', 'output path: constant data reaches the assembly byte for byte (shared with C13.B0-B3); the write family '
                           'dispatches and prints as documented (shared with C17.D1-D7)')
        from . import c13, c17
        c13.run(repo, Remap(chk, {'C13.B0': 'C01.O1', 'C13.B1': 'C01.O1', 'C13.B2': 'C01.O1', 'C13.B3': 'C01.O1'}))
        c17.run(repo, Remap(chk, {f'C17.D{k}': 'C01.O1' for k in range(1, 8)}))
        # overload selection (part of the statement): the call is bound to the overload the rules select (typing census)
        from .. import typecensus
        typecensus.decide(repo, chk, 'C01.O1', {'overload'}, 'hidc/ast/expressions.py')
        # ... and a program that fits its stack runs: the entry guard of every function compares the way the frame needs it
        # (`>=`: a frame that exactly fits is accepted) - shared with C04.A3
        from . import c04 as _c04b
        _c04b.run(repo, Remap(chk, {'C04.A3': lambda c: 'C01.O1' if c.startswith('gen_func') else None}))
    for fname, want in (('array_lookup', ['src_expr', 'idx_expr']), ('array_assignment', ['src_expr', 'idx_expr', 'rhs_expr'])):
        bad = None
        n = 0
        for p, ev in gf.inlined(fname):
            if p.outcome == 'raise':
                continue
            n += 1
            order = [expr_arg(e) for e in ev if e.kind == 'sub' and e.func in EVALUATING and expr_arg(e) in want]
            if order != want[:len(order)] or len(order) < len(want):
                bad = f'evaluation order {order}, expected {want}'
                break
        chk.expect(bad is None and n > 0, 'C01.E1', f'{fname}::operand order', bad or f'{n} paths', GEN)
    # `a[i] op= e` is `a[i] = a[i] op e`: the old element is read (and protected) before e is evaluated
    bad = None
    n_comp = 0
    for p, ev in gf.inlined('array_assignment'):
        if p.outcome == 'raise' or _efg.Conds(ev).get('bin_op is None') is not False:
            continue
        n_comp += 1
        rhs_at = next((i for i, e in enumerate(ev) if e.kind == 'sub' and e.func in EVALUATING and expr_arg(e) == 'rhs_expr'), None)
        loads = [i for i, e in enumerate(ev) if e.kind == 'emit' and gf.ctor_kind(ev, i)[0] == 'sect' and gf.ctor_kind(ev, i)[1].startswith('l')]
        if rhs_at is None or not loads or min(loads) > rhs_at:
            bad = (f'element load at event {min(loads) if loads else None}, right-hand side evaluated at event {rhs_at}: the old element '
                   'must be loaded before the right-hand side runs (it may assign the same element)')
            break
        # and it must be saved across that evaluation (pushed), not left in a scratch register
        between = [e for e in ev[min(loads):rhs_at] if e.kind == 'sub' and e.func == 'self.push_value']
        if not between:
            bad = 'the old element is not pushed before the right-hand side is evaluated (evaluation clobbers the scratch registers)'
            break
    chk.expect(bad is None and n_comp > 0, 'C01.E1', 'array_assignment::compound reads the old element first', bad or f'{n_comp} paths', GEN)

    # ---------------- R1 --------------------------------------------------------------------------
    n_paths = 0
    for fn in HOLD_FUNCS:
        seen = set()
        for p, ev in gf.inlined(fn):
            if p.outcome == 'raise':
                continue
            n_paths += 1
            for what, msg, line in Hold(fn, ev).run():
                arm = F.arm_of(ev, len(ev) - 1)
                key = f'{fn}[{arm}]::{what}' if arm else f'{fn}::{what}'
                if key not in seen:
                    seen.add(key)
                    chk.fail('C01.R1', key, msg, GEN, line)
        if not seen:
            chk.ok('C01.R1', fn, 'hold discipline respected on all paths')
    chk.count('hold_paths', n_paths)
    # keep semantics of eval_expr: without keep (or for immediates) the convenient accessor is returned, otherwise pushed
    for p, ev in gf.inlined('eval_expr'):
        arm = F.arm_of(ev, len(ev) - 1)
        if arm.startswith('VariableLookup') and p.outcome != 'raise':
            conds = _efg.Conds(ev)
            copied = any(e.kind == 'sub' and e.func == '.get' and src(e.recv) == 'access' for e in ev)
            volatile = conds.get('keep') and conds.get('is_global') and conds.get('expr.var.const') is False
            if 'keep' in conds:
                chk.expect(bool(copied) == bool(volatile), 'C01.R1', f'eval_expr[VariableLookup keep={conds.get("keep")} global={conds.get("is_global")} '
                           f'const={conds.get("expr.var.const")}]', 'a kept operand must be copied exactly when it is a mutable global '
                           '(later evaluation may assign it)', GEN)
    # tail of eval_expr, on the paths of the scalar arms that fall through to it: a result that must be kept and is not an
    # immediate is pushed to the frame (typed), anything else is handed out as it is
    bad = None
    n_tail = 0
    for p, ev in gf.inlined('eval_expr'):
        if p.outcome == 'raise':
            continue
        conds = _efg.Conds(ev)
        keep, imm = conds.get('keep'), conds.get('isinstance(result, asm.Immediate)')
        rets = [e for e in ev if e.kind == 'return' and not e.origin]
        if not rets or keep is None:
            continue
        if keep is True and imm is None:
            # a kept result leaves the tail without the immediate-or-not decision: it must then be pushed unconditionally
            pushes0 = [e for e in ev if e.kind == 'sub' and e.func == 'self.push_value']
            direct = [e for e in ev if e.kind == 'return' and not e.origin and isinstance(e.value, (ast.YieldFrom, ast.Call))
                      and 'self.vacpack(result)' in src(e.value)]
            if direct and not pushes0:
                bad = 'a result that must be kept is handed out without deciding whether it is an immediate (only immediates survive later evaluation)'
            continue
        last = rets[-1]
        pushes = [e for e in ev if e.kind == 'sub' and e.func == 'self.push_value' and [src(a) for a in e.args] == ['expr.type', 'result']]
        is_push_ret = isinstance(last.value, ast.YieldFrom) and isinstance(last.value.value, ast.Call) and src(last.value.value.func) == 'self.push_value'
        n_tail += 1
        if keep is True and imm is False:
            if not (pushes and is_push_ret):
                bad = f'keep and not an immediate: returns `{src(last.value)[:60]}` instead of pushing the result'
        elif (keep is False or imm is True) and is_push_ret and pushes:
            bad = f'keep={keep}, immediate={imm}: the result is pushed although it need not be kept'
    chk.expect(bad is None and n_tail > 0, 'C01.R1', 'eval_expr::keep tail', bad or f'{n_tail} paths: a kept non-immediate result is pushed to the frame', GEN)

    _word_cells(repo, chk, gf)
    # side effects of every operand survive the typechecker (shared with C14.F7)
    chk.rule('C01.E2', 'no operand with effects is deleted at compile time: folding and casts keep every call-containing operand '
                       '(tabulated over all operator classes, positions and constant partners - shared with C14.F7)')
    from . import c14
    lexns = it.load('hidc/lexer/__init__.py')
    c14._effects_kept(Remap(chk, {'C14.F7': 'C01.E2'}), astns, lexns['Span'](lexns['Cursor'](0, 0), lexns['Cursor'](0, 1)))

    # ---------------- S1 ------------------------------------------------------------------------------
    # lookup_var, interpreted: a local of that name wins; a global is created once, from its own initialiser, with the
    # constness of its declaration, and the same accessor is handed out afterwards
    bad = None
    try:
        gns = gf.module_ns()
        git = repo.__dict__['_gen_ns']['it']
        glex = git.load('hidc/lexer/__init__.py')
        gspan = glex['Span'](glex['Cursor'](0, 0), glex['Cursor'](0, 1))
        A = gns['ast']

        class _Obj:
            pass

        def world():
            g = new_codegen(gns['CodeGen'])
            g.word_size = 2
            g.stack = gns['StackPoint']()
            pass        # book-keeping tables come from the dataclass field factories (new_codegen)
            import collections
            g.local_vars = collections.ChainMap()
            g.env = _Obj()
            g.env.vars = _Obj()
            g.env.vars.globals = {}
            return g
        vx = A.Variable('x', gns['DataType'].INT, False)
        vc = A.Variable('c', gns['DataType'].INT, True)
        g = world()
        marker = object()
        g.local_vars['x'] = marker
        dx, dc = _Obj(), _Obj()
        dx.init, dc.init = A.IntValue(41, gspan), A.IntValue(7, gspan)
        g.env.vars.globals = {'x': dx, 'c': dc}
        r = g.lookup_var(vx)
        if not (r[0] is False and r[1] is marker and not g.state_data and not g.global_vars):
            bad = f'a local named x must win over the global x: lookup returned {r!r}, globals materialised: {list(g.global_vars)}'
        g = world()
        g.env.vars.globals = {'x': dx, 'c': dc}
        r1 = g.lookup_var(vx)
        r2 = g.lookup_var(vx)
        if bad is None and not (r1[0] is True and r2[0] is True and r1[1] is r2[1] and len(g.state_data) == 1 and
                                next(iter(g.state_data)).label_name.startswith('var_x') and
                                [getattr(i, 'data', None) for i in next(iter(g.state_data.values())).items] == [41]):
            bad = f'a mutable global must be stored once under a var_<name> label with its initialiser: {r1!r} / {r2!r} / {g.state_data}'
        rc = g.lookup_var(vc)
        if bad is None and not (rc[0] is True and getattr(rc[1], 'data', None) == 7 and len(g.state_data) == 1):
            bad = f'a const scalar global is its immediate value: {rc!r}'
        # ... also once the global of that name has been materialised (by an earlier function): a local still wins
        marker2 = object()
        g.local_vars = g.local_vars.new_child()
        g.local_vars['x'] = marker2
        rs = g.lookup_var(vx)
        if bad is None and not (rs[0] is False and rs[1] is marker2):
            bad = f'a local named x must win over the global x also after the global has been used elsewhere: lookup returned {rs!r}'
    except Exception as e:      # noqa: BLE001
        bad = f'{type(e).__name__}: {e}'
    chk.expect(bad is None, 'C01.S1', 'lookup_var::locals first / global materialisation', bad or 'a local (or parameter) of that name wins '
               'over a global; globals are created once from their own initialiser', GEN)
    bad = None
    for p, ev in gf.inlined('gen_stmts'):
        arms = [e.text for e in ev if e.kind == 'case' and not e.origin]
        if not any('ast.Declaration' in a for a in arms) or p.outcome == 'raise':
            continue
        for i, e in enumerate(ev):
            if e.kind == 'assign' and e.target == 'self.local_vars[stmt.var.name]':
                prev = [x for x in ev[:i] if x.kind == 'sub' and x.func == 'self.push_expr']
                if not prev or [src(a) for a in prev[-1].args] != ['self.r1', 'stmt.init'] or src(e.value) != 'bubble.value':
                    bad = 'a declaration must be bound to the slot its initialiser was pushed to, after the initialiser was generated'
    chk.expect(bad is None, 'C01.S1', 'gen_stmts[Declaration]::bind after init', bad or '', GEN)
    c08.run(repo, Remap(chk, {'C08.L3': 'C01.S1'}))
    fresh_function_state(repo, chk, gf)
    # assignment to a variable: value into the variable's own accessor
    for p, ev in gf.inlined('gen_stmts'):
        arms = [e.text for e in ev if e.kind == 'case' and not e.origin]
        if any('ast.Assignment' in a for a in arms) and any(e.kind == 'cond' and 'ast.VariableLookup' in e.text and e.truth for e in ev) and p.outcome != 'raise':
            sets = [e for e in ev if e.kind == 'sub' and e.func == '.set']
            vals = [e for e in ev if e.kind == 'sub' and e.func == 'self.get_expr_value']
            ok = sets and src(sets[-1].recv) == 'access' and [src(a) for a in sets[-1].args] == ['value'] and vals and vals[-1].bound == 'value' \
                and [src(a) for a in vals[-1].args] in (['dest', 'stmt.expr'], ['dest', 'stmt.type_equiv_assignment().expr'])
            chk.expect(ok, 'C01.S1', 'gen_stmts[Assignment/variable]', 'the evaluated value is stored into the looked-up variable', GEN)
            break

    # one specialisation (label, queue entry) per distinct concrete signature; labels are distinct
    g = new_codegen(CG)
    from collections import deque
    pass        # book-keeping tables come from the dataclass field factories (new_codegen)
    CS, Ident = sym['ConcreteSignature'], astns['Ident']
    sigs = [CS(Ident('f'), (DT.INT,)), CS(Ident('f'), (DT.BYTE,)), CS(Ident('f'), (CAT(DT.INT, AM.RW),)), CS(Ident('f'), (CAT(DT.INT, AM.RC),)),
            CS(Ident('f'), (CAT(DT.INT, AM.R),)), CS(Ident.you('f'), (DT.INT,)), CS(Ident('g'), (DT.INT,)), CS(Ident('f'), ())]
    labels = [g.label_for_func(s) for s in sigs]
    again = [g.label_for_func(CS(s.name, tuple(s.concrete_params))) for s in sigs]
    ok = len({l.label_name for l in labels}) == len(sigs) and [l.label_name for l in labels] == [l.label_name for l in again] \
        and len(g.func_queue) == len(sigs)
    chk.expect(ok, 'C01.P1', 'label_for_func', f'labels {[l.label_name for l in labels]} / second request {[l.label_name for l in again]} / '
               f'{len(g.func_queue)} queued: every distinct (name, flavour, concrete parameter types incl. array storage) needs its own '
               'function body, and a repeated request must reuse it', GEN)
    s1 = [g.add_label('x').label_name for _ in range(3)] + [g.add_label('y').label_name]
    chk.expect(s1 == ['x_0', 'x_1', 'x_2', 'y_0'], 'C01.P1', 'add_label', f'{s1}: labels must be unique', GEN)
    g.string_labels = {}
    st = [g.label_for_string(b).label_name for b in (b'a', b'b', b'a', b'')]
    chk.expect(st[0] == st[2] and len(set(st)) == 3, 'C01.P1', 'label_for_string', f'{st}: one table entry per distinct byte string', GEN)

    # ---------------- A1 ---------------------------------------------------------------------------------
    lay = gf.layout()

    def at(line):
        return lay.index(line) if line in lay else -1
    i_start, i_zero, i_a2, i_a1, i_ra, i_end = at(b'stack_start:'), at(b'.zero 7w'), at(b'.word 102'), at(b'.word 101'), \
        at(b'.word all_is_win'), at(b'stack_end:')
    chk.expect(0 <= i_start and [i_zero, i_a2, i_a1, i_ra, i_end] == list(range(i_start + 1, i_start + 6)), 'C01.A1', 'gen_lines::entry frame',
               f'zeroed stack of stack_size words, entry arguments in reverse order, win return address, stack_end (= initial fp): '
               f'{lay[max(i_start, 0):max(i_start, 0) + 7]}', GEN)
    entry_binding(repo, chk, gf)
    # the code section starts with the entry function: execution begins at the first instruction
    i_code, i_f, i_g, i_lib = at(b'%section code'), at(b'func_f:'), at(b'func_g:'), at(b'all_is_win:')
    chk.expect(0 <= i_code and i_f == i_code + 1 < i_g < i_lib, 'C01.A1', 'gen_lines::code section order',
               'generated functions, in the order of func_table (entry function first), directly follow `%section code` and precede '
               f'the library routines: {lay[max(i_code, 0):max(i_code, 0) + 6]}', GEN)
    function_queue(repo, chk, gf)
    chk.not_decided = ['the output bytes of any particular program; wrap-around, truncation and the VM\'s arithmetic (see C09)']


def fresh_function_state(repo, chk, gf, rule='C01.S1'):
    """Every function body is generated from an empty local scope and a fresh checkpoint tracker: what gen_func binds to
    self.local_vars / self.checkpoints must not be derived from their previous values (parameter slots of an earlier
    function would otherwise shadow globals of the same name in later functions)."""
    fn = gf.methods.get('gen_func')
    if fn is None:
        raise AnalysisError('CodeGen.gen_func not found')
    for attr in ('local_vars', 'checkpoints'):
        asg = [n for n in ast.walk(fn) if isinstance(n, ast.Assign) and any(src(t) == f'self.{attr}' for t in n.targets)]
        first_use = min((n.lineno for n in ast.walk(fn) if isinstance(n, ast.Attribute) and n.attr == attr and src(n.value) == 'self'
                         and isinstance(n.ctx, ast.Load)), default=None)
        ok = bool(asg)
        detail = 'never reset in gen_func'
        if ok:
            a = min(asg, key=lambda n: n.lineno)
            uses_old = any(isinstance(x, ast.Attribute) and x.attr == attr and src(x.value) == 'self' for x in ast.walk(a.value))
            empty_ctor = isinstance(a.value, ast.Call) and not a.value.args and not a.value.keywords
            before_use = first_use is None or a.lineno <= first_use
            ok = empty_ctor and not uses_old and before_use
            detail = f'`{src(a)}`: must be a fresh empty object, bound before the first use'
        chk.expect(ok, rule, f'gen_func::self.{attr} starts empty', detail, GEN)


def function_queue(repo, chk, gf, rule='C01.A1'):
    """label_for_func + make_funcs, interpreted with body generation stubbed: every requested specialisation is generated
    exactly once, bodies are stored in the order of first request (so the entry point, requested first, is the first body
    of the code section), and requests made while a body is generated are served too."""
    ns = gf.module_ns()
    CG, A, DT = ns['CodeGen'], ns['ast'], ns['DataType']
    CS = ns['ConcreteSignature']
    import collections

    class _O:
        pass
    bad = None
    try:
        g = new_codegen(CG)
        pass        # book-keeping tables come from the dataclass field factories (new_codegen)
        g.env = _O()
        sigs = [CS(A.Ident.you('is_you'), ()), CS(A.Ident('f'), (DT.INT,)), CS(A.Ident('g'), ()), CS(A.Ident('f'), (DT.BYTE,))]
        late = CS(A.Ident('late'), ())
        decls = {}
        g.env.funcs = {}
        for s_ in sigs + [late]:
            d = _O()
            d.__class__ = type('FuncDeclaration', (A.FuncDeclaration,), {'__init__': lambda self: None}) if False else d.__class__
            g.env.funcs.setdefault(s_.name, {})[s_.abstract_params] = A.FuncDeclaration.__new__(A.FuncDeclaration)
        order = []

        def fake_gen_func(csig, *_rest):
            order.append(csig)
            if csig == sigs[1]:
                g.label_for_func(late)          # a call discovered while generating f(int)
                g.label_for_func(sigs[2])       # already requested: must not be queued twice
            return iter([('body of', csig)])
        g.gen_func = fake_gen_func
        labels = [g.label_for_func(s_) for s_ in sigs]
        again = g.label_for_func(sigs[1])
        g.make_funcs()
        want = sigs + [late]
        if order != want or list(g.func_table) != want:
            bad = f'generated in order {[str(s_.name) for s_ in order]}, stored {[str(s_.name) for s_ in g.func_table]}; expected first-request order'
        elif again is not labels[1] and again != labels[1]:
            bad = 'a repeated request returns a different label'
        elif any(list(v) != [('body of', k)] for k, v in g.func_table.items()):
            bad = 'a stored body is not the list of what gen_func produced'
        elif g.func_queue:
            bad = 'requests left in the queue'
    except Exception as e:      # noqa: BLE001
        bad = f'{type(e).__name__}: {e}'
    chk.expect(bad is None, rule, 'label_for_func / make_funcs', bad or 'each specialisation generated once, bodies stored in first-request order', GEN)


def entry_binding(repo, chk, gf, rule='C01.A1'):
    """CodeGen.__post_init__, interpreted for entry points with every mix of scalar parameters and an array parameter at
    every position (function generation itself stubbed out): what the entry frame and the `%argv` line are built from."""
    ns = gf.module_ns()
    CG, asm, A, DT = ns['CodeGen'], ns['asm'], ns['ast'], ns['DataType']
    AT = A.ArrayType

    class _O:
        pass

    def param(name, t):
        p = _O()
        p.var = A.Variable(name, t, False)
        p.span = None
        return p

    def run_entry(params):
        g = new_codegen(CG)
        g.word_size, g.stack_size, g.unchecked = 2, 50, False
        g.env = _O()
        decl = _O()
        decl.ret_type, decl.params, decl.span = DT.EMPTY, params, None
        g.env.funcs = {A.Ident.you('is_you'): {(): decl}}
        pass        # book-keeping tables come from the dataclass field factories (new_codegen)
        log = []
        g.label_for_func = lambda sig: log.append(('label_for_func', sig, len(g.func_labels)))
        g.make_funcs = lambda: log.append(('make_funcs',))
        g.__post_init__()
        return g, log
    scalars = [('n', DT.INT, 'word'), ('c', DT.BYTE, 'byte')]
    arrays = [('data', AT(DT.BYTE, True), 'byte', (), True), ('nums', AT(DT.INT, False), 'word', (), False),
              ('words', AT(DT.STRING, True), 'asciip', ('array',), True)]
    n = 0
    for aname, atype, afmt, aparams, aconst in arrays:
        for n_before in (0, 1, 2):
            for n_after in (0, 1, 2):
                before = [param(f'p{i}', scalars[i % 2][1]) for i in range(n_before)]
                after = [param(f'q{i}', scalars[(i + 1) % 2][1]) for i in range(n_after)]
                key = f'@is_you({n_before} scalars, {atype} {aname}, {n_after} scalars)'
                try:
                    g, log = run_entry(before + [param(aname, atype)] + after)
                except Exception as e:      # noqa: BLE001
                    chk.fail(rule, key, f'{type(e).__name__}: {e}', GEN)
                    continue
                n += 1
                ea = g.entry_args
                k = n_before
                ok = len(ea) == n_before + n_after + 2
                if ok:
                    ln, org = ea[k], ea[k + 1]
                    data = g.const_data if aconst else g.state_data
                    lab = org.items[0] if type(org).__name__ == 'WordDirective' and org.items else None
                    d = data.get(lab)
                    ok = type(ln).__name__ == 'WordDirective' and bytes(ln.items[0]) == f'$argc - {n_before + n_after}'.encode() and \
                        d is not None and type(d).__name__ == 'ArgDirective' and d.var_name == aname and d.format == afmt and \
                        tuple(d.params) == aparams and not (g.state_data if aconst else g.const_data)
                chk.expect(ok, rule, key, f'entry arguments {ea}; the array is passed as (length = $argc - number of scalar parameters, '
                           'origin = its argument table), length first', GEN)
                # specialisation requested once, for the concrete parameter types, before the bodies are generated and after
                # the library signatures are known
                lf = [x for x in log if x[0] == 'label_for_func']
                ok = len(lf) == 1 and log[-1] == ('make_funcs',) and log.index(lf[0]) < len(log) - 1 and lf[0][2] > 0 and \
                    lf[0][1].name == A.Ident.you('is_you') and len(lf[0][1].concrete_params) == n_before + n_after + 1 and \
                    getattr(lf[0][1].concrete_params[k], 'access', None) == (ns['AccessMode'].RC if aconst else ns['AccessMode'].RW)
                chk.expect(ok, rule, key + '::entry specialisation', f'{log}', GEN)
    for sname, stype, sfmt in scalars:
        g, log = run_entry([param(sname, stype)])
        ok = len(g.entry_args) == 1 and type(g.entry_args[0]).__name__ == 'ArgDirective' and g.entry_args[0].format == sfmt and \
            g.entry_args[0].var_name == sname and g.argv_specs == [f'<{sname}>'.encode()]
        chk.expect(ok, rule, f'@is_you({stype} {sname})', f'{g.entry_args} / {g.argv_specs}', GEN)
        n += 1
    g, log = run_entry([param('s', DT.STRING)])
    ok = len(g.entry_args) == 1 and type(g.entry_args[0]).__name__ == 'WordDirective' and len(g.const_data) == 1 and \
        next(iter(g.const_data.values())).format == 'asciip' and g.entry_args[0].items[0] == next(iter(g.const_data))
    chk.expect(ok, rule, '@is_you(string s)', f'{g.entry_args} / {g.const_data}', GEN)
    chk.floor('entry point shapes interpreted', n, 25)


# ---------------------------------------------------------------------------------------------------------
# R2: destinations of expression evaluation are word cells
# ---------------------------------------------------------------------------------------------------------
def _word_cells(repo, chk, gf):
    """Every register operand handed to the evaluating helpers receives full-word writes (Mov / arithmetic /
    loads all write a word).  It must therefore denote a word cell: one of CodeGen's word globals (r0..r2, ap,
    fp, ...), a register parameter of the enclosing method (its callers are checked by the same rule), or
    `X.immed` of an accessor X proven - by an isinstance test dominating the use - to be of a class whose own
    `set` is a word Mov to `self.immed`.  A byte cell (StateByte) also has `.immed`; computing into it
    overwrites the word_size-1 bytes that follow it."""
    chk.rule('C01.R2', 'destinations of expression evaluation are word cells: a scratch/word global, a register parameter, or '
                       '`X.immed` under a dominating isinstance(X, <word accessor class>)')
    ASMF = 'hidc/codegen/asm.py'
    # word accessor classes: `set` emits Mov(self.immed, ...)
    word_classes = set()
    for cname, node in repo.classes(ASMF).items():
        for m in node.body:
            if isinstance(m, ast.FunctionDef) and m.name == 'set':
                ys = [n for n in ast.walk(m) if isinstance(n, ast.Yield) and isinstance(n.value, ast.Call)]
                if ys and all(src(y.value.func) == 'Mov' and y.value.args and src(y.value.args[0]) == 'self.immed' for y in ys):
                    word_classes.add(cname)
    chk.expect(bool(word_classes), 'C01.R2', 'asm word accessor classes', f'{sorted(word_classes)}', ASMF)
    # word globals of CodeGen
    cg = repo.find_class(GEN, 'CodeGen')
    word_globals = {t.id for s in cg.body if isinstance(s, ast.Assign) and isinstance(s.value, ast.Call)
                    and src(s.value.func) == 'asm.LabelRef' for t in s.targets if isinstance(t, ast.Name)}
    chk.floor('word globals of CodeGen', len(word_globals), 5)

    # functions whose first parameter is a destination register: eval_expr and everything forwarding into it
    methods = dict(gf.methods)

    def first_param(fn):
        a = [x.arg for x in fn.args.args if x.arg != 'self']
        return a[0] if a else None
    dest_funcs = {'eval_expr'}
    changed = True
    while changed:
        changed = False
        for name, fn in methods.items():
            if name in dest_funcs or first_param(fn) is None:
                continue
            fp = first_param(fn)
            for n in ast.walk(fn):
                if isinstance(n, ast.Call) and isinstance(n.func, ast.Attribute) and src(n.func.value) == 'self' \
                        and n.func.attr in dest_funcs and n.args and src(n.args[0]) == fp:
                    dest_funcs.add(name)
                    changed = True
                    break
    chk.floor('destination-taking evaluators', len(dest_funcs), 3)
    accessor_dest = {'get', 'to', 'get_fast'}      # accessor.get(r) / accessor.to(r) / bubble.get_fast(r) load into r

    def parents(fn):
        par = {}
        for n in ast.walk(fn):
            for c in ast.iter_child_nodes(n):
                par[c] = n
        return par

    def isinstance_word(test, obj):
        """`isinstance(obj, asm.C)` with C a word accessor class (or a tuple of such)."""
        if not (isinstance(test, ast.Call) and src(test.func) == 'isinstance' and len(test.args) == 2 and src(test.args[0]) == obj):
            return False
        cl = test.args[1]
        names = [src(e) for e in cl.elts] if isinstance(cl, ast.Tuple) else [src(cl)]
        return all(n.split('.')[-1] in word_classes for n in names)

    def dominated(node, obj, par, fn):
        """node lies in the true branch of an isinstance_word(obj) test (If body, IfExp body, or `and` right operand)."""
        cur = node
        while cur in par and cur is not fn:
            p = par[cur]
            if isinstance(p, ast.IfExp) and cur is p.body and isinstance_word(p.test, obj):
                return True
            if isinstance(p, ast.If) and cur in p.body and isinstance_word(p.test, obj):
                return True
            if isinstance(p, ast.BoolOp) and isinstance(p.op, ast.And) and cur in p.values[1:] and \
                    any(isinstance_word(v, obj) for v in p.values[:p.values.index(cur)]):
                return True
            cur = p
        return False

    def is_word_cell(e, fn, par, depth=0):
        if isinstance(e, ast.Attribute) and src(e.value) == 'self' and e.attr in word_globals:
            return True
        if isinstance(e, ast.Name):
            if e.id in [a.arg for a in fn.args.args]:
                return True
            defs = [n for n in ast.walk(fn) if isinstance(n, ast.Assign) and any(isinstance(t, ast.Name) and t.id == e.id for t in n.targets)]
            defs += [n for n in ast.walk(fn) if isinstance(n, ast.NamedExpr) and n.target.id == e.id]
            return bool(defs) and depth < 4 and all(is_word_cell(d.value, fn, par, depth + 1) for d in defs)
        if isinstance(e, ast.IfExp):
            return is_word_cell(e.body, fn, par, depth + 1) and is_word_cell(e.orelse, fn, par, depth + 1)
        if isinstance(e, ast.Attribute) and e.attr == 'immed':
            return dominated(e, src(e.value), par, fn)
        return False

    n_sites = 0
    for name, fn in methods.items():
        par = None
        for n in ast.walk(fn):
            if not (isinstance(n, ast.Call) and isinstance(n.func, ast.Attribute) and n.args):
                continue
            recv, attr = src(n.func.value), n.func.attr
            is_dest = (recv == 'self' and attr in dest_funcs) or \
                      (recv != 'self' and attr in accessor_dest and not recv.startswith(('self.env', 'self.local_vars', 'self.global_vars',
                                                                                           'self.numbered_labels', 'stdlib.'))
                       and not recv.endswith('_map') and len(n.args) == 1 and not n.keywords)
            if not is_dest:
                continue
            if par is None:
                par = parents(fn)
            a0 = n.args[0]
            if attr in accessor_dest and recv != 'self' and not isinstance(a0, (ast.Name, ast.Attribute, ast.IfExp)):
                continue        # dict.get(key) and the like
            if attr == 'get' and recv != 'self':
                rv = n.func.value
                mod_ns = gf.module_ns()
                if isinstance(rv, (ast.Dict, ast.DictComp)) or (isinstance(rv, ast.Name) and isinstance(mod_ns.get(rv.id), dict)):
                    continue    # a lookup in a table, not an accessor load
            n_sites += 1
            ok = is_word_cell(a0, fn, par)
            chk.expect(ok, 'C01.R2', f'{name}::{src(n)[:70]}', f'destination `{src(a0)}` is not provably a word cell '
                       f'(word globals {sorted(word_globals)}, word accessor classes {sorted(word_classes)})', GEN, n.lineno)
    chk.floor('destination operands checked', n_sites, 40)
