"""C10 - the compiler is total: every input yields assembly or a located diagnostic."""
from __future__ import annotations

import ast

from ..pyfacts import AnalysisError, src, parent
from ..excflow import ExcFlow, is_subclass, handlers_of, caught
from ..genfacts import new_codegen, GenFacts, GEN, ASM
from ..report import Remap

MAIN = 'hidc/__main__.py'
ERRORS = 'hidc/errors.py'

# expression classes that never reach the generator, with the method that removes them
ELIMINATED = {
    'Is': 'Is.evaluate returns expr.cast(type)',
    'Parameter': 'only the initialiser of a parameter declaration; parameters are bound by gen_func',
}


def run(repo, chk):
    chk.explanation = (
        'Exception-escape analysis over the whole package: a call graph by name over the class hierarchy, per-function '
        'may-raise sets (explicit raises and a table of partial builtins whose failure a user can provoke: int(text, 10), '
        'chr, text-mode file reading, unbounded integer printing), filtered through enclosing except clauses, propagated '
        'to main() and the public API.  Only CompilerError / OSError (and the UnicodeDecodeError of an unreadable source) '
        'may arrive at main(), and all of them must be handled there.  Plus: exhaustiveness of the generator\'s '
        'dispatches, the output file is opened only after code generation succeeded, every CompilerError carries a '
        'renderable context, and the assertions that rely on the typechecker are discharged by the finite tabulations '
        'of C07/C08.')
    chk.assumptions = ['implicit TypeError/AttributeError, MemoryError and RecursionError are outside the analysis',
                       'call resolution by method name over-approximates the real call graph']
    chk.rule('C10.X1', 'exception escape: nothing but CompilerError / OSError / UnicodeDecodeError reaches main(), and main() handles all of them')
    chk.rule('C10.X2', 'dispatch exhaustiveness: gen_block, gen_stmts, eval_expr, builtin dispatch cover every class / key that can arrive')
    chk.rule('C10.X3', 'assertions relying on the typechecker are discharged (C07 element/array rules, C08 bubble linearity)')
    chk.rule('C10.X4', 'output discipline: output opened after CodeGen(...) succeeded; failures return non-zero; integer immediates are bounded before printing')
    chk.rule('C10.X5', 'renderable diagnostics: every CompilerError context is a span / cursor / tuple of spans / ()')
    xf = ExcFlow(repo)
    chk.count('functions', len(xf.funcs))
    chk.count('raise_sites', sum(1 for v in xf.own.values() for s in v if s.kind == 'raise'))
    chk.count('partial_builtin_sites', sum(1 for v in xf.own.values() for s in v if s.kind == 'partial'))
    chk.count('assert_sites', sum(1 for v in xf.own.values() for s in v if s.kind == 'assert'))
    chk.floor('functions in call graph', len(xf.funcs), 200)

    # ---------------- X1 ------------------------------------------------------------
    main = repo.find_func(MAIN, 'main')
    key = (MAIN, 'main')
    allowed_at_main = []
    escaping = set()
    for name, node, h in xf.calls[key]:
        for ck in xf._callees(name):
            for s in xf.escapes.get(ck, ()):
                if s.kind == 'assert':
                    continue
                if caught(s.exc, h, xf.bases):
                    continue
                escaping.add(s)
    for s in xf.own[key]:
        if s.kind != 'assert':
            escaping.add(s)
    reported = set()
    defensive = []
    for s in sorted(escaping, key=lambda s: (s.rel, s.func, s.exc, s.line)):
        k = f'{s.rel.replace("hidc/", "")}::{s.func}::{s.exc}'
        if s.kind == 'raise':
            # explicit raises of InternalCompilerError / builtin exceptions are defensive "cannot happen" sites: they are
            # listed (and discharged where a rule exists: X2 exhaustiveness, C07/C08 tabulations), not reported
            defensive.append(k)
            continue
        if k in reported:
            continue
        reported.add(k)
        chk.fail('C10.X1', k, f'{s.what}; this exception is not a CompilerError/OSError and no handler between this site '
                 'and main() catches it, so the command-line tool dies with a traceback', s.rel, s.line)
    if not reported:
        chk.ok('C10.X1', 'main()', 'no foreign exception reaches main() unhandled')
    # the two handlers of main's compile region
    trys = [n for n in ast.walk(main) if isinstance(n, ast.Try)]
    compile_try = [t for t in trys if any(isinstance(c, ast.Call) and src(c.func) == 'CodeGen' for c in ast.walk(t))]
    if len(compile_try) != 1:
        chk.fail('C10.X1', 'main::compile region', 'expected one try statement around parse/typecheck/codegen', MAIN)
    else:
        t = compile_try[0]
        hs = []
        for h in t.handlers:
            hs += [src(e) for e in h.type.elts] if isinstance(h.type, ast.Tuple) else [src(h.type)]
        chk.expect('CompilerError' in hs and 'OSError' in hs, 'C10.X1', 'main::handlers', f'handlers {hs}', MAIN)
        for h in t.handlers:
            rets = [r for r in ast.walk(h) if isinstance(r, ast.Return)]
            ok = rets and all(isinstance(r.value, ast.Constant) and r.value.value not in (0, None) for r in rets)
            exits = [c for c in ast.walk(h) if isinstance(c, ast.Call) and src(c.func) in ('hidc.error', 'sys.exit')]
            chk.expect(bool(ok or exits), 'C10.X4', f'main::except {src(h.type)} exit status',
                       'a failed compilation must end with a non-zero status', MAIN, h.lineno)
        # on every path through main() the output file is opened (here or in a helper of __main__.py) only after
        # CodeGen(...) - which generates eagerly and raises every CodeGenError - has completed
        from .. import efg as _efg

        def opens_output(call):
            return src(call.func) == 'open' and len(call.args) >= 2 and isinstance(call.args[1], ast.Constant) and \
                isinstance(call.args[1].value, str) and ('w' in call.args[1].value or 'a' in call.args[1].value or '+' in call.args[1].value)
        openers = {name for name, fn in repo.functions(MAIN).items() if name != 'main'
                   and any(isinstance(c, ast.Call) and opens_output(c) for c in ast.walk(fn))}
        n_open = 0
        bad = None
        for pth in _efg.enumerate_paths(main, name='main'):
            seen_cg = False
            for e in pth.events:
                if e.kind in ('call', 'silent', 'sub') and e.func == 'CodeGen':
                    seen_cg = True
                is_open = e.kind in ('call', 'silent', 'sub', 'enter') and isinstance(e.node, ast.AST) and any(
                    isinstance(c, ast.Call) and (opens_output(c) or src(c.func) in openers) for c in ast.walk(e.node))
                if is_open:
                    n_open += 1
                    if not seen_cg:
                        bad = f'line {e.line}: the output is opened on a path where CodeGen(...) has not completed'
                    break
        chk.expect(bad is None and n_open > 0, 'C10.X4', 'main::output opened after code generation',
                   bad or ('no path opens the output' if not n_open else '') or
                   'CodeGen(...) (which generates eagerly and raises every CodeGenError) must complete before the output '
                   'file is created, otherwise a failed compilation leaves an empty/partial file', MAIN)
        src_try = [x for x in trys if any(isinstance(c, ast.Call) and src(c.func) == 'SourceCode.from_file' for c in ast.walk(x))]
        hs2 = []
        for x in src_try:
            for h in x.handlers:
                hs2 += [src(e) for e in h.type.elts] if isinstance(h.type, ast.Tuple) else [src(h.type)]
        chk.expect('OSError' in hs2, 'C10.X1', 'main::source file handlers', f'{hs2}', MAIN)
    # CodeGen generates eagerly
    cgc = repo.find_class(GEN, 'CodeGen')
    pi = [n for n in cgc.body if isinstance(n, ast.FunctionDef) and n.name == '__post_init__']
    _options_interpreted(repo, chk)
    # integer immediates are bounded before they are printed in decimal
    gf = GenFacts(repo)
    n_lit = 0
    literal_arm_ok = _int_literal_arm(repo, chk, gf)
    for fname, fn in gf.methods.items():
        for n in ast.walk(fn):
            if isinstance(n, ast.Call) and src(n.func) == 'asm.IntLiteral' and n.args:
                a = n.args[0]
                mentions_data = any(isinstance(x, ast.Attribute) and x.attr == 'data' for x in ast.walk(a)) or \
                    (isinstance(a, ast.Name) and a.id == 'data')
                if not mentions_data:
                    continue
                n_lit += 1
                t = src(a)
                bounded = '& self.max_unsigned' in t or '& 255' in t or '& 0xFF' in t or t.startswith(('int(bool(', 'int(expr.data)')) \
                    or 'bool(' in t
                if not bounded and isinstance(a, ast.Name):
                    # a local holding the (reduced) literal value: decided by interpreting the IntValue arm of
                    # eval_expr over boundary values at every word size (_int_literal_arm), wherever that code lives
                    bounded = literal_arm_ok
                chk.expect(bounded, 'C10.X4', f'{fname}::asm.IntLiteral({t[:40]})',
                           'a literal value taken from the program is printed in decimal when the assembly is written; it must '
                           'be reduced to the word range first (str() of an integer with more than 4300 digits raises ValueError '
                           'after the output file has been opened)', GEN, n.lineno)
    chk.floor('literal immediates from program data', n_lit, 3)
    # option validation in CodeGen.__post_init__

    # the lexer's patterns admit only text that the unguarded conversions (int(text, 16) ...) accept
    chk.rule('C10.X6', 'diagnostic paths are themselves total: literal patterns admit only convertible text (C12.R1); building the '
                       '"no matching function" diagnostic never raises for any name / flavour')
    from . import c12
    c12.run(repo, Remap(chk, {'C12.R1': 'C10.X6'}))
    from ..consteval import Interp as _Interp
    _it = _Interp(repo)
    _ns = _it.load('hidc/ast/__init__.py')
    _lex = _it.load('hidc/lexer/__init__.py')
    _span = _lex['Span'](_lex['Cursor'](0, 0), _lex['Cursor'](0, 1))
    _prog = _it.load('hidc/ast/program.py')
    for base in ('print', 'println', 'printx', 'write', 'nosuch'):
        for flav in _ns['Flavor']:
            for argt in ((), (_ns['DataType'].INT,), (_ns['DataType'].STRING,), (_ns['DataType'].BOOL, _ns['DataType'].BOOL)):
                env = _ns['Environment'].empty()
                env.add_funcs(_prog['builtin_stubs'])
                args = tuple(_ns['VariableLookup'](_ns['Variable'](f'a{i}', t, False), _span) for i, t in enumerate(argt))

                class _Pre:
                    def __init__(self, e):
                        self.e = e

                    def evaluate(self, env):
                        return self.e
                call = _ns['FuncCall'](_ns['Ident'](base, flav), tuple(_Pre(a) for a in args), _span)
                try:
                    call.evaluate(env)
                    outcome = 'accepted'
                except _ns['TypeCheckError']:
                    outcome = 'TypeCheckError'
                except Exception as e:      # noqa
                    outcome = f'{type(e).__name__}: {e}'
                ok = outcome in ('accepted', 'TypeCheckError')
                if not ok:
                    chk.fail('C10.X6', f'FuncCall.evaluate({flav.value}{base}/{len(argt)} args)',
                             f'resolving a call to an undefined function raised {outcome} instead of a TypeCheckError', 'hidc/ast/expressions.py')
    if not any(v['rule'] == 'C10.X6' and 'FuncCall.evaluate' in v['construct'] for v in chk.violations):
        chk.ok('C10.X6', 'FuncCall.evaluate diagnostics', '5 names x 3 flavours x 4 argument lists resolve or give TypeCheckError')

    # ---------------- X2 ------------------------------------------------------------------
    ast_rels = ['hidc/ast/blocks.py', 'hidc/ast/expressions.py', 'hidc/ast/operators.py', 'hidc/ast/statements.py']
    bases = repo.class_bases(ast_rels)

    def ancestors(c):
        out, stack = set(), [c]
        while stack:
            x = stack.pop()
            for b in bases.get(x, []):
                if b not in out:
                    out.add(b)
                    stack.append(b)
        return out

    def instantiated():
        names = set()
        for rel in ast_rels + ['hidc/parser/grammar.py', 'hidc/ast/program.py']:
            for n in ast.walk(repo.module(rel)):
                if isinstance(n, ast.Call):
                    f = n.func
                    nm = f.id if isinstance(f, ast.Name) else (f.attr if isinstance(f, ast.Attribute) else None)
                    if nm in bases:
                        names.add(nm)
                if isinstance(n, ast.Dict):
                    for v in n.values:
                        if isinstance(v, ast.Name) and v.id in bases:
                            names.add(v.id)
        # classes created through type(self)(...) : every concrete operator / control block
        for c in bases:
            if ancestors(c) & {'Operator', 'ControlBlock'} and c not in ('Binary', 'Unary', 'BooleanOp', 'LogicalOp', 'CompareOp',
                                                                        'EqualityOp', 'ArithmeticOp', 'BinaryArithmeticOp',
                                                                        'UnaryArithmeticOp', 'ControlBlock'):
                names.add(c)
        # a class other classes derive from and that nothing constructs by name is an abstract intermediate, not an instance
        subclassed = {b for c in bases for b in ancestors(c)}
        constructed = set()
        for rel in ast_rels + ['hidc/parser/grammar.py', 'hidc/ast/program.py']:
            for n in ast.walk(repo.module(rel)):
                if isinstance(n, ast.Call):
                    f = n.func
                    nm = f.id if isinstance(f, ast.Name) else (f.attr if isinstance(f, ast.Attribute) else None)
                    if nm:
                        constructed.add(nm)
        return {c for c in names if not (c in subclassed and c not in constructed)}
    inst = instantiated()

    def arms(fn_name):
        fn = gf.methods[fn_name]
        m = [n for n in ast.walk(fn) if isinstance(n, ast.Match)]
        pats = []
        for c in (m[0].cases if m else []):
            for p in ([c.pattern] if not isinstance(c.pattern, ast.MatchOr) else c.pattern.patterns):
                if isinstance(p, ast.MatchClass):
                    pats.append(src(p.cls).replace('ast.', ''))
        return pats
    for fn_name, base, extra_ok in (('gen_block', 'Block', {'UndoBlock', 'StopBlock'}), ('eval_expr', 'Expression', set(ELIMINATED)),
                                    ('gen_stmts', 'Statement', set())):
        pats = arms(fn_name)
        concrete = {c for c in inst if base in ancestors(c)}
        if fn_name == 'gen_stmts':
            concrete = {c for c in concrete if 'Expression' not in ancestors(c) and 'Block' not in ancestors(c)}
            pats_s = set(pats)
            ok_top = {'Expression', 'Block'} <= pats_s
            chk.expect(ok_top, 'C10.X2', 'gen_stmts handles expressions and blocks', f'{pats}', GEN)
        missing = sorted(c for c in concrete if c not in extra_ok and not ({c} | ancestors(c)) & set(pats))
        chk.expect(not missing, 'C10.X2', f'{fn_name} covers every {base}', f'classes that can reach {fn_name} without a matching arm: '
                   f'{missing} (an InternalCompilerError would escape)', GEN)
        chk.count(f'{fn_name}_classes', len(concrete))
    chk.floor('expression classes instantiated', len([c for c in inst if 'Expression' in ancestors(c)]), 25)
    # builtin dispatch: for every builtin stub (name, parameter types) no path of eval_func_call - or of a helper its code
    # was moved to - that is feasible for that stub ends in a raise (every decision depending only on `name` /
    # `abstract_params` is evaluated for the stub; the others are left open)
    from ..consteval import Env
    ns = gf.module_ns()
    it = repo.__dict__['_gen_ns']['it']
    prog = it.load('hidc/ast/program.py')
    n_stub = 0
    fns = ['eval_func_call'] + sorted(gf.fragments())
    for stub in prog['builtin_stubs']:
        nm = stub.name
        n_stub += 1
        bad = None
        n_feasible = 0
        for fname in fns:
            for pth in gf.paths(fname):
                ev = pth.events
                feasible = True
                mentions = False
                for idx, e in enumerate(ev):
                    if e.kind != 'cond' or e.node is None:
                        continue
                    try:
                        node = ast.parse(_efg.expand(ev, idx, e.node, keep=('name', 'abstract_params')), mode='eval').body
                    except SyntaxError:
                        continue
                    names = {n.id for n in ast.walk(node) if isinstance(n, ast.Name)}
                    if not names & {'name', 'abstract_params'} or 'self' in names or 'args' in names or \
                            any(isinstance(n, (ast.Yield, ast.YieldFrom, ast.NamedExpr)) for n in ast.walk(node)):
                        continue
                    if not names - {'name', 'abstract_params'} <= set(ns) | set(dir(__import__('builtins'))):
                        continue
                    try:
                        v = bool(it.eval(node, Env(ns, {'name': nm, 'abstract_params': stub.param_types})))
                    except Exception:      # noqa: BLE001
                        continue
                    mentions = True
                    if v != e.truth:
                        feasible = False
                        break
                if feasible and mentions:
                    n_feasible += 1
                    if pth.outcome == 'raise':
                        r = [e for e in ev if e.kind == 'raise']
                        bad = f'{fname}: a path feasible for this builtin ends in `{r[-1].text[:80] if r else "raise"}`'
        chk.expect(bad is None and n_feasible > 0, 'C10.X2', f'builtin {nm}({", ".join(map(str, stub.param_types))})',
                   bad or 'every builtin stub must be inlined by eval_func_call or implemented in the library (otherwise '
                   '"Unimplemented stdlib function" escapes)', GEN)
    chk.floor('builtin stubs', n_stub, 10)
    # writeln(x) delegates to write(x): every writeln signature with arguments has a write twin
    wl = {s.param_types for s in prog['builtin_stubs'] if s.name.base_name == 'writeln' and s.param_types}
    wr = {s.param_types for s in prog['builtin_stubs'] if s.name.base_name == 'write'}
    chk.expect(wl <= wr, 'C10.X2', 'writeln signatures have write twins', f'{sorted(map(str, wl - wr))}', 'hidc/ast/program.py')

    # ---------------- X3 ----------------------------------------------------------------------
    # book-keeping that indexes its own tables (the checkpoint tracker pops by stored index) must not raise for any legal
    # sequence of operations: the Tracker tabulation of C04.A1 runs every add / update / push / pop sequence
    from . import c04 as _c04
    _c04._tracker(repo, Remap(chk, {'C04.A1': 'C10.X3'}))
    from . import c07, c08
    # every operator rejects an operand of type `empty` (otherwise EmptyAccessor.get raises InternalCompilerError in the
    # generator): the rows of the operator typing matrix with an empty operand (shared with C07.K2)
    c07.run(repo, Remap(chk, {'C07.K4': 'C10.X3', 'C07.K5': 'C10.X3', 'C07.K2': lambda c: 'C10.X3' if 'empty' in c else None}))
    c08.run(repo, Remap(chk, {'C08.L1': 'C10.X3'}))
    # every library overload the typechecker admits has its routine for each concrete storage class: a missing entry is an
    # AssertionError in make_funcs, not a diagnostic (shared with the dispatch table rule C17.D1)
    if chk.__class__.__name__ == 'Check':
        # the words `defeat` / `try_fp` are only laid out when some function asked for the variable defeat word: every function
        # that can emit `j [defeat]` must ask (otherwise the output names an undefined label and the assembler rejects a file the
        # compiler reported as written) - shared with C02.T7
        from . import c02
        c02.run(repo, Remap(chk, {'C02.T7': 'C10.X8'}))
        from . import c17
        c17.run(repo, Remap(chk, {'C17.D1': lambda c: 'C10.X2' if c.startswith(('stdlib_funcs', 'library routine', 'abstract_params')) else None}))
    n_assert = sum(1 for v in xf.own.values() for s in v if s.kind == 'assert')
    chk.sample({'assertion_sites_reachable_from_API': n_assert,
                'note': 'generator assertions about bubbles are discharged by C08.L1; element/array typing assertions by C07.K4/K5; '
                        'the rest are listed as assumed'})

    # ---------------- X5 ------------------------------------------------------------------------
    bad_ctx = []
    n_ctx = 0
    for rel, tree in repo.files.items():
        for n in ast.walk(tree):
            if isinstance(n, ast.Call):
                f = src(n.func)
                base = f.split('.')[0]
                is_err = base in ('LexerError', 'ParserError', 'TypeCheckError', 'CodeGenError', 'CompilerError')
                if not is_err:
                    continue
                if f.endswith(('.unhelpful', '.expected')):
                    ctx = n.args[0] if n.args else None
                    if f == 'ParserError.expected':
                        continue
                elif f in ('LexerError', 'ParserError', 'TypeCheckError', 'CodeGenError', 'CompilerError'):
                    ctx = n.args[1] if len(n.args) > 1 else None
                else:
                    continue
                n_ctx += 1
                if ctx is None:
                    bad_ctx.append((rel, n.lineno, 'missing context'))
                    continue
                if not _span_like(ctx):
                    bad_ctx.append((rel, n.lineno, src(ctx)[:60]))
    for rel, line, t in bad_ctx:
        chk.fail('C10.X5', f'{rel.replace("hidc/", "")}::context `{t}`', 'the error context is not evidently a span, cursor, tuple of spans or ()', rel, line)
    if not bad_ctx:
        chk.ok('C10.X5', 'CompilerError contexts', f'{n_ctx} constructions carry span-like contexts')
    chk.floor('CompilerError constructions', n_ctx, 40)
    # classes stored in env.funcs: only declarations with a real span may expose `.span`
    bs = next((repo.classes(r_)['BuiltinStub'] for r_ in sorted(repo.files) if r_.startswith('hidc/ast/') and 'BuiltinStub' in repo.classes(r_)), None)
    if bs is None:
        raise AnalysisError('class BuiltinStub not found under hidc/ast')
    fields = [n.target.id for n in bs.body if isinstance(n, ast.AnnAssign)]
    chk.expect('span' not in fields and not any(isinstance(n, (ast.Assign, ast.FunctionDef)) and 'span' in src(n)[:20] for n in bs.body),
               'C10.X5', 'BuiltinStub has no span', 'Environment.add_funcs uses hasattr(prev_def, "span") to decide whether the earlier '
               'definition can be shown; a builtin stub has no source position', 'hidc/ast/program.py')
    # CompilerError, interpreted: every accepted context shape (span, cursor, tuple of spans / cursors, ()) is normalised to
    # a tuple, and get_info renders it - message, position of the last entry, one quoted source line per entry - without
    # raising
    bad = None
    try:
        _err = _it.load(ERRORS)
        _scan = _it.load('hidc/lexer/scanner.py')
        SC = _scan['SourceCode']
        source = SC('prog.hid', ['first line', 'second line here', '', 'fourth'])
        Sp, Cu = _lex['Span'], _lex['Cursor']
        shapes = [('span', Sp(Cu(1, 2), Cu(1, 5)), 1), ('cursor', Cu(3, 0), 1), ('tuple of spans', (Sp(Cu(0, 0), Cu(0, 3)), Sp(Cu(1, 7), Cu(1, 9))), 2),
                  ('list of spans', [Sp(Cu(0, 1), Cu(0, 2))], 1), ('empty', (), 0), ('end of line', Cu(0, 10), 1), ('empty line', Cu(2, 0), 1)]
        for label, ctx, n_entries in shapes:
            err = _err['CompilerError']('boom', ctx)
            if not isinstance(err.context, tuple) or len(err.context) != n_entries:
                bad = f'context {label} is stored as {err.context!r}'
                break
            text = err.get_info(source)
            if not isinstance(text, str) or 'boom' not in text or 'prog.hid' not in text:
                bad = f'context {label}: rendered {text!r}'
                break
            if label == 'empty':
                # an error without a position on a source without lines (a zero-byte file) renders too
                for lines in ([], ['']):
                    t2 = err.get_info(SC('none.hid', lines))
                    if not isinstance(t2, str) or 'boom' not in t2 or 'none.hid' not in t2:
                        bad = f'context {label} on a source with lines {lines!r}: rendered {t2!r}'
            for c in err.context:
                ln = c.start.line
                if source.lines[ln] and source.lines[ln] not in text:
                    bad = f'context {label}: source line {ln + 1} is not quoted in {text!r}'
            if n_entries and f'{err.context[-1].start}' not in text.split('\n')[0]:
                bad = f'context {label}: position {err.context[-1].start} missing from the head line {text.splitlines()[0]!r}'
            if bad:
                break
    except Exception as e:      # noqa: BLE001
        bad = f'{type(e).__name__}: {e}'
    chk.expect(bad is None, 'C10.X5', 'CompilerError.get_info', bad or 'context normalised to a tuple; every shape renders with its source lines',
               ERRORS)
    # positions: the union of spans/cursors covers both and stays inside them (diagnostics point into the source)
    Span, Cursor = _lex['Span'], _lex['Cursor']
    pts = [Cursor(0, 0), Cursor(0, 5), Cursor(1, 2), Cursor(3, 0)]
    bad = None
    for a in pts:
        for b in pts:
            if b < a:
                continue
            s = Span(a, b)
            for c in pts:
                u = s | c
                if u.start != min(a, c) or u.end != max(b, c):
                    bad = f'Span({a},{b}) | {c} = {u}'
                for d in pts:
                    if d < c:
                        continue
                    u2 = s | Span(c, d)
                    if u2.start != min(a, c) or u2.end != max(b, d):
                        bad = f'Span({a},{b}) | Span({c},{d}) = {u2}'
    chk.expect(bad is None and str(Cursor(2, 4)) == '3:5' and Cursor(1, 9) < Cursor(2, 0), 'C10.X5', 'Span / Cursor algebra',
               bad or 'union = (min start, max end); cursors order by (line, column); printed 1-based', 'hidc/lexer/scanner.py')
    _option_order(repo, chk, cgc)
    _line_indexing(repo, chk)
    _labels_defined(repo, chk, gf)
    chk.not_decided = ['implicit exceptions outside the partial-builtin table', 'recursion depth (excluded by the property)',
                       'acceptance of the output by the real Sphinx assembler']


def _options_interpreted(repo, chk):
    """CodeGen.__post_init__, interpreted with body generation stubbed, for option combinations at and beyond every
    boundary: unusable options end in CodeGenError (never in another exception), usable ones generate all functions
    before the constructor returns (so every CodeGenError is raised before the output file exists)."""
    gf = GenFacts(repo)
    ns = gf.module_ns()
    CG, A, DT = ns['CodeGen'], ns['ast'], ns['DataType']

    class _O:
        pass

    def construct(ws, ss):
        g = new_codegen(CG)
        g.word_size, g.stack_size, g.unchecked = ws, ss, False
        g.env = _O()
        decl = _O()
        decl.ret_type, decl.params, decl.span = DT.EMPTY, [], None
        g.env.funcs = {A.Ident.you('is_you'): {(): decl}}
        pass        # book-keeping tables come from the dataclass field factories (new_codegen)
        log = []
        g.label_for_func = lambda sig: log.append('label')
        g.make_funcs = lambda: log.append('make_funcs')
        g.__post_init__()
        return log
    cases = [(0, 500, False), (1, 500, False), (-2, 500, False), (2, -1, False), (2, -5, False), (4, -1, False),
             (2, 10 ** 9, False), (2, (1 << 15) // 2, False), (3, 1 << 23, False),
             (2, 0, True), (2, 500, True), (2, 16000, True), (3, 500, True), (4, 10 ** 6, True), (8, 10 ** 6, True)]
    for ws, ss, usable in cases:
        key = f'CodeGen(word_size={ws}, stack_size={ss})'
        try:
            log = construct(ws, ss)
            got = 'accepted'
        except ns['CodeGenError'] as e:
            got, log = f'CodeGenError: {e}', None
        except Exception as e:      # noqa: BLE001
            got, log = f'{type(e).__name__}: {e}', None
        if usable:
            ok = got == 'accepted' and log and log[-1] == 'make_funcs' and 'label' in log
            why = 'usable options must be accepted and every function generated before the constructor returns'
        else:
            ok = got.startswith('CodeGenError')
            why = 'unusable options must be rejected with a CodeGenError (a located diagnostic), not accepted and not another exception'
        chk.expect(ok, 'C10.X4', key, f'{got}; {why}', GEN)


def _int_literal_arm(repo, chk, gf):
    """The IntValue arm of eval_expr, interpreted: for boundary values and values far beyond the word the emitted
    immediate is congruent to the literal modulo 2^(8w) and small enough to be printed (|data| < 2^(8w))."""
    ns = gf.module_ns()
    it = repo.__dict__['_gen_ns']['it']
    CG, astv, asmv = ns.get('CodeGen'), ns.get('ast'), ns.get('asm')
    lex = it.load('hidc/lexer/__init__.py')
    span = lex['Span'](lex['Cursor'](0, 0), lex['Cursor'](0, 1))
    bad = None
    n = 0
    try:
        for ws in (2, 3, 4, 8):
            g = new_codegen(CG)
            g.word_size = ws
            g.stack = ns['StackPoint']()
            M = 1 << (8 * ws)
            for v in (0, 1, -1, 255, 256, M // 2 - 1, M // 2, -(M // 2), M - 1, M, -M, M + 7, -(M + 7), 3 * M - 2, 10 ** 30, -(10 ** 30),
                      10 ** 5000, -(10 ** 5000) + 3):
                res = g.eval_expr(asmv.LabelRef('r0'), astv.IntValue(v, span), False)
                lit = res.value.value
                n += 1
                if getattr(res, 'items', None) or type(lit).__name__ != 'IntLiteral' or (lit.data - v) % M != 0 or not -M < lit.data < M:
                    bad = f'word size {ws}: literal with {len(bin(abs(v))) - 2} bits gives {type(lit).__name__}' + \
                          (f' of {len(bin(abs(lit.data))) - 2} bits' if hasattr(lit, 'data') else '') + \
                          ' (must be congruent modulo 2^(8w) and below 2^(8w) in magnitude)'
                    break
            if bad:
                break
    except Exception as e:      # noqa: BLE001
        bad = f'cannot interpret the IntValue arm of eval_expr: {type(e).__name__}: {str(e)[:120]}'
    chk.expect(bad is None, 'C10.X4', 'eval_expr[IntValue]::immediate bounded and congruent', bad or f'{n} evaluations', GEN)
    return bad is None


def _option_order(repo, chk, cgc):
    """Quantities derived from the word size (1 << (8*word_size - 1) ...) are only meaningful once the word size
    has been validated: `-m 0` passes the command line's own multiple-of-8 test, and a negative shift count raises
    ValueError.  In __post_init__ nothing that reads word_size (directly or through a property / method of CodeGen)
    may be evaluated before the statement that rejects a too-small word size."""
    fns = {n.name: n for n in cgc.body if isinstance(n, ast.FunctionDef)}
    pi = fns.get('__post_init__')
    if pi is None:
        return
    # attributes of CodeGen that transitively read self.word_size
    reads = {}
    for name, fn in fns.items():
        reads[name] = {n.attr for n in ast.walk(fn) if isinstance(n, ast.Attribute) and isinstance(n.value, ast.Name) and n.value.id == 'self'}
    derived = {'word_size'}
    changed = True
    while changed:
        changed = False
        for name, r in reads.items():
            if name not in derived and name != '__post_init__' and r & derived:
                derived.add(name)
                changed = True

    def is_ws_guard(st):
        return isinstance(st, ast.If) and 'self.word_size' in src(st.test) and not (derived - {'word_size'}) & {
            n.attr for n in ast.walk(st.test) if isinstance(n, ast.Attribute)} and all(isinstance(b, ast.Raise) for b in st.body) \
            and not st.orelse
    guard_at = next((i for i, st in enumerate(pi.body) if is_ws_guard(st)), None)
    if guard_at is None:
        chk.fail('C10.X4', 'CodeGen.__post_init__::word size guard', 'no statement rejects a too-small word size', GEN, pi.lineno)
        return
    early = []
    for st in pi.body[:guard_at]:
        used = {n.attr for n in ast.walk(st) if isinstance(n, ast.Attribute) and isinstance(n.value, ast.Name) and n.value.id == 'self'}
        if used & derived:
            early.append((st.lineno, sorted(used & derived)))
    chk.expect(not early, 'C10.X4', 'CodeGen.__post_init__::word size validated before use',
               f'evaluated before the word-size guard: {early} (quantities derived from word_size shift by 8*word_size-1: a word size '
               'of 0 raises ValueError instead of a diagnostic)', GEN, pi.body[guard_at].lineno)


def _line_indexing(repo, chk):
    """An empty file has no lines.  Every index into a source's line list must be dominated by a non-emptiness
    test of that list (SourceCode.__getitem__ maps the empty source to ''), except where the index is the line
    of an existing span (diagnostic rendering: spans exist only inside existing lines)."""
    chk.rule('C10.X7', 'the line list of a source is only indexed under a non-emptiness test (or by the line of an existing span)')
    # diagnostic rendering: indexed by the line of a reported span (a span implies the line exists); that an error without
    # a position renders on a source without lines is decided by interpretation (C10.X5, CompilerError.get_info)
    EXEMPT_FILE = {'hidc/errors.py': 'indexed by the line of a reported span; rendering without a position on an empty source is interpreted (C10.X5)'}
    n_sites = 0
    for rel in sorted(repo.files):
        if not rel.startswith('hidc/'):
            continue
        for fn in ast.walk(repo.module(rel)):
            if not isinstance(fn, (ast.FunctionDef, ast.AsyncFunctionDef)):
                continue
            for n in ast.walk(fn):
                if isinstance(n, ast.Subscript) and isinstance(n.value, ast.Attribute) and n.value.attr == 'lines' \
                        and isinstance(n.ctx, ast.Load) and not isinstance(n.slice, ast.Slice):
                    n_sites += 1
                    obj = src(n.value)
                    guarded = False
                    for st in ast.walk(fn):
                        if isinstance(st, ast.If) and st.lineno <= n.lineno:
                            t = src(st.test)
                            if t == f'not {obj}' and st.body and isinstance(st.body[-1], (ast.Return, ast.Raise)) and st.end_lineno < n.lineno:
                                guarded = True
                            if t in (obj, f'len({obj})', f'{obj} != []') and st.lineno <= n.lineno <= st.end_lineno and \
                                    any(n in list(ast.walk(b)) for b in st.body):
                                guarded = True
                    why = EXEMPT_FILE.get(rel)
                    chk.expect(guarded or why is not None, 'C10.X7', f'{rel}::{fn.name}::{src(n)}',
                               why or 'the line list is indexed without a non-emptiness test: a zero-byte source raises IndexError', rel, n.lineno)
    chk.floor('line-list index sites', n_sites, 1)


def _labels_defined(repo, chk, gf):
    """On every emission path, a label obtained from add_label that is referenced (jumped to, handed to a helper,
    stored for break/continue) must be defined by exactly one Label emission on that path; otherwise hidc reports
    success but the assembler rejects the file (undefined or duplicate name)."""
    chk.rule('C10.X8', 'label def-use on every emission path: a referenced add_label() label is defined exactly once on the path')

    def uses_in(node, name, guards, out):
        """Collect (guards) for each mention of `name` in `node`, tracking IfExp tests on the way down."""
        if isinstance(node, ast.IfExp):
            uses_in(node.test, name, guards, out)
            t = src(node.test)
            uses_in(node.body, name, guards + [(t, True)], out)
            uses_in(node.orelse, name, guards + [(t, False)], out)
            return
        if isinstance(node, ast.Name) and node.id == name:
            out.append(list(guards))
            return
        for c in ast.iter_child_nodes(node):
            uses_in(c, name, guards, out)

    def norm(text, truth):
        while text.startswith('not '):
            text, truth = text[4:], not truth
        return text, truth

    n_labels = 0
    for fname in gf.gen_methods:
        seen = set()
        for p, ev in gf.inlined(fname):
            if p.outcome == 'raise':
                continue
            known = {}
            for e in ev:
                if e.kind == 'cond':
                    t, v = norm(e.text, e.truth)
                    known[t] = v
            labels = {}
            for i, e in enumerate(ev):
                if e.kind == 'assign' and isinstance(e.value, ast.Call) and src(e.value.func) == 'self.add_label' and e.target.isidentifier():
                    labels[e.target] = i
                elif e.kind == 'call' and e.func == 'self.add_label' and isinstance(e.bound, str):
                    labels[e.bound] = i
            # events for calls nested in another event's operands are covered (with their IfExp guards) by that event
            nested = set()
            for e in ev:
                for a in list(e.args) + list(e.kwargs.values()):
                    if isinstance(a, ast.AST):
                        nested |= {id(x) for x in ast.walk(a)}
            for lab, at in labels.items():
                defs = 0
                used = []
                for e in ev[at + 1:]:
                    if e.node is not None and id(e.node) in nested:
                        continue
                    if e.kind == 'emit' and e.ctor == 'asm.Label' and e.args and src(e.args[0]) == lab:
                        defs += 1
                        continue
                    if e.kind == 'assign' and e.target == lab:
                        break           # rebound (next loop iteration)
                    nodes = list(e.args) + list(e.kwargs.values()) + ([e.value] if e.kind in ('assign', 'return') and isinstance(e.value, ast.AST) else [])
                    if e.kind in ('sub', 'call', 'silent', 'emit', 'assign', 'return', 'splice'):
                        for a in nodes:
                            if not isinstance(a, ast.AST):
                                continue
                            found = []
                            uses_in(a, lab, [], found)
                            for g in found:
                                active = True
                                for t, v in g:
                                    t, v = norm(t, v)
                                    if t in known and known[t] != v:
                                        active = False
                                if active:
                                    used.append(e)
                key = f'{fname}::{lab}'
                n_labels += 1
                if defs > 1 and key + '#dup' not in seen:
                    seen.add(key + '#dup')
                    chk.fail('C10.X8', key, f'Label({lab}) is emitted {defs} times on one path (duplicate definition)', GEN, ev[at].line)
                if used and defs == 0 and key not in seen:
                    seen.add(key)
                    conds = {t: v for t, v in known.items() if 'goto' in t or 'end' in t}
                    chk.fail('C10.X8', key, f'`{lab}` is referenced by `{used[0].short()[:90]}` but Label({lab}) is not emitted on the path '
                             f'with {conds}: the output names an undefined label', GEN, used[0].line)
        if not any(k.startswith(f'{fname}::') for k in seen):
            chk.ok('C10.X8', fname, 'every referenced label is defined once on every path')
    chk.floor('label instances on paths', n_labels, 60)


def _span_like(n):
    t = src(n)
    if isinstance(n, ast.Tuple):
        return all(_span_like(e) for e in n.elts)
    if isinstance(n, ast.IfExp):
        return _span_like(n.body) and _span_like(n.orelse)
    if isinstance(n, ast.Call) and src(n.func) == 'tuple':
        return True
    if t.endswith(('.span', '.span.start', '.span.end', '.cursor', '.op_span', '.start', '.end')):
        return True
    if t in ('start', 'span', 'self.span', 'scan.cursor', 'node.value', 'context', 'lookup.span', 'init.span'):
        return True
    if isinstance(n, ast.Name):
        return True     # a local holding a cursor/span (its name is free to change)
    return False
