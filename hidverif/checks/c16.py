"""C16 - control never runs off the end of a function (finite-domain tabulation of exit modes)."""
from __future__ import annotations

import ast
import itertools

from ..pyfacts import AnalysisError, src
from ..consteval import Interp, Env, Unsupported
from ..genfacts import GenFacts, GEN
from .. import forms as F

BLOCKS = 'hidc/ast/blocks.py'
PROGRAM = 'hidc/ast/program.py'


class Dom:
    """Interpreted AST classes plus stub statements."""

    def __init__(self, repo):
        self.it = Interp(repo)
        self.ns = self.it.load('hidc/ast/__init__.py')
        ns = self.ns
        for name in ('ExitMode', 'CodeBlock', 'LoopBlock', 'IfBlock', 'TryBlock', 'UndoBlock', 'StopBlock',
                     'PreemptBlock', 'Block', 'BoolValue', 'ReturnStatement', 'BreakStatement',
                     'ContinueStatement', 'FuncCall', 'Ident', 'Flavor', 'DataType', 'Environment',
                     'FuncDeclaration', 'TypeCheckError'):
            if name not in ns:
                raise AnalysisError(f'hidc.ast namespace lacks {name}')
            setattr(self, name, ns[name])
        lex = self.it.load('hidc/lexer/__init__.py')
        self.span = lex['Span'](lex['Cursor'](0, 0), lex['Cursor'](0, 1))
        EM = self.ExitMode
        self.flags = [EM.NONE, EM.BREAK, EM.LOOP, EM.DEFEAT, EM.RETURN]
        self.all_modes = []
        for bits in range(32):
            m = EM(0)
            for i, f in enumerate(self.flags):
                if bits >> i & 1:
                    m |= f
            self.all_modes.append(m)
        Block = self.Block

        class Stub(Block):
            __slots__ = ()
            _m = None
            span = None
            preemptive = False

            def __init__(s, m):
                object.__setattr__(s, '_mode', m)

            def __setattr__(s, k, v):
                object.__setattr__(s, k, v)

            def evaluate(s, env):
                return s

            def exit_modes(s):
                return s._mode

            def __repr__(s):
                return f'Stub({s._mode!r})'
        # Stub cannot use __slots__ with instance attr; recreate without slots
        self.Stub = type('Stub', (Block,), {
            '__init__': lambda s, m: object.__setattr__(s, '_mode', m),
            'evaluate': lambda s, env: s,
            'exit_modes': lambda s: s._mode,
            'span': self.span, 'preemptive': False,
            '__repr__': lambda s: f'Stub({s._mode!r})',
            '__abstractmethods__': frozenset(),
        })
        FuncCall = self.FuncCall
        self.EvCall = type('EvCall', (FuncCall,), {'evaluate': lambda s, env: s})

    def stub(self, m):
        return self.Stub(m)

    def names(self, m):
        return {f.name for f in self.flags if f in m}

    def mk(self, names):
        m = self.ExitMode(0)
        for n in names:
            m |= self.ExitMode[n]
        return m


def seq_ref(m1, m2):
    """Reference sequential composition on name sets."""
    if 'NONE' in m1:
        return (m1 - {'NONE'}) | m2
    return m1


def run(repo, chk):
    chk.explanation = (
        'The exit-mode analysis of the typechecker is a set of pure functions over the 5-flag ExitMode lattice. '
        'Each exit_modes method, the sequential composition in CodeBlock.evaluate and the implicit-return step of '
        'FuncDeclaration.evaluate are interpreted from their syntax trees over ALL 32 mode sets (x 3 condition '
        'classes for loops, x statement alphabets for sequences) and compared with reference may-semantics: '
        'whenever the construct can complete normally NONE must be in the result, and BREAK must survive to the '
        'enclosing loop.  The generator side (cleanup skipping, return arm) is checked on emission paths.')
    chk.assumptions = ['reference semantics of completion stated in DESIGN.md C16 (may-analysis over NONE/BREAK)',
                       'interpreter CONSTEVAL implements the Python subset used by these functions faithfully']
    chk.rule('C16.E1', 'NONE/BREAK soundness of every exit_modes transfer function over all 32 mode sets')
    chk.rule('C16.E2', 'statements are dropped (or rejected under --lint) exactly when NONE not in mode or after a direct continue')
    chk.rule('C16.E3', 'implicit return: NONE in body modes leads to Missing-return error or an appended ReturnStatement')
    chk.rule('C16.E4', 'terminal calls are recognised only for the no-argument builtin stubs')
    chk.rule('C16.E5', 'every emission path through the return arm ends in goto(return address)')
    chk.rule('C16.E6', 'generator skips emitting block cleanup exactly when exited or NONE not in exit_modes')
    D = Dom(repo)
    EM = D.ExitMode
    nm = D.names
    # ---------------- E1: control blocks -----------------------------------
    n = 0
    for A in D.all_modes:
        a = nm(A)
        # Undo / Stop: identity
        for cls_name in ('UndoBlock', 'StopBlock'):
            blk = getattr(D, cls_name)(None, D.stub(A))
            r = nm(blk.exit_modes())
            n += 1
            if not ({'NONE', 'BREAK'} & a) <= r:
                chk.fail('C16.E1', f'{cls_name}.exit_modes({sorted(a)})', f'result {sorted(r)} loses NONE/BREAK', BLOCKS)
        # Preempt: may be skipped
        r = nm(D.PreemptBlock(None, D.stub(A)).exit_modes())
        n += 1
        if 'NONE' not in r or not ({'BREAK'} & a) <= r:
            chk.fail('C16.E1', f'PreemptBlock.exit_modes({sorted(a)})',
                     f'result {sorted(r)}: a preempt block may be skipped, so NONE must be present (and BREAK kept)', BLOCKS)
        # Loop x condition classes
        for cname, cond in (('true', D.BoolValue(True, None)), ('false', D.BoolValue(False, None)), ('dynamic', object())):
            blk = D.LoopBlock(None, D.stub(A), cond, D.CodeBlock((), None, False, EM.NONE))
            r = nm(blk.exit_modes())
            n += 1
            can_complete = cname != 'true' or 'BREAK' in a
            if can_complete and 'NONE' not in r:
                chk.fail('C16.E1', f'LoopBlock.exit_modes(body={sorted(a)}, cond={cname})',
                         f'result {sorted(r)} lacks NONE although the loop can complete normally', BLOCKS)
            if 'BREAK' in r:
                chk.fail('C16.E1', f'LoopBlock.exit_modes(body={sorted(a)}, cond={cname})#break',
                         'a loop consumes its own breaks; BREAK must not leak to the enclosing loop', BLOCKS)
            if 'RETURN' in a and 'RETURN' not in r:
                chk.fail('C16.E1', f'LoopBlock.exit_modes(body={sorted(a)}, cond={cname})#return',
                         f'result {sorted(r)} loses RETURN', BLOCKS)
        for B in D.all_modes:
            b = nm(B)
            r = nm(D.IfBlock(None, D.stub(A), object(), D.stub(B)).exit_modes())
            n += 1
            if not ((a | b) & {'NONE', 'BREAK', 'RETURN', 'DEFEAT', 'LOOP'}) <= r:
                chk.fail('C16.E1', f'IfBlock.exit_modes({sorted(a)},{sorted(b)})', f'result {sorted(r)} is not the union', BLOCKS)
            # a constant condition may make one branch dead - never the one that runs
            for cname, cond, live in (('true', D.BoolValue(True, None), a), ('false', D.BoolValue(False, None), b)):
                r = nm(D.IfBlock(None, D.stub(A), cond, D.stub(B)).exit_modes())
                n += 1
                if not (live & {'NONE', 'BREAK', 'RETURN', 'DEFEAT', 'LOOP'}) <= r:
                    chk.fail('C16.E1', f'IfBlock.exit_modes({sorted(a)},{sorted(b)}, cond={cname})',
                             f'result {sorted(r)} loses modes of the branch that runs ({sorted(live)})', BLOCKS)
            for hcls in ('UndoBlock', 'StopBlock'):
                t = D.TryBlock(None, D.stub(A), getattr(D, hcls)(None, D.stub(B)))
                r = nm(t.exit_modes())
                n += 1
                need = ((a - {'DEFEAT'}) | b) & {'NONE', 'BREAK', 'RETURN'}
                if not need <= r:
                    chk.fail('C16.E1', f'TryBlock.exit_modes(body={sorted(a)}, {hcls}={sorted(b)})',
                             f'result {sorted(r)} must contain the handler modes and the body modes: missing {sorted(need - r)} '
                             '(defeat inside nested expressions is not tracked, so the handler must always be included)', BLOCKS)
    chk.count('block_transfer_evaluations', n)
    chk.ok('C16.E1', 'all block transfer functions', f'{n} evaluations over 32 mode sets') if not any(
        v['rule'] == 'C16.E1' for v in chk.violations) else None
    # record per-class ok instances
    for cls_name in ('UndoBlock', 'StopBlock', 'PreemptBlock', 'LoopBlock', 'IfBlock', 'TryBlock'):
        bad = [v for v in chk.violations if v['rule'] == 'C16.E1' and v['construct'].startswith(cls_name)]
        if not bad:
            chk.ok('C16.E1', f'{cls_name}.exit_modes', 'sound over all mode sets')

    # ExitMode.replace
    for A, B, C in itertools.product(D.all_modes[:32:3], D.all_modes[:32:5], D.all_modes[:32:7]):
        r = A.replace(B, C)
        if r != (A & ~B) | C:
            chk.fail('C16.E1', 'ExitMode.replace', f'replace({A!r},{B!r},{C!r}) = {r!r}', BLOCKS)
            break
    else:
        chk.ok('C16.E1', 'ExitMode.replace', '(self & ~old) | new')

    # ---------------- E2 / E4: sequential composition ------------------------
    Ident, Flavor = D.Ident, D.Flavor
    Env_ = D.Environment

    def call(name, flavor, args=()):
        return D.EvCall(Ident(name, flavor), tuple(args), D.span)

    alphabet = []
    mode_sets = D.all_modes if chk.tier == 'thorough' else D.all_modes
    for m in mode_sets:
        alphabet.append((f'block{sorted(nm(m))}', lambda m=m: D.stub(m), nm(m), False))
    alphabet += [
        ('return', lambda: D.ReturnStatement(D.span), {'RETURN'}, False),
        ('break', lambda: D.BreakStatement(D.span), {'BREAK'}, False),
        ('continue', lambda: D.ContinueStatement(D.span), {'NONE'}, True),
        ('!is_defeat()', lambda: call('is_defeat', Flavor.DEFEAT), {'DEFEAT'}, False),
        ('all_is_win()', lambda: call('all_is_win', Flavor.NONE), {'LOOP'}, False),
        ('all_is_broken()', lambda: call('all_is_broken', Flavor.NONE), {'LOOP'}, False),
        ('!other()', lambda: call('other', Flavor.DEFEAT), {'NONE', 'DEFEAT'}, False),
        ('f()', lambda: call('f', Flavor.NONE), {'NONE'}, False),
        # user overloads sharing a terminal name but taking arguments return normally
        ('all_is_broken(1)', lambda: call('all_is_broken', Flavor.NONE, (object(),)), {'NONE'}, False),
        ('all_is_win(1)', lambda: call('all_is_win', Flavor.NONE, (object(),)), {'NONE'}, False),
        ('!is_defeat(1)', lambda: call('is_defeat', Flavor.DEFEAT, (object(),)), {'NONE', 'DEFEAT'}, False),
        ('@is_defeat()', lambda: call('is_defeat', Flavor.YOU), {'NONE'}, False),
        ('!all_is_win()', lambda: call('all_is_win', Flavor.DEFEAT), {'NONE', 'DEFEAT'}, False),
    ]
    small = [a for a in alphabet if not a[0].startswith('block')] + \
            [a for a in alphabet if a[0] in ("block['NONE']", "block['BREAK']", "block['RETURN']",
                                              "block['BREAK', 'NONE']", "block['NONE', 'RETURN']", "block['LOOP']",
                                              "block['DEFEAT']", "block[]")]
    seqs = [(a,) for a in alphabet] + list(itertools.product(alphabet, small)) + \
        (list(itertools.product(small, small, small)) if chk.tier == 'thorough' else
         list(itertools.product(small[:10], small[:10], small[:6])))
    n_seq = 0
    e2_bad = e4_bad = 0
    for lint in (False, True):
        for seq in seqs:
            stmts = tuple(a[1]() for a in seq)
            env = Env_.empty(unreachable_error=lint)
            env = env.new_child(D.DataType.EMPTY)
            blk = D.CodeBlock(stmts, D.span, False)
            # reference
            mode = {'NONE'}
            kept = 0
            cont = False
            ref_error = False
            for a in seq:
                if 'NONE' not in mode or cont:
                    ref_error = True
                    break
                kept += 1
                mode = seq_ref(mode, a[2])
                cont = cont or a[3]
            n_seq += 1
            label = ' ; '.join(a[0] for a in seq)
            try:
                out = blk.evaluate(env)
                raised = False
            except D.TypeCheckError:
                raised = True
            if lint:
                if raised != ref_error:
                    e2_bad += 1
                    chk.fail('C16.E2', f'CodeBlock.evaluate[lint]({label})',
                             f'unreachable-statement error raised={raised}, reference says {ref_error}', BLOCKS)
                continue
            if raised:
                chk.fail('C16.E2', f'CodeBlock.evaluate({label})', 'TypeCheckError without --lint', BLOCKS)
                continue
            got_kept = len(out.stmts)
            got = nm(out.exit_modes())
            if got_kept < kept:
                e2_bad += 1
                chk.fail('C16.E2', f'CodeBlock.evaluate({label})',
                         f'{len(stmts) - got_kept} statement(s) dropped although reachable (reference keeps {kept})', BLOCKS)
            need = mode & {'NONE', 'BREAK', 'RETURN'}
            if not need <= got:
                terminal = any(a[0] in ('all_is_broken(1)', 'all_is_win(1)', '!is_defeat(1)', '@is_defeat()', '!all_is_win()')
                               for a in seq)
                rule = 'C16.E4' if terminal else 'C16.E2'
                chk.fail(rule, f'CodeBlock.evaluate({label})',
                         f'exit modes {sorted(got)} lose {sorted(need - got)} (reference {sorted(mode)})', BLOCKS)
    chk.count('sequence_evaluations', n_seq)
    if not any(v['rule'] == 'C16.E2' for v in chk.violations):
        chk.ok('C16.E2', 'CodeBlock.evaluate sequential composition', f'{n_seq} sequences agree with the reference')
    if not any(v['rule'] == 'C16.E4' for v in chk.violations):
        chk.ok('C16.E4', 'terminal-call recognition', 'only no-argument is_defeat/all_is_win/all_is_broken end a block')
    # builtin stubs for the terminal names have () signatures and EMPTY return
    prog = D.it.load(PROGRAM)
    stubs = prog.get('builtin_stubs')
    if stubs is None:
        raise AnalysisError('builtin_stubs not found')
    for name, flavor in (('is_defeat', Flavor.DEFEAT), ('all_is_win', Flavor.NONE), ('all_is_broken', Flavor.NONE)):
        hits = [s for s in stubs if s.name == Ident(name, flavor)]
        chk.expect(len(hits) == 1 and hits[0].param_types == () and hits[0].ret_type == D.DataType.EMPTY,
                   'C16.E4', f'builtin stub {flavor.value}{name}()',
                   'terminal builtins must exist exactly once with no parameters', PROGRAM)

    # ---------------- E3: implicit return -------------------------------------
    FD = D.FuncDeclaration
    n3 = 0
    for M in D.all_modes:
        m = nm(M)
        if 'BREAK' in m:
            continue
        for ret in (D.DataType.EMPTY, D.DataType.INT):
            name = Ident('f', Flavor.DEFEAT)
            body = D.CodeBlock((D.stub(M),), D.span, False)
            decl = FD(D.span, ret, name, (), body)
            env = Env_.empty()
            env.add_funcs([decl])
            n3 += 1
            try:
                out = decl.evaluate(env)
                err = None
            except D.TypeCheckError as e:
                err = str(e)
                out = None
            key = f'FuncDeclaration.evaluate(body={sorted(m)}, ret={ret.value})'
            if 'NONE' in m and ret != D.DataType.EMPTY:
                chk.expect(err is not None and 'return' in err.lower(), 'C16.E3', key,
                           'a value-returning function whose body can complete must be rejected', PROGRAM)
            elif 'NONE' in m:
                ok = out is not None and len(out.body.stmts) == 2 and isinstance(out.body.stmts[-1], D.ReturnStatement) \
                    and 'NONE' not in nm(out.body.exit_modes())
                chk.expect(ok, 'C16.E3', key, 'an implicit return must be appended and NONE removed', PROGRAM)
            else:
                chk.expect(err is None, 'C16.E3', key, f'unexpected rejection: {err}', PROGRAM)
    chk.count('implicit_return_evaluations', n3)

    # ---------------- E5: return arm ends in goto(ra) --------------------------
    gf = GenFacts(repo)
    n5 = 0
    e5_failed = False
    for p, events in gf.inlined('gen_stmts'):
        if p.outcome != 'return':
            continue
        arms = [e for e in events if e.kind == 'case' and not e.origin]
        if not arms or 'ReturnStatement' not in arms[-1].text:
            continue
        n5 += 1
        items = [e for e in events if (e.kind == 'emit' and e.ctor != 'asm.Metadata') or e.kind in ('sub', 'splice')]
        ok = len(items) >= 2 and items[-1].kind == 'emit' and items[-1].ctor == 'asm.Halt' \
            and items[-2].kind == 'emit' and items[-2].ctor == 'asm.Jump' and src(items[-2].args[0]) == 'ra'
        ra_def = [e for e in events if e.kind == 'sub' and e.bound == 'ra']
        ok = ok and ra_def and all(e.func == '.get' and src(e.recv) == 'self.return_address' for e in ra_def)
        rets = [e for e in events if e.kind == 'return']
        ok = ok and rets and src(rets[-1].value).startswith('(True,')
        if not ok:
            chk.fail('C16.E5', 'gen_stmts[ReturnStatement] path', 'return arm must end with Jump(ra); Halt and report exited=True '
                     f'(last emissions: {[i.short() for i in items[-3:]]})', GEN, items[-1].line if items else 0)
            e5_failed = True
            break
    else:
        chk.ok('C16.E5', 'gen_stmts[ReturnStatement]', f'{n5} paths end in goto(ra)')
    if not e5_failed:      # (a reported path ends the loop early)
        chk.floor('return-arm paths', n5, 4)
    # break/continue arms report exited=True as well
    for arm in ('BreakStatement', 'ContinueStatement'):
        good = True
        cnt = 0
        for p, events in gf.inlined('gen_stmts'):
            arms = [e for e in events if e.kind == 'case' and not e.origin]
            if p.outcome == 'return' and arms and arm in arms[-1].text:
                cnt += 1
                rets = [e for e in events if e.kind == 'return']
                items = [e for e in events if e.kind == 'emit' and e.ctor != 'asm.Metadata']
                if not (src(rets[-1].value).startswith('(True,') and len(items) >= 2 and items[-1].ctor == 'asm.Halt'
                        and items[-2].ctor == 'asm.Jump'):
                    good = False
        chk.expect(good and cnt > 0, 'C16.E5', f'gen_stmts[{arm}]', 'exit arm must end in a goto and report exited=True', GEN)

    # ---------------- E6: cleanup skipping condition ---------------------------
    # decided on the emission paths of the CodeBlock arm, however the choice is spelled: a path EMITS the cleanup when the
    # pop generator is spliced into the output (`yield from self.pop(..)`), it runs it silently when the generator is only
    # drained.  Every decision of the path that can be evaluated for (exited, exit modes) is; the path must emit iff the
    # block can complete normally and did not exit.
    from .. import efg as _efg
    gns = {'ExitMode': EM}
    cb_paths = [(p, ev) for p, ev in gf.inlined('gen_block')
                if any(e.kind == 'case' and 'CodeBlock' in e.text and not e.origin for e in ev) and p.outcome != 'raise']
    bad = None
    n_dec = 0
    for p, ev in cb_paths:
        rel = gf.releasers()
        pops = [e for e in ev if e.kind in ('sub', 'silent', 'call') and e.func.startswith('self.') and e.func[5:] in rel]
        inline = [e for e in ev if e.kind == 'assign' and e.target == 'self.stack' and src(e.value).endswith('.prev')]
        if not pops and not inline:
            continue
        # (a releaser that was spliced into the path shows as its own events, tagged with their origin)
        emits = any(e.kind == 'sub' for e in pops) or any(
            e.kind in ('sub', 'emit') and any(o.replace('self.', '') in rel for o in e.origin) for e in ev)
        for exited in (True, False):
            for M in D.all_modes:
                blk = D.stub(M)
                feasible = True
                for idx, e in enumerate(ev):
                    if e.kind != 'cond' or e.node is None:
                        continue
                    try:
                        node = ast.parse(_efg.expand(ev, idx, e.node, keep=('exited', 'block')), mode='eval').body
                    except SyntaxError:
                        continue
                    names = {n_.id for n_ in ast.walk(node) if isinstance(n_, ast.Name)}
                    if not names or not names <= {'exited', 'block', 'ExitMode'}:
                        continue
                    try:
                        v = bool(D.it.eval(node, Env(gns, {'exited': exited, 'block': blk, 'ExitMode': EM})))
                    except Exception:      # noqa: BLE001
                        continue
                    if v != e.truth:
                        feasible = False
                        break
                if not feasible:
                    continue
                n_dec += 1
                want_emit = (not exited) and ('NONE' in nm(M))
                if emits != want_emit and bad is None:
                    bad = (exited, sorted(nm(M)), emits)
    chk.expect(bad is None and n_dec >= 64, 'C16.E6', 'gen_block cleanup condition',
               (f'with exited={bad[0]} modes={bad[1]} cleanup emitted={bad[2]}; ' if bad else f'{n_dec} (path, exited, modes) combinations; ') +
               'cleanup code must be emitted iff the block can complete normally and did not exit', GEN)
    # what survives typechecking: an implicit return for every body (also the empty one), live code after non-exits (typing census)
    if chk.__class__.__name__ == 'Check':
        from .. import typecensus
        typecensus.decide(repo, chk, 'C16.E3', {'exit'}, 'hidc/ast/program.py')
    # terminal calls are terminal in the emitted code too: a defeat site is `[Jump(defeat)] Halt` (shared with C03.J1/J2)
    if chk.__class__.__name__ == 'Check':
        from . import c03
        from ..report import Remap
        c03.run(repo, Remap(chk, {'C03.J1': 'C16.E4', 'C03.J2': 'C16.E4', 'C03.J4': 'C16.E4'}))
        # a loop the typechecker treats as never completing must be emitted with its back edge on every path,
        # and `continue` (which is not an exit mode) must have a target inside the loop
        chk.rule('C16.E7', 'loop template: body, continue label, [cont], back edge to the loop head on every path (shared with C08.L2)')
        from . import c08

        def loop_shape(construct):
            return 'C16.E7' if construct.startswith('gen_block[LoopBlock]') else None
        c08.run(repo, Remap(chk, {'C08.L2': loop_shape}))
        # break / continue leave the innermost loop: the loop record they read is the one pushed last (shared with C02.T4)
        from . import c02
        c02.run(repo, Remap(chk, {'C02.T4': lambda c: 'C16.E7' if ('LoopInfo' in c or 'BreakStatement' in c or 'ContinueStatement' in c) else None}))
    chk.exhaustive = True
    chk.sample({'loop_table': {c: sorted(nm(D.LoopBlock(None, D.stub(D.mk(['NONE', 'BREAK'])), cond,
                               D.CodeBlock((), None, False, EM.NONE)).exit_modes()))
                               for c, cond in (('true', D.BoolValue(True, None)), ('dynamic', object()))}})
    chk.not_decided = ['that run-time control flow of emitted code follows the block structure (C03 forms)']


class _FakeSpan:
    end = None
    start = None

    def __or__(self, other):
        return self
