"""C06 - flavour and context rules (complete finite-state analysis of BlockContext flow)."""
from __future__ import annotations

import ast
from collections import deque

from ..pyfacts import AnalysisError, src
from ..ctxflow import CtxFlow, Sem, expected, GRAMMAR, CONSTRUCTS
from ..consteval import Interp

TOKEN_OF = {'BreakStatement': 'BREAK', 'ContinueStatement': 'CONTINUE', 'TryBlock': 'TRY',
            'PreemptBlock': 'PREEMPT', 'Speculation': 'SPECULATION'}
READERS = 'hidc/lexer/readers.py'
TOKENS = 'hidc/lexer/tokens.py'


def ctx_name(cf, c):
    if c is None:
        return '-'
    v = int(c)
    names = []
    for n in ('TRY', 'YOU', 'DEFEAT', 'FUNC', 'LOOP'):
        b = cf.bits[n]
        if b and (v & b) == b and not any((cf.bits[m] & b) == b and m != n and (v & cf.bits[m]) == cf.bits[m]
                                         and cf.bits[m] != b and n in ('FUNC', 'DEFEAT') and m in names for m in cf.bits):
            names.append(n)
    return '|'.join(names) if names else 'NONE'


def edge_role(cf, fname, summ, edge):
    callee, cctx, bound, line, argtext = edge
    if fname == 'ps_func' and callee == 'ps_code_block':
        flav = 'NONE'
        for text, truth in summ['free']:
            if truth and 'Flavor.YOU' in text:
                flav = 'YOU'
            elif truth and 'Flavor.DEFEAT' in text:
                flav = 'DEFEAT'
        return ('func-body', flav)
    if fname == 'ps_program' and cctx is not None:
        return ('global-init', None)
    if callee == 'ps_block' and fname not in ('ps_func', 'ps_program', 'ps_expr'):
        # (whichever routine parses the block statement: ps_block itself, or a routine split off from it)
        if 'TRY' in summ['tokens'] or any(c[0] == 'TryBlock' for c in summ['constructs']):
            # which ps_block call feeds the body argument of TryBlock?
            tb = [c for c in summ['constructs'] if c[0] == 'TryBlock']
            if not tb:
                return ('try-unknown', None)
            cev = tb[0][2]
            if len(cev.args) < 3 or not isinstance(cev.args[1], ast.Name):
                raise AnalysisError('TryBlock(...) construction has an unexpected shape')
            body_name = cev.args[1].id
            call_node = None
            for e in summ['events']:
                if e.kind == 'call' and e.func == 'ps_block' and e.line == line and e.argtexts and e.argtexts[0] == argtext:
                    call_node = e.node
            for e in summ['events']:
                if e.kind == 'assign' and e.target == body_name and isinstance(e.value, ast.AST):
                    if any(n is call_node for n in ast.walk(e.value)):
                        return ('try-body', None)
            return ('handler', None)
        if 'WHILE' in summ['tokens'] or 'FOR' in summ['tokens'] or any(
                e.kind == 'call' and e.recv is not None and src(e.recv) == 'LoopBlock' for e in summ['events']):
            return ('loop-body', None)
        if 'PREEMPT' in summ['tokens']:
            return ('preempt-body', None)
        return ('plain', None)
    if fname == 'ps_expr' and cctx is not None and 'SPECULATION' in summ['tokens']:
        # (whichever routine parses the operands: ps_expr8 today)
        # operands are the parses after the Teleport back to the start of the expression
        tele = [e.line for e in summ['events'] if e.kind == 'call' and e.func == 'Teleport']
        if tele and line > min(tele):
            return ('spec-operand', None)
        return ('plain', None)
    return ('plain', None)


def step_sem(sem: Sem, role):
    kind, arg = role
    if kind == 'func-body':
        return Sem(arg, False, False, False)
    if kind == 'global-init':
        return Sem('GLOBAL', False, False, False)
    if kind == 'try-body':
        return Sem(sem.flavor, True, sem.loop, sem.spec)
    if kind == 'loop-body':
        return Sem(sem.flavor, sem.try_body, True, sem.spec)
    if kind == 'spec-operand':
        return Sem(sem.flavor, sem.try_body, sem.loop, True)
    return sem


def run(repo, chk):
    chk.explanation = (
        'Complete finite-state analysis: each ps_* coroutine of grammar.py is path-enumerated; conditions on '
        '`ctx` are evaluated for each of the 32 BlockContext values, token conditions are left free. A worklist '
        'closes the set of reachable (coroutine, context, semantic position) triples, where the semantic position '
        '(function flavour, inside try body, inside loop, inside ?? operand) is tracked from the syntactic role of '
        'each call edge, independently of the bit encoding.  At every triple the code\'s accept/reject verdict for '
        'each context-sensitive construct is compared in BOTH directions with the documented rule.')
    chk.assumptions = ['the lexer classifies @name / !name as YOU / DEFEAT identifiers (checked structurally below)',
                       'semantic role of a call edge is read from the token branch it occurs in and from which '
                       'parsed value feeds which constructor argument']
    chk.rule('C06.V1', 'verdict agreement: a construct is accepted in a reachable (ctx, position) iff the documented rule allows it')
    chk.rule('C06.I3', 'YOU and DEFEAT bits never co-occur in a reachable context')
    chk.rule('C06.I7', 'completeness: every context-dependent condition in grammar.py belongs to one of the documented rules')
    chk.rule('C06.T1', 'transitions: try body drops YOU and adds TRY; handler keeps ctx; loop adds LOOP; ?? operands drop YOU; function entry by flavour')
    chk.rule('C06.L1', 'lexer: @/! prefixes map to YOU/DEFEAT identifiers, keywords cannot be flavoured; ps_ident filters by flavour')
    cf = CtxFlow(repo)
    chk.count('coroutines', len(cf.funcs))
    chk.count('paths', sum(len(p) for p in cf.paths.values()))
    chk.floor('grammar coroutines', len(cf.funcs), 20)

    start = ('ps_program', None, Sem('GLOBAL'))
    seen = {start}
    work = deque([start])
    edges_seen = set()
    verdict_rows = {}
    ctx_cond_sites = set()
    ctx_cond_attrib = set()
    while work:
        fname, ctx, sem = work.popleft()
        fn = cf.funcs[fname]
        summs = cf.summarize(fname, ctx)
        # edges
        for s in summs:
            for edge in s['edges']:
                callee, cctx, bound, line, argtext = edge
                role = edge_role(cf, fname, s, edge)
                nsem = step_sem(sem, role)
                if cctx is None and cf.has_ctx(cf.funcs[callee]):
                    raise AnalysisError(f'{fname}: call of {callee} without context')
                t = (callee, cctx, nsem)
                edges_seen.add((fname, callee, argtext, role[0]))
                if t not in seen:
                    seen.add(t)
                    work.append(t)
        # verdicts at this triple
        if ctx is None:
            continue
        for construct, tok in TOKEN_OF.items():
            rel = [s for s in summs if tok in s['tokens']]
            if not rel and cf.dedicated(fname, construct, tok):
                # a routine that is only entered after the keyword was read (it never tests the token itself and builds
                # the construct): every way through it concerns the construct
                rel = summs
            if not rel:
                continue
            accept = any(any(c[0] == construct for c in s['constructs']) for s in rel)
            if not accept:
                # all feasible token paths must end in a raise
                silent = [s for s in rel if s['outcome'] != 'raise']
                if silent:
                    chk.fail('C06.V1', f'{fname}::{construct}@{ctx_name(cf, ctx)}',
                             'construct neither built nor rejected with an error on some path', GRAMMAR, fn.lineno)
            verdict_rows.setdefault((fname, construct, int(ctx), sem), accept)
        if fname == 'ps_func_call':
            built = [s for s in summs if any(c[0] == 'FuncCall' for c in s['constructs'])]
            allowed = set()
            for s in built:
                for val, line, text in s['idents']:
                    if val is None or not isinstance(val, (set, frozenset)):
                        raise AnalysisError('ps_func_call: cannot evaluate the flavour set passed to ps_ident')
                    allowed |= {f.name for f in val}
            for flav in ('NONE', 'YOU', 'DEFEAT'):
                verdict_rows.setdefault((fname, f'call:{flav}', int(ctx), sem), flav in allowed)
    chk.count('reachable_triples', len(seen))
    reach_ctx = sorted({int(c) for _, c, _ in seen if c is not None})
    chk.count('reachable_contexts', len(reach_ctx))
    chk.count('call_edges', len(edges_seen))
    chk.floor('ctx-carrying call edges', len(edges_seen), 30)
    chk.floor('reachable contexts', len(reach_ctx), 6)

    # V1: both directions
    n_rows = 0
    for (fname, construct, cval, sem), accept in sorted(verdict_rows.items(), key=lambda kv: (kv[0][0], kv[0][1], kv[0][2], str(kv[0][3]))):
        exp = expected(construct, sem)
        n_rows += 1
        key = f'{fname}::{construct}@{sem}'
        if exp is None:
            chk.ok('C06.V1', key + '#unspecified', f'ctx={ctx_name(cf, cf.BC(cval))} code={"accept" if accept else "reject"}')
            continue
        if accept == exp:
            chk.ok('C06.V1', key, f'ctx={ctx_name(cf, cf.BC(cval))} {"accept" if accept else "reject"}')
        else:
            chk.fail('C06.V1', key,
                     f'in position {sem} (context value {ctx_name(cf, cf.BC(cval))}) the grammar '
                     f'{"accepts" if accept else "rejects"} {construct} but the documented rule says '
                     f'{"accept" if exp else "reject"}', GRAMMAR, cf.funcs[fname].lineno)
    chk.floor('verdict rows', n_rows, 60)
    chk.sample({'verdict_rows': [f'{k[0]}::{k[1]}@{k[3]} -> {"accept" if v else "reject"}'
                                 for k, v in list(sorted(verdict_rows.items(), key=lambda kv: str(kv[0])))[:12]]})

    # I3
    you, defeat, func = cf.bits['YOU'] & ~cf.bits['FUNC'], cf.bits['DEFEAT'] & ~cf.bits['FUNC'], cf.bits['FUNC']
    for c in reach_ctx:
        chk.expect(not ((c & you) and (c & defeat)), 'C06.I3', f'context {ctx_name(cf, cf.BC(c))}',
                   'YOU and DEFEAT bits together in a reachable context', GRAMMAR)
    # semantic/bit agreement on reachable triples
    for fname, ctx, sem in sorted(seen, key=str):
        if ctx is None:
            continue
        c = int(ctx)
        has_you = bool(c & you)
        has_def = bool(c & defeat)
        exp_you = sem.flavor == 'YOU' and not sem.try_body and not sem.spec
        exp_def = (sem.flavor == 'DEFEAT' or sem.try_body)
        exp_loop = sem.loop
        exp_func = sem.flavor != 'GLOBAL'
        ok = (has_you == exp_you and has_def == exp_def and bool(c & cf.bits['LOOP']) == exp_loop
              and bool(c & func) == exp_func)
        chk.expect(ok, 'C06.T1', f'{fname}@{sem}',
                   f'context value {ctx_name(cf, ctx)} does not encode the semantic position {sem} '
                   f'(YOU={has_you}/{exp_you} DEFEAT={has_def}/{exp_def} LOOP={bool(c & cf.bits["LOOP"])}/{exp_loop} '
                   f'FUNC={bool(c & func)}/{exp_func})', GRAMMAR, cf.funcs[fname].lineno)

    # I7 completeness: every ctx-dependent condition is one of the documented tests
    from ..canon import roles as _roles
    allowed_sites = {'ps_func_call', 'ps_expr', 'ps_stmt', 'ps_block'} | \
        {n for n in cf.funcs if _roles() and f'{GRAMMAR}::{n}' not in _roles()}     # routines split off from those
    n_sites = 0
    for fname, fn in cf.funcs.items():
        for n in ast.walk(fn):
            if isinstance(n, (ast.If, ast.IfExp, ast.While, ast.Assert)) and cf._mentions(n.test, {'ctx', 'new_ctx'}):
                n_sites += 1
                text = src(n.test)
                ok = fname in allowed_sites and ('BlockContext.' in text) and (' not in ctx' in text or ' in ctx' in text)
                chk.expect(ok, 'C06.I7', f'{fname}::if {text}',
                           'context-dependent condition outside the documented rules', GRAMMAR, n.lineno)
            if isinstance(n, ast.Match) and any(isinstance(m, ast.Name) and m.id == 'ctx' for m in ast.walk(n.subject)):
                chk.fail('C06.I7', f'{fname}::match {src(n.subject)}', 'context-dependent match', GRAMMAR, n.lineno)
    chk.floor('context-dependent condition sites', n_sites, 5)
    # every reachable ctx rejections happen only via ParserError
    # L1: ps_ident filters by flavour and raises otherwise
    ident = cf.funcs.get('ps_ident')
    if ident is None:
        raise AnalysisError('ps_ident not found')
    paths = cf.paths['ps_ident']
    acc = [p for p in paths if p.outcome == 'return' and any(e.kind == 'cond' and 'in allowed_flavors' in e.text and e.truth for e in p.events)]
    rej = [p for p in paths if p.outcome == 'raise' and any(e.kind == 'cond' and 'in allowed_flavors' in e.text and not e.truth for e in p.events)]
    bad = [p for p in paths if p.outcome == 'return' and any(e.kind == 'cond' and 'in allowed_flavors' in e.text and not e.truth for e in p.events)
           and any(e.kind == 'return' and src(e.value) != 'None' for e in p.events)]
    chk.expect(bool(acc) and bool(rej) and not bad, 'C06.L1', 'ps_ident flavour filter',
               'ps_ident must return the identifier iff its flavour is allowed and raise ParserError otherwise', GRAMMAR, ident.lineno)
    # lexer side (interpreted over the three prefixes)
    # lexer side: the identifier reader, interpreted on one representative of each of the 3 x 3 input classes
    # (no sigil / @ / !) x (identifier / keyword / neither) - the identifier pattern and the keyword table themselves
    # are decided in C12
    it0 = cf.interp
    rdns = it0.load(READERS)
    scns = it0.load('hidc/lexer/scanner.py')
    tok0 = it0.load(TOKENS)
    reader = rdns.get('read_ident_or_keyword_token')
    if reader is None:
        raise AnalysisError('read_ident_or_keyword_token not found in readers.py')
    kw = next(iter(rdns['keyword_tokens']))
    FL = tok0['Flavor']
    for sigil, flavor in (('', FL.NONE), ('@', FL.YOU), ('!', FL.DEFEAT)):
        for word, kind in (('foo_1', 'identifier'), (kw, 'keyword'), ('=', 'neither'), ('', 'end of line')):
            text = sigil + word + ' rest'
            scan = scns['Scanner'](scns['SourceCode']('f', [text]))
            key = f'read_ident_or_keyword_token[{sigil or "no sigil"} + {kind}]'
            try:
                got = reader(scan)
                err = None
            except rdns['LexerError'] as e:
                got, err = None, e
            except Exception as e:      # noqa: BLE001
                chk.fail('C06.L1', key, f'{type(e).__name__}: {e}', READERS)
                continue
            if kind == 'identifier':
                ok = err is None and type(got).__name__ == 'Ident' and got.base_name == word and got.flavor is flavor \
                    and scan.col == len(sigil + word)
                want = f'Ident({word!r}, {flavor.name}) and the cursor behind it'
            elif kind == 'keyword' and not sigil:
                ok = err is None and got is rdns['keyword_tokens'][kw] and scan.col == len(word)
                want = 'the keyword token'
            elif not sigil:
                ok = err is None and got is None and scan.col == 0
                want = 'None without consuming anything'
            else:
                ok = err is not None
                want = 'a LexerError (a sigil must be followed by a non-keyword identifier)'
            chk.expect(ok, 'C06.L1', key, f'{text!r}: returned {got!r}{" raised " + str(err) if err else ""}, cursor at {scan.col}; expected {want}',
                       READERS)
    # Ident default flavour is NONE; Flavor values
    it = cf.interp
    tok = it.load(TOKENS)
    Flavor = tok['Flavor']
    chk.expect({m.name: m.value for m in Flavor} == {'NONE': '', 'YOU': '@', 'DEFEAT': '!'}, 'C06.L1', 'Flavor enum',
               f'{ {m.name: m.value for m in Flavor} }', TOKENS)
    Ident = tok['Ident']
    chk.expect(Ident('x').flavor is Flavor.NONE and Ident.you('x').flavor is Flavor.YOU
               and Ident.defeat('x').flavor is Flavor.DEFEAT, 'C06.L1', 'Ident constructors', '', TOKENS)
    # identifiers of different flavours are different names (function tables are keyed by Ident)
    ids = [Ident('f'), Ident.you('f'), Ident.defeat('f'), Ident('g')]
    distinct = all((a == b) == (i == j) for i, a in enumerate(ids) for j, b in enumerate(ids))
    same = Ident('f', Flavor.YOU) == Ident.you('f') and hash(Ident('f', Flavor.YOU)) == hash(Ident.you('f')) and len({*ids, Ident('f')}) == 4
    chk.expect(distinct and same, 'C06.L1', 'Ident equality / hashing', 'f, @f and !f must be three different keys; equal idents hash equally', TOKENS)
    chk.expect([i.name for i in ids[:3]] == ['f', '@f', '!f'], 'C06.L1', 'Ident.name', f'{[i.name for i in ids[:3]]}', TOKENS)
    # flavors property tabulated over all 32 contexts
    for v in range(32):
        c = cf.BC(v)
        fl = {f.name for f in c.flavors}
        exp = set()
        if v & func:
            exp.add('NONE')
        if (v & cf.bits['YOU']) == cf.bits['YOU']:
            exp.add('YOU')
        if (v & cf.bits['DEFEAT']) == cf.bits['DEFEAT']:
            exp.add('DEFEAT')
        chk.expect(fl == exp, 'C06.T1', f'BlockContext({v}).flavors', f'{sorted(fl)} expected {sorted(exp)}', GRAMMAR)
    # P1: the coroutine driver re-runs a routine every time it is awaited (no result reuse across contexts)
    chk.rule('C06.P1', 'driver faithfulness: Parser.process creates a fresh coroutine per invocation and keeps no cache; Teleport only moves the position')
    RULES = 'hidc/parser/rules.py'
    pm = repo.methods(RULES, 'Parser')
    proc = pm.get('process')
    ok = proc is not None
    if ok:
        # a fresh coroutine per invocation: self.consume() is called exactly once, outside any loop, and bound to a local
        import builtins as _bi
        consumes = [n for n in ast.walk(proc) if isinstance(n, ast.Call) and src(n.func) == 'self.consume']
        in_loop = any(isinstance(a, (ast.For, ast.While)) and any(c in list(ast.walk(a)) for c in consumes) for a in ast.walk(proc))
        ok = len(consumes) == 1 and not consumes[0].args and not in_loop
        # no state besides its own locals: the only attributes of self it touches are consume / backtrack, and every other
        # name is a parameter, a local it binds itself, or a builtin (a memo table would be a module / instance name)
        names_used = {n.attr for n in ast.walk(proc) if isinstance(n, ast.Attribute) and isinstance(n.value, ast.Name) and n.value.id == 'self'}
        ok = ok and names_used <= {'consume', 'backtrack'}
        local = {a.arg for a in proc.args.args}
        for n in ast.walk(proc):
            if isinstance(n, ast.Name) and isinstance(n.ctx, ast.Store):
                local.add(n.id)
            if isinstance(n, ast.ExceptHandler) and n.name:
                local.add(n.name)
        # names bound at module level by class / def / import are code, not state; a memo would be a module-level variable
        mod_code = set()
        for st_ in repo.module(RULES).body:
            if isinstance(st_, (ast.ClassDef, ast.FunctionDef, ast.AsyncFunctionDef)):
                mod_code.add(st_.name)
            elif isinstance(st_, (ast.Import, ast.ImportFrom)):
                mod_code |= {(a_.asname or a_.name).split('.')[0] for a_ in st_.names}
        glob_names = {n.id for n in ast.walk(proc) if isinstance(n, ast.Name)} - local - set(dir(_bi)) - mod_code
        ok = ok and not glob_names and not any(isinstance(n, (ast.Global, ast.Nonlocal)) for n in ast.walk(proc))
    chk.expect(ok, 'C06.P1', 'Parser.process', 'must start a fresh coroutine (`coro = self.consume()`) and use no state besides '
               'consume/backtrack: a memo keyed without the context would let the second parse of a ?? operand reuse the first', RULES)
    rt = pm.get('routine')
    t = src(rt) if rt is not None else ''
    chk.expect('return cls(functools.partial(func, *args, **kwargs), expected=expected)' in t, 'C06.P1', 'Parser.routine',
               'each call of a grammar routine builds a new rule bound to its own arguments (including ctx)', RULES)
    mod_state = [src(n)[:50] for n in repo.module(RULES).body
                 if isinstance(n, (ast.Assign, ast.AnnAssign)) and isinstance(getattr(n, 'value', None), (ast.Dict, ast.List, ast.Set, ast.Call))]
    chk.expect(not mod_state, 'C06.P1', 'rules.py module state', f'module-level mutable state {mod_state}', RULES)
    tp = repo.methods(RULES, 'Teleport').get('process')
    def _pair(v):
        # (start, self.node) as a tuple or as the arguments of a result-pair class
        elts = v.elts if isinstance(v, ast.Tuple) else (v.args if isinstance(v, ast.Call) and not v.keywords else [])
        return [src(x) for x in elts]
    chk.expect(tp is not None and [_pair(n.value) for n in ast.walk(tp) if isinstance(n, ast.Return)] == [['start', 'self.node']], 'C06.P1',
               'Teleport.process', 'returns to the saved position', RULES)
    # flavour identity in the typechecker: the builtins that never complete (!is_defeat, all_is_win, all_is_broken) are
    # recognised by their exact flavoured name, so a user function of another flavour with the same base name is an ordinary
    # call (shared with the statement-sequence tabulation C16.E2)
    chk.rule('C06.L2', 'flavour is part of the name in the typechecker too: f, @f and !f with a builtin base name are not the builtin '
                       '(shared with C16.E2)')
    if chk.__class__.__name__ == 'Check':
        from . import c16
        from ..report import Remap as _Remap
        c16.run(repo, _Remap(chk, {'C16.E2': lambda c: 'C06.L2' if '@' in c or '!' in c else None}))
    # ---- V2: the placement table --------------------------------------------------------------------------------
    # lexer + grammar of the tree evaluated by the checker's interpreter (hidverif.frontend) on one small program per
    # (construct, position): every context-sensitive construct at every position that legal nesting reaches within the
    # depth bound, against the documented rule.  This reads nothing of the grammar's shape (routine names, tables,
    # helper methods), and it goes through rules.py and the lexer as well.
    chk.rule('C06.V2', 'placement table: each construct at each position reachable by legal nesting (bounded depth), parsed by '
                       'the interpreted front end, is accepted iff the documented rule allows it')
    if chk.__class__.__name__ == 'Check':
        from .. import placement
        if chk.tier == 'thorough':
            bad, n, dist = placement.run_table_parallel(repo.root, 2, True)
        else:
            from ..frontend import Frontend
            bad, n, dist = placement.run_table(Frontend(repo), 1, False)
        for label, prog, got, want in bad[:6]:
            chk.fail('C06.V2', label, f'`{prog}` is {got}; the documented rule says {want}', GRAMMAR)
        if not bad:
            chk.ok('C06.V2', 'placement table', f'{n} programs, {len(dist)} distinct (construct, position) pairs: verdicts as documented')
        chk.count('placements', n)
        chk.count('placement_pairs', len(dist))
        chk.floor('placement programs', n, 90)
    chk.exhaustive = True
    chk.not_decided = ['nothing for the grammar as a finite-state system: the context lattice is finite and fully explored (V1); '
                       'the placement table (V2) is bounded by nesting depth 1 (quick) / 2 (thorough); typing rules are C07']


def run_thorough(repo, chk):
    """Also tabulate unreachable contexts (report only) for the evidence."""
    cf = CtxFlow(repo)
    rows = 0
    for fname in ('ps_stmt', 'ps_block', 'ps_expr', 'ps_func_call'):
        for v in range(32):
            try:
                s = cf.summarize(fname, cf.BC(v))
                rows += len(s)
            except Exception:
                pass
    chk.count('thorough_path_summaries_all_32_contexts', rows)
