"""C13 - constant data reaches the output byte for byte (escaping over all 256 bytes, tables, packing)."""
from __future__ import annotations

import ast
import itertools

from .. import efg as _efg
from ..pyfacts import AnalysisError, src
from ..genfacts import new_codegen, GenFacts, GEN, ASM
from ..consteval import Interp
from ..report import Remap
from .. import forms as F


def decode_sphinx(text: bytes, quote: int):
    """Reference decoder for the Sphinx assembler's quoted text: returns (decoded bytes, error or None).
    Escapes: \\\\ \\" \\' \\n \\r \\t \\0 \\xHH ; an unescaped quote character ends the literal."""
    out = bytearray()
    i = 0
    n = len(text)
    while i < n:
        c = text[i]
        if c == quote:
            return bytes(out), f'unescaped quote at offset {i}'
        if c == 0x5c:
            if i + 1 >= n:
                return bytes(out), 'dangling backslash'
            d = text[i + 1]
            if d == ord('x'):
                hx = text[i + 2:i + 4]
                if len(hx) != 2 or any(ch not in b'0123456789abcdefABCDEF' for ch in hx):
                    return bytes(out), f'malformed \\x escape at offset {i}'
                out.append(int(hx, 16))
                i += 4
                continue
            table = {ord('\\'): 0x5c, ord('"'): 0x22, ord("'"): 0x27, ord('n'): 0x0a, ord('r'): 0x0d,
                     ord('t'): 0x09, ord('0'): 0x00}
            if d not in table:
                return bytes(out), f'unknown escape \\{chr(d)}'
            out.append(table[d])
            i += 2
            continue
        if c < 0x20 or c > 0x7e:
            return bytes(out), f'raw non-printable byte 0x{c:02x} in assembly text'
        out.append(c)
        i += 1
    return bytes(out), None


def _make_global(repo, chk, gf):
    """make_global, interpreted on typed initialisers of every kind (it only formats compile-time values): which
    directive a constant array / zero-initialised array / scalar becomes, with which items, under which label, in
    which section, and which length the reference records."""
    ns = gf.module_ns()
    it = repo.__dict__['_gen_ns']['it']
    CG, asm, A, DT = ns['CodeGen'], ns['asm'], ns['ast'], ns['DataType']
    lex = it.load('hidc/lexer/__init__.py')
    span = lex['Span'](lex['Cursor'](0, 0), lex['Cursor'](0, 1))
    AT = A.ArrayType

    def fresh(ws):
        g = new_codegen(CG)
        g.word_size = ws
        g.stack = ns['StackPoint']()
        pass        # book-keeping tables come from the dataclass field factories (new_codegen)
        return g

    def items(d):
        return [getattr(x, 'data', getattr(x, 'label_name', x)) for x in d.items]
    n = 0
    for ws in (2, 3):
        M = (1 << (8 * ws)) - 1
        bools = [i % 3 == 0 for i in range(11)]
        packed = []
        for i, bit in enumerate(bools):
            if i % 8 == 0:
                packed.append(0)
            packed[-1] |= int(bit) << (i % 8)
        lits = [
            ('int', AT(DT.INT, True), (A.IntValue(300, span), A.IntValue(-2, span), A.IntValue(0, span)), 'WordDirective', [300, -2, 0]),
            ('byte', AT(DT.BYTE, True), (A.ByteValue(7, span), A.ByteValue(255, span)), 'ByteDirective', [7, 255]),
            ('bool', AT(DT.BOOL, True), tuple(A.BoolValue(x, span) for x in bools), 'ByteDirective', packed),
            ('one bool', AT(DT.BOOL, True), (A.BoolValue(True, span),), 'ByteDirective', [1]),
            ('string', AT(DT.STRING, True), (A.StringValue(b'hi', span), A.StringValue(b'', span)), 'WordDirective', None),
        ]
        for label, T, vals, want_dir, want_items in lits:
            for const in (True, False):
                g = fresh(ws)
                key = f'make_global[ArrayLiteral {label}, const={const}, w={ws}]'
                try:
                    init = A.ArrayLiteral(vals, span).coerce(T)
                    ref = g.make_global(init, const, 'p')
                except Exception as e:      # noqa: BLE001
                    chk.fail('C13.B3', key, f'{type(e).__name__}: {e}', GEN)
                    continue
                n += 1
                here = g.const_data if const else g.state_data
                other = g.state_data if const else g.const_data
                d = here.get(ref.origin)
                ok = d is not None and not other and len(here) == 1 and type(d).__name__ == want_dir and \
                    (want_items is None or items(d) == [(x & M if isinstance(x, int) and x < 0 and False else x) for x in want_items]) and \
                    getattr(ref.length, 'data', None) == len(vals) and ref.type.el_type == T.el_type
                if want_items is None and ok:
                    ok = len(d.items) == len(vals) and all(type(x).__name__ == 'LabelRef' for x in d.items) and \
                        sorted(g.string_labels) == sorted({v.data for v in vals})
                chk.expect(ok, 'C13.B3', key, f'directive {type(d).__name__ if d is not None else None} items '
                           f'{items(d) if d is not None else None} (expected {want_dir} {want_items}), recorded length '
                           f'{getattr(ref.length, "data", None)} (expected {len(vals)})', GEN)
        # zero-initialised arrays: reserved bytes = array_size(element, length); negative / oversized lengths rejected
        for el, size in ((DT.INT, lambda k: k * ws), (DT.BYTE, lambda k: k), (DT.BOOL, lambda k: (k + 7) >> 3), (DT.STRING, lambda k: k * ws)):
            for k in (0, 1, 5, 9):
                g = fresh(ws)
                key = f'make_global[ArrayInitializer {el.value}[{k}], w={ws}]'
                try:
                    ref = g.make_global(A.ArrayInitializer(AT(el, False), A.IntValue(k, span)), False, 'p')
                except Exception as e:      # noqa: BLE001
                    chk.fail('C13.B3', key, f'{type(e).__name__}: {e}', GEN)
                    continue
                n += 1
                d = g.state_data.get(ref.origin)
                ok = d is not None and type(d).__name__ == 'ZeroDirective' and getattr(d.size, 'data', None) == size(k) and \
                    getattr(ref.length, 'data', None) == k and type(d.size).__name__ == 'IntLiteral'
                chk.expect(ok, 'C13.B3', key, f'reserves {getattr(getattr(d, "size", None), "data", None)} bytes (expected {size(k)}), '
                           f'records length {getattr(ref.length, "data", None)}', GEN)
            for k in (-1, -3, -8, -(M + 1) // 2, M + 1 + 5):
                g = fresh(ws)
                key = f'make_global[ArrayInitializer {el.value}[{k if abs(k) < 100 else "huge"}], w={ws}]'
                try:
                    ref = g.make_global(A.ArrayInitializer(AT(el, False), A.IntValue(k, span)), False, 'p')
                    got = getattr(ref.length, 'data', None)
                    d = g.state_data.get(ref.origin)
                    # accepted: then the recorded length is the unsigned reduction and the storage matches it
                    ok = got == (k & M) and d is not None and getattr(d.size, 'data', None) == size(k & M)
                    detail = f'accepted with length {got}, reserves {getattr(getattr(d, "size", None), "data", None)} bytes'
                except ns['CodeGenError']:
                    ok, detail = True, 'rejected'
                except Exception as e:      # noqa: BLE001
                    ok, detail = False, f'{type(e).__name__}: {e}'
                n += 1
                chk.expect(ok, 'C13.B3', key, detail + ' - a length outside 0..max must be rejected or stored as the unsigned length '
                           'the reserved storage was sized with', GEN)
        # scalars
        for label, v, want_dir, want_acc, item in (('int', A.IntValue(70000, span), 'WordDirective', 'State', 70000 & M),
                                                   ('negative int', A.IntValue(-5, span), 'WordDirective', 'State', None),
                                                   ('byte', A.ByteValue(9, span), 'ByteDirective', 'StateByte', 9),
                                                   ('bool', A.BoolValue(True, span), 'ByteDirective', 'StateByte', 1),
                                                   ('string', A.StringValue(b'hi', span), 'WordDirective', 'State', None)):
            g = fresh(ws)
            key = f'make_global[{label} scalar, w={ws}]'
            try:
                acc = g.make_global(v, False, 'p')
                imm = fresh(ws).make_global(v, True, 'p')
            except Exception as e:      # noqa: BLE001
                chk.fail('C13.B3', key, f'{type(e).__name__}: {e}', GEN)
                continue
            n += 1
            d = g.state_data.get(getattr(acc, 'immed', None))
            ok = type(acc).__name__ == want_acc and d is not None and type(d).__name__ == want_dir and len(d.items) == 1 and \
                not g.const_data and isinstance(imm, asm.Immediate) and d.items[0] == imm
            if ok and item is not None:
                ok = (getattr(d.items[0], 'data', None) - item) % (M + 1) == 0
            chk.expect(ok, 'C13.B3', key, f'mutable: {type(acc).__name__} over {type(d).__name__ if d is not None else None}'
                       f'{items(d) if d is not None else ""}; constant: {imm!r}', GEN)
    # several constants in one compilation: each reference leads to storage of ITS directive kind and items, whatever
    # else was materialised before (constants of different element width with equal numeric items must not share a label)
    for ws in (2, 3):
        g = fresh(ws)
        seq = [('int', AT(DT.INT, True), (A.IntValue(72, span), A.IntValue(105, span), A.IntValue(33, span)), 'WordDirective'),
               ('byte', AT(DT.BYTE, True), (A.ByteValue(72, span), A.ByteValue(105, span), A.ByteValue(33, span)), 'ByteDirective'),
               ('int again', AT(DT.INT, True), (A.IntValue(72, span), A.IntValue(105, span), A.IntValue(33, span)), 'WordDirective'),
               ('bool', AT(DT.BOOL, True), (A.BoolValue(True, span),), 'ByteDirective'),
               ('byte 1', AT(DT.BYTE, True), (A.ByteValue(1, span),), 'ByteDirective'),
               ('int 1', AT(DT.INT, True), (A.IntValue(1, span),), 'WordDirective')]
        bad = None
        try:
            for label, T, vals, want_dir in seq:
                ref = g.make_global(A.ArrayLiteral(vals, span).coerce(T), True)
                d = g.const_data.get(ref.origin)
                if d is None or type(d).__name__ != want_dir or len(d.items) != (len(vals) if T.el_type != DT.BOOL else 1) or \
                        ref.type.el_type != T.el_type or getattr(ref.length, 'data', None) != len(vals):
                    bad = bad or (f'{label} constant {[getattr(v, "data", None) for v in vals]} after the previous ones: stored as '
                                  f'{type(d).__name__ if d is not None else None}{items(d) if d is not None else ""} under {ref.origin}')
                n += 1
        except Exception as e:      # noqa: BLE001
            bad = bad or f'{type(e).__name__}: {e}'
        chk.expect(bad is None, 'C13.B3', f'make_global: several constants in one compilation, w={ws}', bad or '', GEN)
    chk.floor('make_global evaluations', n, 100)


def run(repo, chk):
    chk.explanation = (
        'Constant bytes reach the assembly through one escaping function and three call sites.  The function is '
        'interpreted from its syntax tree for every byte value 0..255 with each quote character in use (and for '
        'byte pairs whose second byte could be absorbed by a preceding escape), and the result is decoded with a '
        'reference decoder of the assembler\'s escape grammar: it must give back exactly the input byte and never '
        'expose an unescaped quote or a raw control byte.  Length prefixes, directive kinds, bool bit order and '
        'recorded array lengths are checked on the emission paths that build the data section.')
    chk.assumptions = ['escape grammar of the Sphinx assembler: \\\\ \\" \\\' \\n \\r \\t \\0 \\xHH, everything else literal printable ASCII']
    chk.rule('C13.B0', 'escaping: for all 256 bytes x both quotes the emitted text decodes to exactly that byte')
    chk.rule('C13.B1', 'bool packing: static packer, dynamic packer, lookup and assignment agree on bit i%8 of byte i/8, LSB first')
    chk.rule('C13.B2', 'string table: label, word(len(string)), .ascii string; indexing skips exactly one word')
    chk.rule('C13.B3', 'constant arrays: directive kind follows the element class; recorded length is the element count')
    it = Interp(repo)
    if chk.tier == 'thorough':
        it.step_limit = 400_000_000     # all 65 536 byte pairs x 2 quotes
    asm = it.load(ASM)
    esc = asm.get('_escape_bytes')
    if esc is None:
        raise AnalysisError('_escape_bytes not found in asm.py')
    # quotes used at the call sites
    quotes = {}
    for n in ast.walk(repo.module(ASM)):
        if isinstance(n, ast.Call) and src(n.func) == '_escape_bytes' and len(n.args) == 2 and isinstance(n.args[1], ast.Constant):
            quotes[n.args[1].value] = n.lineno
    chk.expect(set(quotes) == {b'"', b"'"}, 'C13.B0', '_escape_bytes call sites', f'quotes in use: {sorted(quotes)}', ASM)
    n_eval = 0
    for q in sorted(quotes):
        bad = []
        for b in range(256):
            try:
                text = esc(bytes([b]), q)
            except Exception as e:   # noqa
                bad.append((b, f'raises {type(e).__name__}'))
                continue
            n_eval += 1
            dec, err = decode_sphinx(text, q[0])
            if err or dec != bytes([b]):
                bad.append((b, f'emitted {text!r} decodes to {dec!r}' + (f' ({err})' if err else '')))
        key = f'_escape_bytes(quote={q.decode()})'
        if bad:
            groups = {}
            for b, msg in bad:
                groups.setdefault(msg if len(bad) < 6 else msg.split(' decodes')[0][:0] + 'x', []).append(b)
            for b, msg in bad[:4]:
                chk.fail('C13.B0', f'{key} byte 0x{b:02x}', msg + f' ({len(bad)} byte values affected with this quote)', ASM, quotes[q])
        else:
            chk.ok('C13.B0', key, '256/256 bytes round-trip')
        # pairs: second byte that a preceding escape could swallow
        second = [ord(c) for c in '0123456789abcdefABCDEFx\\"\'nrt'] + [0, 0x0a, 0x7f, 0xff]
        firsts = range(256) if chk.tier == 'thorough' else list(range(0, 0x30)) + [0x5c, 0x7e, 0x7f, 0x80, 0xff]
        pbad = None
        for a in firsts:
            for c in (range(256) if chk.tier == 'thorough' else second):
                data = bytes([a, c])
                text = esc(data, q)
                n_eval += 1
                dec, err = decode_sphinx(text, q[0])
                if err or dec != data:
                    pbad = (data, text, dec, err)
                    break
            if pbad:
                break
        if pbad and not bad:
            chk.fail('C13.B0', f'{key} pair {pbad[0]!r}', f'emitted {pbad[1]!r} decodes to {pbad[2]!r} {pbad[3] or ""}', ASM, quotes[q])
        elif not bad:
            chk.ok('C13.B0', key + ' pairs', 'byte pairs round-trip')
    chk.count('escape_evaluations', n_eval)
    # char immediates and decimal immediates
    IL = asm['IntLiteral']
    cbad = []
    for v in range(256):
        text = bytes(IL(v, True))
        if not (text[:1] == b"'" and text[-1:] == b"'"):
            cbad.append((v, text))
            continue
        dec, err = decode_sphinx(text[1:-1], ord("'"))
        if err or dec != bytes([v]):
            cbad.append((v, text))
    chk.expect(not cbad, 'C13.B0', 'IntLiteral.__bytes__ (char)', f'char immediates that do not decode to their value: {cbad[:4]}', ASM)
    dbad = [v for v in (-1, -300, 256, 70000, 0, 5) if bytes(IL(v, v in (-1, 256))) != str(v).encode()]
    chk.expect(not dbad, 'C13.B0', 'IntLiteral.__bytes__ (decimal)', f'{dbad}', ASM)
    chk.expect(bytes(IL(65)) == b'65', 'C13.B0', 'IntLiteral.__bytes__ (non-char)', 'plain ints print in decimal', ASM)
    # the directive as it is written out: AsciiDirective(data).lines(), interpreted for every single byte and for mixed
    # strings, must be one line `.ascii "<text>"` whose text decodes (reference decoder above) to exactly the data
    it3 = Interp(repo)
    it3.allow_generators = True
    asm3 = it3.load(ASM)
    abad = []
    samples = [bytes([v]) for v in range(256)] + [b'', b'a"b\\c\'d', bytes(range(0, 256, 7)), b'\n\r\t\x00end', b'\xff\xfe"']
    for data in samples:
        try:
            ls = [bytes(x) for x in asm3['AsciiDirective'](data).lines()]
        except Exception as e:      # noqa: BLE001
            abad.append((data[:8], f'{type(e).__name__}: {e}'))
            continue
        if len(ls) != 1 or not ls[0].startswith(b'.ascii "') or not ls[0].endswith(b'"'):
            abad.append((data[:8], ls))
            continue
        dec, err = decode_sphinx(ls[0][len(b'.ascii "'):-1], ord('"'))
        if err or dec != data:
            abad.append((data[:8], ls[0][:40]))
    chk.expect(not abad, 'C13.B0', 'AsciiDirective.lines', f'must emit .ascii "<escaped data>" decoding to the data: {abad[:4]}', ASM)
    # word / byte directives: items in order, comma separated (more shapes in the shared rendering tabulation below)
    L3, IL3 = asm3['LabelRef'], asm3['IntLiteral']
    for cls, prefix in (('WordDirective', b'.word '), ('ByteDirective', b'.byte ')):
        got = [bytes(x) for x in asm3[cls](IL3(3), L3('lbl'), IL3(-1), IL3(39, True)).lines()]
        chk.expect(got == [prefix + b"3, lbl, -1, '\\''"], 'C13.B3', f'{cls}.lines', f'items rendered in order, comma separated: {got}', ASM)
        chk.expect([bytes(x) for x in asm3[cls](IL3(7)).lines()] == [prefix + b'7'], 'C13.B3', f'{cls}.lines single', '', ASM)
        # long tables: however the items are spread over lines, every item is there once, in order
        bad_n = None
        for n_ in (0, 1, 7, 8, 9, 15, 16, 17, 31, 32, 33, 63, 64, 65, 100, 257):
            try:
                ls_ = [bytes(x) for x in asm3[cls](*[IL3(i_ % 200) for i_ in range(n_)]).lines()]
            except Exception as e_:      # noqa: BLE001
                bad_n = bad_n or f'{n_} items: {type(e_).__name__}: {e_}'
                continue
            flat = []
            for l_ in ls_:
                if not l_.startswith(prefix.rstrip()):
                    bad_n = bad_n or f'{n_} items: line {l_[:30]!r} is not a {prefix.decode().strip()} directive'
                    break
                body_ = l_[len(prefix.rstrip()):].strip()
                flat += [x_.strip() for x_ in body_.split(b',')] if body_ else []
            if flat != [str(i_ % 200).encode() for i_ in range(n_)]:
                bad_n = bad_n or f'a table of {n_} items is rendered with {len(flat)} items' + \
                    (f' (first difference at item {next((k for k, (a_, b_) in enumerate(zip(flat, [str(i_ % 200).encode() for i_ in range(n_)])) if a_ != b_), min(len(flat), n_))})')
        chk.expect(bad_n is None, 'C13.B3', f'{cls}.lines long tables', bad_n or 'every item once, in order, for 0..257 items', ASM)

    # which storage a name denotes: a local (or parameter) wins over a global of that name, whenever the global was materialised
    # (shared with C01.S1, lookup_var interpreted)
    if chk.__class__.__name__ == 'Check':
        from . import c01 as _c01
        _c01.run(repo, Remap(chk, {'C01.S1': lambda c: 'C13.B3' if c.startswith('lookup_var') else None}))
    from .c09 import rendering
    rendering(repo, chk, 'C13.B3')

    # ---------------- B1 ---------------------------------------------------------------
    gen = it.load(GEN)
    CG = gen['CodeGen']
    ok = True
    for n in range(0, 20):
        for pattern in (lambda i: True, lambda i: i % 3 == 0, lambda i: i == n - 1, lambda i: i % 8 == 7):
            bits = [pattern(i) for i in range(n)]
            got = (getattr(CG, 'pack_bools', None) or gen['pack_bools'])(bits)      # a static method, or moved to module level
            want = [0] * ((n + 7) >> 3)
            for i, b in enumerate(bits):
                if b:
                    want[i >> 3] |= 1 << (i & 7)
            if list(got) != want:
                ok = False
                chk.fail('C13.B1', 'pack_bools', f'pack_bools({bits}) = {got}, expected {want} (bit i%8 of byte i//8, LSB first)', GEN)
                break
        if not ok:
            break
    if ok:
        chk.ok('C13.B1', 'pack_bools', 'bit i%8 of byte i//8, LSB first, for lengths 0..19')
    gf = GenFacts(repo)
    dyn_ok = None
    for p, ev in gf.inlined('eval_expr'):
        arm = F.arm_of(ev, len(ev) - 1)
        if not arm.startswith('ArrayLiteral') or p.outcome == 'raise':
            continue
        conds = _efg.Conds(ev)
        if conds.get('el_type == DataType.BOOL') is not True:
            continue
        its = [e for e in ev if e.kind == 'iter']
        inner = [e.text for e in its if 'zip(' in e.text]
        if not inner:
            continue
        good = all(t == 'for (i, el_expr) in zip(range(8), remaining_vals)' for t in inner)
        asl = [e for e in ev if e.kind == 'emit' and e.ctor == 'asm.Asl']
        good = good and all([src(a) for a in e.args] == ['self.r0', 'element', 'asm.IntLiteral(i)'] for e in asl)
        orr = [e for e in ev if e.kind == 'emit' and e.ctor == 'asm.Or']
        good = good and all([src(a) for a in e.args] == ['self.r1', 'prev', 'element'] for e in orr)
        # every run-time element is merged into what the byte already holds (the pre-packed constant bits and the earlier
        # run-time bits): one Or per evaluated element, and nothing else writes the accumulator register
        evals = [e for e in ev if e.kind == 'sub' and e.func == 'self.get_expr_value' and len(e.args) > 1 and src(e.args[1]) == 'el_expr']
        other_writes = [e for e in ev if e.kind == 'emit' and e.ctor in ('asm.Mov', 'asm.Add', 'asm.Xor', 'asm.And') and e.args
                        and src(e.args[0]) == 'self.r1']
        good = good and len(orr) == len(evals) and not other_writes
        st = [e for e in ev if e.kind == 'emit' and e.ctor == 'asm.Sbso']
        good = good and all([src(a) for a in e.args] == ['asm.State(self.ap)', 'asm.IntLiteral(offset)', 'prev'] for e in st)
        fnd = [src(e.value).replace('self.pack_bools(', 'pack_bools(') for e in ev if e.kind == 'assign' and e.target == 'foundation']
        good = good and fnd == ['pack_bools([isinstance(el_expr, ast.BoolValue) and el_expr.data for el_expr in expr.values])']
        dyn_ok = good if dyn_ok is None else (dyn_ok and good)
    chk.expect(dyn_ok is True, 'C13.B1', 'eval_expr[ArrayLiteral/bool] dynamic packer',
               'non-constant element i of a byte must be shifted left by i (zip(range(8), ...)) and OR-ed into the byte that '
               'pack_bools pre-filled with the constant elements', GEN)
    from . import c04
    c04._scale(repo, Remap(chk, {'C04.A4': 'C13.B1'}), gf)

    # ---------------- B2 ----------------------------------------------------------------
    lay0 = gf.layout()
    i = lay0.index(b'str_0:') if b'str_0:' in lay0 else -1
    want = [b'str_0:', b'.word 2', b'.ascii "zz"', b'str_1:', b'.word 1', b'.ascii "a"']
    sec = [k for k, l in enumerate(lay0[:max(i, 0)]) if l.startswith(b'%section')]
    ok = i >= 0 and lay0[i:i + 6] == want and sec and lay0[sec[-1]] == b'%section const'
    chk.expect(ok, 'C13.B2', 'gen_lines::string table', 'each string must be emitted in the const section as label, word(len(string)), '
               f'.ascii string: {lay0[max(i, 0):max(i, 0) + 6]}', GEN)
    lfs = gf.methods['label_for_string']
    t = src(lfs)
    chk.expect('self.string_labels[data]' in t and "self.add_label('string')" in t and 'self.string_labels[data] = label' in t,
               'C13.B2', 'label_for_string', 'strings are interned by their exact bytes', GEN)
    for p, ev in gf.inlined('eval_expr'):
        arm = F.arm_of(ev, len(ev) - 1)
        if arm.startswith('StringToByteArray') and p.outcome != 'raise':
            em = [e.short() for e in ev if e.kind in ('emit', 'sub') and (e.kind == 'emit' and e.ctor != 'asm.Metadata' or e.kind == 'sub')]
            want = ['string = sub:self.get_expr_value(self.r1, expr.expr)', 'asm.Lwc(self.r0, string)',
                    'sub:bubble.value.length.set(asm.State(self.r0))',
                    'asm.Add(self.r1, string, asm.IntLiteral(self.word_size))',
                    'sub:bubble.value.origin.set(asm.State(self.r1))']
            chk.expect(em == want, 'C13.B2', 'eval_expr[StringToByteArray]',
                       f'length = word at the string, origin = string + one word: {em}', GEN)
            break
        if arm.startswith('StringValue'):
            pass
    for p, ev in gf.inlined('eval_expr'):
        arm = F.arm_of(ev, len(ev) - 1)
        if arm.startswith('LengthLookup') and p.outcome != 'raise' and any(
                e.kind == 'cond' and 'DataType.STRING' in e.text and e.truth for e in ev):
            em = [e.short() for e in ev if e.kind == 'emit' and e.ctor != 'asm.Metadata']
            chk.expect(em[:1] == ['asm.Lwc(r_out, source)'], 'C13.B2', 'eval_expr[LengthLookup/string]', f'{em}', GEN)
            break

    # ---------------- B3 ------------------------------------------------------------------
    _make_global(repo, chk, gf)
    # add_global_array, interpreted for both constness values and every element type at two word sizes: the directive is
    # stored under the returned label in the section matching constness, the reference is (label, IntLiteral(length))
    symns = it.load('hidc/codegen/symbols.py')
    DTs = symns['DataType']
    bad = None
    n_ok = 0
    for ws in (2, 4):
        for const in (True, False):
            for dt in (DTs.INT, DTs.BYTE, DTs.BOOL):
                g = new_codegen(CG)
                g.word_size = ws
                pass        # book-keeping tables come from the dataclass field factories (new_codegen)
                directive = object()
                try:
                    ref = g.add_global_array(const, dt, 'arr', 5, directive, None)
                except Exception as e:      # noqa: BLE001
                    bad = f'add_global_array(const={const}, {dt}, length 5) raised {type(e).__name__}: {e}'
                    break
                here, other = (g.const_data, g.state_data) if const else (g.state_data, g.const_data)
                label = next(iter(here), None)
                want_mode = symns['AccessMode'].RC if const else symns['AccessMode'].RW
                if other or len(here) != 1 or here[label] is not directive:
                    bad = f'const={const}: const_data={list(g.const_data)} state_data={list(g.state_data)}'
                elif ref.origin != label or getattr(ref.length, 'data', None) != 5 or type(ref.length).__name__ != 'IntLiteral':
                    bad = f'reference origin={ref.origin} length={ref.length}, stored label {label}'
                elif ref.type.el_type != dt or ref.type.access != want_mode:
                    bad = f'reference type {ref.type} for const={const}, {dt}'
                else:
                    n_ok += 1
            if bad:
                break
        if bad:
            break
    chk.expect(bad is None and n_ok == 12, 'C13.B3', 'add_global_array', bad or 'directive stored under its label in the section '
               'matching constness; reference = (label, IntLiteral(length)), access RC / RW', GEN)
    # literal arm: const + all primitive -> global
    lit = [(p, ev) for p, ev in gf.inlined('eval_expr') if F.arm_of(ev, len(ev) - 1).startswith('ArrayLiteral')]
    g = [ev for p, ev in lit if any(e.kind == 'call' and e.func == 'self.make_global' for e in ev)]
    ok = bool(g) and all(any(e.kind == 'cond' and e.text == 'expr.type.const' and e.truth for e in ev) for ev in g)
    chk.expect(ok, 'C13.B3', 'eval_expr[ArrayLiteral]::const route', 'only const literals of primitive values become shared data', GEN)
    # data emission loops in gen_lines keep insertion order
    lay = gf.layout()
    for dname, want, section in (('self.state_data.items()', [b's_b:', b'.byte 5', b's_a:', b'.word 9, 8'], b'%section state'),
                                 ('self.const_data.items()', [b'c_z:', b'.word 3', b'c_a:', b'.zero 4'], b'%section const')):
        i = lay.index(want[0]) if want[0] in lay else -1
        sec = [k for k, l in enumerate(lay[:max(i, 0)]) if l.startswith(b'%section')]
        ok = i >= 0 and lay[i:i + 4] == want and sec and lay[sec[-1]] == section
        chk.expect(ok, 'C13.B3', f'gen_lines::{dname}', f'each item is emitted as its label followed by its directive, in insertion '
                   f'order, inside {section.decode()}: {lay[max(i, 0):max(i, 0) + 4]}', GEN)
    # ---------------- B4 the bytes a literal denotes (lexer side, shared with C12) ------------------------
    if chk.__class__.__name__ == 'Check':
        chk.rule('C13.B5', 'writing a constant prints exactly its bytes: the library writers skip exactly the empty constant and '
                           'their loops emit bytes 0..len-1 (shared with C17.D5)')
        from . import c17
        c17.run(repo, Remap(chk, {'C17.D5': 'C13.B5'}))
        chk.rule('C13.B4', 'the lexer decodes escapes to the bytes they denote (escape table, \\xHH and \\u{...} readers) - shared with C12.R1/R2')
        from . import c12
        from ..report import Remap as _Remap
        # ... and the source file is split into lines on \\n only, so that every other byte of a literal (form feed, U+2028,
        # ...) stays inside it (shared with C12.R6)
        c12.run(repo, _Remap(chk, {'C12.R2': 'C13.B4', 'C12.R6': lambda c: 'C13.B4' if c.startswith('SourceCode') else None}))
    chk.not_decided = ['that the Sphinx assembler implements its own escape grammar as documented']
