"""C18 - reproducible builds; options do not change meaning."""
from __future__ import annotations

import ast
import re

from ..pyfacts import AnalysisError, src, parent
from ..genfacts import new_codegen, GenFacts, GEN, STDLIB
from ..asmtext import AsmText, parse_offset
from ..report import Remap
from ..consteval import Interp

MAIN = 'hidc/__main__.py'
BLOCKS = 'hidc/ast/blocks.py'

NONDET_NAMES = {'hash', 'id', 'random', 'time', 'uuid', 'datetime', 'environ', 'getpid', 'urandom', 'secrets', 'getenv'}

# set-typed iterations that are provably order-insensitive (one reason each)
SET_ITERATION_OK = {
    ('hidc/codegen/stdlib.py', 'abstract_funcs'): 'iterates a dict (insertion ordered) and fills sets used only for membership',
}


def fn_of(node):
    p = node
    while p is not None and not isinstance(p, (ast.FunctionDef, ast.AsyncFunctionDef)):
        p = parent(p)
    return p.name if p is not None else '<module>'


def _only_raises(if_stmt, body):
    """The statements guarded by an option test can do nothing but raise: each is a raise, a nested `if` of the same kind, or
    the binding of a local / a call of next() on an iterator - where no name bound or advanced there is read once the guarded
    region is left (liveness walk), so falling out of the region leaves no trace."""
    from ..normalise import _live_after, is_pure
    touched = set()

    def ok(stmts):
        for st in stmts:
            if isinstance(st, ast.Raise):
                continue
            if isinstance(st, ast.If):
                if not is_pure(st.test) or not ok(st.body) or not ok(st.orelse):
                    return False
                continue
            if isinstance(st, ast.Assign) and all(isinstance(t, ast.Name) for t in st.targets):
                v = st.value
                if isinstance(v, ast.Call) and isinstance(v.func, ast.Name) and v.func.id == 'next' and v.args and \
                        isinstance(v.args[0], ast.Name) and all(is_pure(a) for a in v.args[1:]):
                    touched.add(v.args[0].id)
                elif not is_pure(v):
                    return False
                touched.update(t.id for t in st.targets)
                continue
            return False
        return True
    if not ok(body):
        return False
    fn = if_stmt
    while fn is not None and not isinstance(fn, (ast.FunctionDef, ast.AsyncFunctionDef)):
        fn = parent(fn)
    if fn is None:
        return False
    return not (touched & _live_after(if_stmt, fn))


def run(repo, chk):
    chk.explanation = (
        'Decided by census and information flow over the source: (1) nothing on the path from source text to emitted '
        'lines depends on hash order, object identity, time, randomness or the environment - every collection that is '
        'iterated or popped while generating code is insertion ordered (dict / list / deque), and the few set '
        'iterations in the lexer are order-insensitive for a stated reason; (2) stack_size flows only into its '
        'validation and the one `.zero` directive; (3) the lint option is read only in a condition whose body is a '
        'raise; (4) word sizes enter generated code only through the word_size parameter (frame growth, size '
        'functions, index scaling) and the library text expresses every frame offset as k*w or k*w-1.  Behaviour under '
        'word widening for a particular run is not decided.')
    chk.assumptions = ['dict, list and deque iterate in insertion order (Python >= 3.7)']
    chk.rule('C18.D1', 'no nondeterminism source and no order-sensitive set iteration on the output path')
    chk.rule('C18.D2', 'stack_size flows only to its validation and to the `.zero` directive')
    chk.rule('C18.D3', 'the lint option is read only in a condition whose whole body is a raise')
    chk.rule('C18.D4', 'word-size parametricity: sizes/offsets/scales come from word_size; library offsets are k*w or k*w-1')
    gf = GenFacts(repo)

    # ---------------- D1 -------------------------------------------------------------
    n_files = 0
    for rel, tree in repo.files.items():
        n_files += 1
        for n in ast.walk(tree):
            if isinstance(n, ast.Call):
                f = n.func
                nm = f.id if isinstance(f, ast.Name) else (f.attr if isinstance(f, ast.Attribute) else '')
                if nm in ('hash', 'id', 'getpid', 'urandom', 'getenv') or (isinstance(f, ast.Attribute) and src(f.value) in
                                                                          ('random', 'time', 'uuid', 'datetime', 'secrets')):
                    chk.fail('C18.D1', f'{rel}::{fn_of(n)}::{src(n)[:40]}', 'nondeterminism source (hash/id/time/random/environment)', rel, n.lineno)
            if isinstance(n, (ast.Import, ast.ImportFrom)):
                mods = [a.name for a in n.names] if isinstance(n, ast.Import) else [n.module or '']
                for m in mods:
                    if m.split('.')[0] in ('random', 'time', 'uuid', 'datetime', 'secrets'):
                        chk.fail('C18.D1', f'{rel}::import {m}', 'nondeterminism source imported', rel, n.lineno)
            if isinstance(n, ast.Attribute) and n.attr == 'environ':
                chk.fail('C18.D1', f'{rel}::{fn_of(n)}::os.environ', 'environment read', rel, n.lineno)
    chk.count('files_scanned', n_files)
    # set-typed names
    set_names = {}   # (rel, name) -> line
    for rel, tree in repo.files.items():
        for n in ast.walk(tree):
            tgt = val = anno = None
            if isinstance(n, ast.Assign) and len(n.targets) == 1:
                tgt, val = n.targets[0], n.value
            elif isinstance(n, ast.AnnAssign):
                tgt, val, anno = n.target, n.value, n.annotation
            if tgt is None:
                continue
            is_set = False
            if val is not None:
                if isinstance(val, (ast.Set, ast.SetComp)):
                    is_set = True
                elif isinstance(val, ast.Call) and src(val.func) in ('set', 'frozenset'):
                    is_set = True
                elif isinstance(val, ast.Call) and src(val.func) in ('dc.field', 'dataclasses.field', 'field'):
                    for k in val.keywords:
                        if k.arg == 'default_factory' and src(k.value) in ('set', 'frozenset'):
                            is_set = True
            if anno is not None and re.match(r'(set|frozenset|ty\.Set|Set|ty\.FrozenSet)\b', src(anno)):
                is_set = True
            if is_set:
                set_names[(rel, src(tgt).replace('self.', ''))] = n.lineno
    chk.count('set_typed_names', len(set_names))
    names_only = {name for (_, name) in set_names}

    def is_set_expr(e):
        if isinstance(e, (ast.Set, ast.SetComp)):
            return True
        if isinstance(e, ast.Call) and src(e.func) in ('set', 'frozenset'):
            return True
        t = src(e).replace('self.', '').replace('tokens.', '').replace('stdlib.', '')
        return t in names_only
    n_iter = 0
    lexer_sites = []
    for rel, tree in repo.files.items():
        for n in ast.walk(tree):
            iters = []
            if isinstance(n, (ast.For, ast.AsyncFor)):
                iters.append(n.iter)
            elif isinstance(n, (ast.ListComp, ast.SetComp, ast.DictComp, ast.GeneratorExp)):
                iters += [g.iter for g in n.generators]
            elif isinstance(n, ast.Call) and isinstance(n.func, ast.Attribute) and n.func.attr == 'pop' and not n.args \
                    and is_set_expr(n.func.value):
                iters.append(n.func.value)
            elif isinstance(n, ast.Call) and src(n.func) in ('list', 'tuple', 'sorted', 'next', 'iter', 'enumerate', 'zip', 'map') \
                    and n.args and is_set_expr(n.args[0]):
                iters.append(n.args[0])
            for itx in iters:
                if not is_set_expr(itx):
                    continue
                n_iter += 1
                # which module-level name is being defined here (for the allow table)
                p = n
                owner = None
                while p is not None:
                    if isinstance(p, ast.Assign) and len(p.targets) == 1 and isinstance(p.targets[0], ast.Name) and isinstance(parent(p), ast.Module):
                        owner = p.targets[0].id
                    if isinstance(p, (ast.For,)) and isinstance(parent(p), ast.Module):
                        # module-level loop: owner is the name being filled
                        for s in ast.walk(p):
                            if isinstance(s, ast.Call) and isinstance(s.func, ast.Attribute) and s.func.attr in ('setdefault',):
                                owner = src(s.func.value)
                    p = parent(p)
                reason = SET_ITERATION_OK.get((rel, owner))
                key = f'{rel}::{owner or fn_of(n)}::iterates {src(itx)[:40]}'
                par = parent(itx)
                if isinstance(par, ast.Call) and src(par.func) == 'sorted' and not par.keywords and par.args[0] is itx:
                    reason = 'sorted() without a key: the result does not depend on the iteration order'
                elif isinstance(n, ast.SetComp) and len(n.generators) == 1:
                    reason = 'builds another set: no order is introduced here'
                elif rel.startswith('hidc/lexer/'):
                    lexer_sites.append(key)
                    continue
                if rel.startswith('hidc/codegen/') and rel != 'hidc/codegen/stdlib.py':
                    reason = None
                chk.expect(reason is not None, 'C18.D1', key, reason or
                           'iteration / pop over a set: the order depends on the per-process hash seed, so labels, function order '
                           'or emitted text can differ between runs', rel, getattr(n, 'lineno', 0))
    chk.count('set_iterations', n_iter)
    if lexer_sites:
        # the lexer package iterates sets (the fixed tokens are collected in one): whether the order can reach the token
        # stream is decided by interpreting the readers and lex() under both iteration orders of every set (each pair of
        # elements is met in both relative orders) against the reference tokenisation
        from . import c12
        it0 = Interp(repo)
        spellings = [str(t_) for t_ in it0.load('hidc/lexer/tokens.py')['enum_tokens']]
        c12.fixed_token_readers(repo, chk, rule='C18.D1')
        for order in ('fwd', 'rev'):
            c12.lexer_tabulation(repo, chk, spellings, order=order, small=True, rule='C18.D1')
        for key in lexer_sites:
            chk.ok('C18.D1', key, 'the token stream is the same under both iteration orders of the sets of the lexer package '
                   '(fixed-token readers and lex() interpreted under each)')
    # the collections the generator iterates / pops are ordered
    cg = repo.find_class(GEN, 'CodeGen')
    ordered = {'numbered_labels': 'dict', 'string_labels': 'dict', 'const_data': 'dict', 'state_data': 'dict', 'func_queue': 'deque',
               'func_labels': 'dict', 'func_table': 'dict', 'loop_info': 'deque', 'allocated_arrays': 'list', 'global_vars': 'dict',
               'argv_specs': 'list', 'entry_args': 'list'}
    for n in cg.body:
        if isinstance(n, ast.AnnAssign) and isinstance(n.target, ast.Name) and n.target.id in ordered:
            anno = src(n.annotation)
            fac = ''
            if isinstance(n.value, ast.Call):
                for k in n.value.keywords:
                    if k.arg == 'default_factory':
                        fac = src(k.value)
            # any insertion-ordered container will do (dict / defaultdict / OrderedDict / ChainMap, list, deque, tuple); what
            # must not appear is a set, whose iteration order depends on the per-process hash seed
            ORDERED = ('dict', 'defaultdict', 'collections.defaultdict', 'OrderedDict', 'collections.OrderedDict', 'ChainMap',
                       'collections.ChainMap', 'list', 'deque', 'collections.deque', 'tuple')
            head = anno.split('[')[0].strip()
            fac_ok = fac == '' or fac.split('(')[0].strip() in ORDERED or (fac.startswith('lambda') and 'set' not in fac)
            chk.expect(head in ORDERED and fac_ok and 'set' not in head.lower(), 'C18.D1', f'CodeGen.{n.target.id}',
                       f'declared {anno} with factory {fac}; must be an insertion-ordered container (it is iterated or popped while '
                       'emitting)', GEN, n.lineno)
    from . import c01 as _c01
    _c01.function_queue(repo, chk, gf, rule='C18.D1')
    # add_label, interpreted: names depend only on the sequence of requests (a per-prefix counter), never on hashes / ids
    try:
        CGi = gf.module_ns()['CodeGen']
        runs = []
        for _ in range(2):
            g = new_codegen(CGi)
            pass        # book-keeping tables come from the dataclass field factories (new_codegen)
            runs.append([g.add_label(p).label_name for p in ('x', 'loop', 'x', 'x', 'loop', 'y')])
        ok = runs[0] == runs[1] == ['x_0', 'loop_0', 'x_1', 'x_2', 'loop_1', 'y_0']
        detail = f'{runs[0]}'
    except Exception as e:      # noqa: BLE001
        ok, detail = False, f'{type(e).__name__}: {e}'
    chk.expect(ok, 'C18.D1', 'add_label', f'labels numbered per prefix by a counter: {detail}', GEN)
    chk.floor('files scanned', n_files, 20)

    # ---------------- D2 ------------------------------------------------------------------
    reads = []
    for fname, fn in gf.methods.items():
        for n in ast.walk(fn):
            if isinstance(n, ast.Attribute) and src(n) == 'self.stack_size' and isinstance(n.ctx, ast.Load):
                reads.append((fname, n))
    # gen_lines and helpers split off from it (new functions called only from it): interpreted with two stack sizes, the
    # outputs must differ in exactly one line - the size of the zero-filled stack region
    from ..canon import roles as _roles
    writers_of_output = {'gen_lines'}
    grew = True
    while grew:
        grew = False
        for cand in gf.methods:
            if cand in writers_of_output or f'{GEN}::CodeGen.{cand}' in _roles():
                continue
            callers = {fn_ for fn_, f_ in gf.methods.items() for x in ast.walk(f_)
                       if isinstance(x, ast.Attribute) and x.attr == cand and src(x.value) == 'self' and fn_ != cand}
            if callers and callers <= writers_of_output:
                writers_of_output.add(cand)
                grew = True
    la, lb = gf.layout(stack_size=7), gf.layout(stack_size=9)
    diff = [(x, y) for x, y in zip(la, lb) if x != y]
    layout_ok = len(la) == len(lb) and diff == [(b'.zero 7w', b'.zero 9w')]
    chk.expect(layout_ok, 'C18.D2', 'gen_lines::stack_size reaches only the size of the stack region',
               f'outputs for stack sizes 7 and 9 differ in {diff[:3]}', GEN)
    ok_sites = 0
    for fname, n in reads:
        p = parent(n)
        stmt = n
        while not isinstance(stmt, ast.stmt):
            stmt = parent(stmt)
        if fname == '__post_init__':
            ok = isinstance(stmt, ast.If) and all(isinstance(s, ast.Raise) for s in stmt.body) and not stmt.orelse
        elif fname in writers_of_output:
            ok = layout_ok          # what the output does with it is decided by interpreting gen_lines (below)
        else:
            ok = False
        ok_sites += ok
        chk.expect(ok, 'C18.D2', f'{fname}::{src(stmt)[:60]}', 'stack_size may only be validated (if ...: raise) and emitted as the size '
                   'of the zero-filled stack region; anything else could make generated code depend on it', GEN, n.lineno)
    chk.floor('reads of stack_size', len(reads), 2)
    # stack-relative symbols in generated code are stack_start / stack_end only in the prologue
    gl = gf.methods['gen_lines']
    ys = gf.layout()
    chk.expect(b'ap: .word stack_start' in ys and b'fp: .word stack_end' in ys, 'C18.D2', 'gen_lines::ap/fp initial values',
               'ap starts at the bottom and fp at the top of the stack region', GEN)

    # the stack guards compare unsigned quantities with the unsigned mnemonics (a signed compare flips at fp-ap >= 2^(8w-1))
    from . import c05
    c05.run(repo, Remap(chk, {'C05.G1': 'C18.D2', 'C05.G2': 'C18.D2'}))
    # "identical at every larger stack size" presupposes that a run which passes its stack checks never overlaps
    # storage: the checkpoint tracker must report the true maximum of every open level (tabulated in C04.A1)
    chk.rule('C18.D5', 'stack-size monotonicity rests on exact checkpoints: Tracker add/update/pop_level keep every open level at '
                       'its true maximum (shared with C04.A1)')
    from . import c04

    def tracker_only(construct):
        return 'C18.D5' if construct.startswith('Tracker') else None
    c04._tracker(repo, Remap(chk, {'C04.A1': tracker_only}))
    # ... and every slot reservation reports the frame size it has just reached (not the one before it)
    c04._reserve_slots(repo, Remap(chk, {'C04.A1': 'C18.D5'}), gf)
    # ... and the guard of a run-time sized array keeps free exactly what the frame still needs, so that a run which fits keeps
    # fitting (and computing the same) at every larger stack size (shared with C04.A14)
    c04.initialiser_reserve(repo, chk, 'C18.D5')
    c04._deferred(repo, Remap(chk, {'C04.A13': 'C18.D5'}))
    if chk.__class__.__name__ == 'Check':
        # ... and a stack array is counted in the frame model while its elements are evaluated (shared with C04.A2): otherwise
        # the temporaries of an element overwrite stored elements at the smallest stack that passes the entry check - and only there
        c04.run(repo, Remap(chk, {'C04.A2': 'C18.D5'}))
        # one compilation leaves no trace for the next one in the same process: the same program typechecks the same way twice,
        # and a program that overloads a builtin name does not change how a later program's calls are bound (interpreted)
        from ..frontend import Frontend, typecheck, shape
        fe = Frontend(repo)
        a_src = 'empty write(const int[] xs) { write(xs.length); }\nempty @is_you() { write([7, 8]); }'
        b_src = 'empty @is_you() { write([72, 105, 33]); }'
        first = typecheck(fe, a_src)
        second = typecheck(fe, a_src)
        later = typecheck(fe, b_src)
        fresh = typecheck(Frontend(repo), b_src)
        ok = not isinstance(first, tuple) and not isinstance(later, tuple) and not isinstance(fresh, tuple) and \
            shape(first) == shape(second) and shape(later) == shape(fresh)
        chk.expect(ok, 'C18.D1', 'typechecking twice in one process', 'the second compilation of a program that overloads a builtin name, '
                   f'or a later program, is treated differently: second={shape(second)[:2] if isinstance(second, tuple) else "ok"}, '
                   f'later program {"differs from a fresh process" if not isinstance(later, tuple) else later[:3]}' if not ok else
                   'same typed trees', 'hidc/ast/program.py')
    for cls, mnem in (('Hgeu', 'hgeu'), ('Hleu', 'hleu'), ('Hltu', 'hltu'), ('Hgtu', 'hgtu')):
        chk.expect(gf.asm_code.get(cls) == mnem, 'C18.D2', f'asm.{cls}.code', f'{gf.asm_code.get(cls)!r}: stack guards must be emitted as '
                   'unsigned comparisons, otherwise a run that fits a stack of S words fails at a larger S', 'hidc/codegen/asm.py')

    # ---------------- D3 --------------------------------------------------------------------
    n_opt = 0
    for rel, tree in repo.files.items():
        for n in ast.walk(tree):
            if isinstance(n, ast.Attribute) and n.attr == 'options' and isinstance(n.ctx, ast.Load):
                # constructor plumbing is fine: Environment(..., self.options, ...) / cls(VarTable(), {}, options)
                stmt = n
                while not isinstance(stmt, ast.stmt):
                    stmt = parent(stmt)
                if rel == 'hidc/ast/symbols.py' and isinstance(stmt, ast.Return):
                    continue
                n_opt += 1
                ok = isinstance(stmt, ast.If) and any(x is n for x in ast.walk(stmt.test)) and not stmt.orelse and \
                    _only_raises(stmt, stmt.body)
                chk.expect(ok, 'C18.D3', f'{rel}::{fn_of(n)}::{src(stmt)[:50]}',
                           'an option may only decide whether an error is raised; here it can influence the typechecked tree', rel, n.lineno)
    chk.floor('reads of env.options', n_opt, 1)
    main = repo.find_func(MAIN, 'main')
    t = src(main)
    chk.expect('Environment.empty(unreachable_error=args.lint)' in t, 'C18.D3', 'main::lint plumbing', '--lint maps to unreachable_error', MAIN)
    uses = [n for n in ast.walk(main) if isinstance(n, ast.Attribute) and src(n) == 'args.lint']
    chk.expect(len(uses) == 1, 'C18.D3', 'main::args.lint uses', f'{len(uses)} uses', MAIN)

    # ---------------- D4 ----------------------------------------------------------------------
    from . import c04
    c04._scale(repo, Remap(chk, {'C04.A4': 'C18.D4'}), gf)
    # reserve functions
    c04._reserve_slots(repo, Remap(chk, {'C04.A1': 'C18.D4'}), gf)      # slot sizes come from word_size (interpreted at 4 word sizes)
    chk.expect(b'%format word 2' in gf.layout(), 'C18.D4', 'gen_lines::%format word', 'the word size is declared from the parameter '
               '(interpreted with word_size = 2)', GEN)
    # integer constants equal to a possible word size must not be used as sizes in the generator: look at emitted IntLiteral args
    suspicious = []
    for fname, fn in gf.methods.items():
        for n in ast.walk(fn):
            if isinstance(n, ast.Call) and src(n.func) == 'asm.IntLiteral' and n.args:
                for c in ast.walk(n.args[0]):
                    if isinstance(c, ast.Constant) and isinstance(c.value, int) and not isinstance(c.value, bool) and c.value in (2, 4, 6, 16):
                        suspicious.append((fname, src(n), n.lineno))
    for fname, t, line in suspicious:
        chk.fail('C18.D4', f'{fname}::{t[:50]}', 'a literal 2/4/6/16 is emitted as an immediate: offsets and scales must be written with '
                 'self.word_size, otherwise the code is only right at one word size', GEN, line)
    if not suspicious:
        chk.ok('C18.D4', 'generator immediates', 'no hard-coded word-size-like constants (bit-packing constants 1,3,7,8 are not sizes)')
    chk.expect("asm.ArrayType" not in src(gf.methods['frame_size']) and '2 * self.word_size' in src(gf.methods['frame_size']), 'C18.D4',
               'frame_size(array)', 'an array reference is two words', GEN)
    ml = src(gf.methods['max_length'])
    chk.expect('self.max_signed // self.word_size' in ml and 'return self.max_signed' in ml, 'C18.D4', 'max_length', '', GEN)
    for prop, want in (('max_signed', '(1 << 8 * self.word_size - 1) - 1'), ('max_unsigned', '(1 << 8 * self.word_size) - 1')):
        rets = [src(n.value) for n in ast.walk(gf.methods[prop]) if isinstance(n, ast.Return)]
        chk.expect(rets == [want], 'C18.D4', prop, f'{rets}', GEN)
    # library text offsets
    at = AsmText(repo)
    n_off = 0
    for x in at.ins:
        for k, a in enumerate(x.args):
            if 'w' in a and re.search(r'\dw', a):
                n_off += 1
                po = parse_offset(a)
                ok = po is not None and po[1] in (0, -1)
                if x.op in ('lwso', 'lbso') and x.args[1] == '[fp]':
                    ok = ok and po[0] < 0
                chk.expect(ok, 'C18.D4', f'stdlib:{at.routine_of(x.idx)}::{x}', f'offset `{a}` must be k*w or k*w-1', STDLIB)
        if x.op in ('lwso', 'lbso', 'lwco', 'lbco') and x.args[1] == '[fp]':
            po = parse_offset(x.args[2])
            chk.expect(po is not None and po[0] != 0, 'C18.D4', f'stdlib:{at.routine_of(x.idx)}::{x}#frame',
                       'frame slots must be addressed in words (k*w), never by a byte count that is only right at one word size', STDLIB)
    chk.floor('word-scaled offsets in the library', n_off, 10)
    chk.not_decided = ['"a run whose values fit the narrower word behaves identically at wider word sizes" (needs VM arithmetic)']
