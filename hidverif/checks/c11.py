"""C11 - precedence ladder and associativity (LADDER: structure of ps_expr .. ps_expr0)."""
from __future__ import annotations

import ast
import os
import re

from ..pyfacts import AnalysisError, src
from .. import efg

GRAMMAR = 'hidc/parser/grammar.py'
TOKENS = 'hidc/lexer/tokens.py'
OPERATORS = 'hidc/ast/operators.py'

# transcribed from README "Operators" (tightest first); token spelling -> (OpToken member, AST class)
SPEC = [
    ('unary', {'+': ('ADD', 'Pos'), '-': ('SUB', 'Neg'), 'not': ('NOT', 'Not')}),
    ('is', {'is': ('IS', 'Is')}),
    ('binary', {'*': ('MUL', 'Mul'), '/': ('DIV', 'Div'), '%': ('MOD', 'Mod')}),
    ('binary', {'+': ('ADD', 'Add'), '-': ('SUB', 'Sub')}),
    ('binary', {'==': ('EQ', 'Eq'), '!=': ('NE', 'Ne'), '<': ('LT', 'Lt'), '<=': ('LE', 'Le'),
                '>': ('GT', 'Gt'), '>=': ('GE', 'Ge')}),
    ('binary', {'and': ('AND', 'And')}),
    ('binary', {'or': ('OR', 'Or')}),
    ('spec', {'??': ('SPECULATION', 'Speculation')}),
]


def calls_in(node, name=None):
    out = []
    for n in ast.walk(node):
        if isinstance(n, ast.Call) and isinstance(n.func, ast.Name) and (name is None or n.func.id == name):
            out.append(n)
    return out


def describe(fn):
    """Level descriptor of one ps_expr* coroutine."""
    body_calls = [c for c in calls_in(fn) if c.func.id.startswith('ps_expr') or c.func.id == 'bin_op']
    binops = calls_in(fn, 'bin_op')
    if binops:
        if len(binops) != 1:
            return {'kind': 'unknown', 'why': 'several bin_op calls'}
        c = binops[0]
        if len(c.args) != 2 or not isinstance(c.args[0], ast.Call) or not isinstance(c.args[1], ast.Dict):
            return {'kind': 'unknown', 'why': 'bin_op arguments not (rule(ctx), {token: class})'}
        ops = {}
        for k, v in zip(c.args[1].keys, c.args[1].values):
            ops[src(k)] = src(v)
        # the function must do nothing else than return the bin_op result
        rets = [n for n in ast.walk(fn) if isinstance(n, ast.Return)]
        simple = len(fn.body) == 1 and isinstance(fn.body[0], ast.Return) and isinstance(fn.body[0].value, ast.Await) \
            and fn.body[0].value.value is c
        return {'kind': 'binary', 'operand': src(c.args[0].func), 'operand_args': [src(a) for a in c.args[0].args],
                'ops': ops, 'simple': simple, 'line': c.lineno}
    return None


def _tail(repo, chk):
    # ---- README cross-check -------------------------------------------------------------------------
    readme = os.path.join(repo.root, 'README.rst')
    if os.path.exists(readme):
        text = open(readme, encoding='utf-8').read()
        m = re.search(r'In order of precedence:\n((?: \*.*\n)+)', text)
        if m:
            rows = [re.findall(r'``([^`]+)``', ln) for ln in m.group(1).strip('\n').split('\n')]
            want_rows = [sorted(t.keys()) for _, t in SPEC]
            chk.expect([sorted(r) for r in rows] == want_rows, 'C11.L1', 'README operator table',
                       f'README lists {rows}; checker spec {want_rows}', 'README.rst')
        else:
            chk.ok('C11.L1', 'README operator table', 'section not found; transcribed spec used alone')
    # operators reach the parser as the tokens the ladder expects (longest match, `!=` before the `!` sigil)
    from . import c12
    from ..report import Remap
    c12.run(repo, Remap(chk, {'C12.R3': 'C11.L5', 'C12.R4': 'C11.L5'}))
    # the routines of the ladder are run by the driver loop of rules.py (Parser.process, Teleport): it feeds each awaited rule
    # the current position, advances, and gives the position back when a routine returns nothing - and does nothing else
    # (e.g. no limit on the nesting of routines: parentheses override precedence at any depth).  Shared with C06.P1; the
    # grouping table runs on a native stand-in for exactly this loop (hidverif/frontend.py)
    chk.rule('C11.L7', 'the driver loop of rules.py does what the grouping table assumes of it (shared with C06.P1)')
    if chk.__class__.__name__ == 'Check':
        from . import c06
        c06.run(repo, Remap(chk, {'C06.P1': 'C11.L7'}))


def run(repo, chk):
    chk.explanation = (
        'The expression grammar is a ladder of coroutines ps_expr -> ps_expr8 -> ... -> ps_expr0.  The checker '
        'extracts each level (its operator table, its operand rule, how the result is folded) from the syntax '
        'tree and compares the ladder with the documented precedence table (transcribed in the checker and '
        'cross-checked against README.rst).  Left associativity is decided from the shape of bin_op: the '
        'accumulator is the left argument of each new node and the right operand is parsed by the next-tighter '
        'rule.  This is complete for the grammar as written: any program\'s expression tree is determined by it.')
    chk.assumptions = ['the documented table is README "Operators"; the coroutine driver (rules.Parser) feeds tokens in order']
    chk.rule('C11.L1', 'levels, their operator sets and constructor classes equal the documented table')
    chk.rule('C11.L2', 'each binary level parses both operands with the next-tighter level; chain is ps_expr..ps_expr0')
    chk.rule('C11.L3', 'bin_op folds to the left: acc = Op(span, acc, right)')
    chk.rule('C11.L4', 'unary recurses into its own level then falls to postfix; `is` wraps the unary level once; '
                       'postfix binds tighter than any operator; parentheses re-enter ps_expr; ?? takes two ps_expr8 operands')
    chk.rule('C11.L5', 'operator classes carry the token the grammar maps to them; token spellings match the documentation')
    chk.rule('C11.L6', 'grouping table: every operator pair (unary, `is`, postfix, binary, ??, parentheses; triples by level) parsed '
                       'by the interpreted grammar gives the tree of the documented precedence table')
    funcs = {n: f for n, f in repo.functions(GRAMMAR).items()}
    need = ['ps_expr'] + [f'ps_expr{i}' for i in range(9)] + ['bin_op']
    # ---- the grouping table -------------------------------------------------------------------------
    # lexer and grammar of the tree, evaluated by the checker's interpreter (hidverif.frontend) on every entry of the finite
    # table of operator combinations, against a precedence-climbing reference written from the documented table
    from .. import exprtable
    if chk.tier == 'thorough':
        bad, n_cases = exprtable.run_table_parallel(repo.root, thorough=True)
    else:
        from ..frontend import Frontend
        bad, n_cases = exprtable.run_table(Frontend(repo))
    for label, got, want in bad[:6]:
        chk.fail('C11.L6', f'`{label}`', f'parsed as {got}; the documented table gives {want}', GRAMMAR)
    if not bad:
        chk.ok('C11.L6', 'grouping table', f'{n_cases} operator combinations group as documented')
    chk.count('grouping_cases', n_cases)
    chk.floor('grouping table cases', n_cases, 500)
    missing = [n for n in need if n not in funcs]
    if missing:
        # the ladder is not there under the names the structural rules know (a restructured grammar): its grouping is
        # decided by the table alone; what remains structural is the token side
        chk.ok('C11.L2', 'ladder shape', f'not the recorded ladder (no {", ".join(missing)}): grouping decided by the table (C11.L6)')
        cls_token = {}
        for name, c in repo.classes(OPERATORS).items():
            for st in c.body:
                if isinstance(st, ast.Assign) and any(isinstance(t, ast.Name) and t.id == 'token' for t in st.targets):
                    cls_token[name] = src(st.value)
        optok = {name: (v.value if isinstance(v, ast.Constant) else None) for name, v in repo.enum_members(TOKENS, 'OpToken')}
        for kind, table in SPEC:
            for sp, (tok, cls) in table.items():
                chk.expect(optok.get(tok) == sp, 'C11.L5', f'OpToken.{tok}', f'spelled {optok.get(tok)!r}, documented {sp!r}', TOKENS)
                if kind == 'is':
                    continue
                chk.expect(cls_token.get(cls) == f'OpToken.{tok}', 'C11.L5', f'{cls}.token',
                           f'class token is {cls_token.get(cls)}, grammar maps OpToken.{tok} to it', OPERATORS)
        _tail(repo, chk)
        chk.count('levels', 0)
        chk.not_decided = ['the print/parse round trip (the repository has no expression printer)',
                           'grouping beyond the table (pairs, triples by level, two long chains): the ladder shape was not recognised']
        return
    extra = sorted(n for n in funcs if re.fullmatch(r'ps_expr\w*', n) and n not in need)
    chk.expect(not extra, 'C11.L1', 'expression coroutines', f'unexpected extra expression levels {extra}', GRAMMAR)

    # token spellings (OpToken members)
    optok = {name: (v.value if isinstance(v, ast.Constant) else None) for name, v in repo.enum_members(TOKENS, 'OpToken')}
    # operator classes' own token
    cls_token = {}
    for name, c in repo.classes(OPERATORS).items():
        for st in c.body:
            if isinstance(st, ast.Assign) and any(isinstance(t, ast.Name) and t.id == 'token' for t in st.targets):
                cls_token[name] = src(st.value)

    # ---- binary levels ------------------------------------------------------
    expected_binary = [(8, SPEC[6]), (7, SPEC[5]), (6, SPEC[4]), (5, SPEC[3]), (4, SPEC[2])]
    for lvl, (kind, table) in expected_binary:
        fn = funcs[f'ps_expr{lvl}']
        d = describe(fn)
        key = f'ps_expr{lvl}'
        if not d or d['kind'] != 'binary':
            chk.fail('C11.L1', key, f'level is not a bin_op level: {d}', GRAMMAR, fn.lineno)
            continue
        want_ops = {f'OpToken.{tok}': cls for sp, (tok, cls) in table.items()}
        chk.expect(d['ops'] == want_ops, 'C11.L1', key,
                   f'operators {d["ops"]} differ from the documented level {want_ops}', GRAMMAR, d['line'])
        chk.expect(d['operand'] == f'ps_expr{lvl - 1}' and d['operand_args'] == ['ctx'], 'C11.L2', key,
                   f'operands parsed by {d["operand"]}({", ".join(d["operand_args"])}); expected ps_expr{lvl - 1}(ctx)',
                   GRAMMAR, d['line'])
        chk.expect(d['simple'], 'C11.L2', key + '#body', 'level must return the bin_op result unchanged', GRAMMAR, fn.lineno)
        for sp, (tok, cls) in table.items():
            chk.expect(optok.get(tok) == sp, 'C11.L5', f'OpToken.{tok}', f'spelled {optok.get(tok)!r}, documented {sp!r}', TOKENS)
            chk.expect(cls_token.get(cls) == f'OpToken.{tok}', 'C11.L5', f'{cls}.token',
                       f'class token is {cls_token.get(cls)}, grammar maps OpToken.{tok} to it', OPERATORS)

    # ---- bin_op shape -------------------------------------------------------
    b = funcs['bin_op']
    params = [a.arg for a in b.args.args]
    ok = params == ['expr_rule', 'operators']
    loops = [n for n in ast.walk(b) if isinstance(n, ast.While)]
    acc = None
    shape_msg = ''
    if ok and len(loops) == 1:
        loop = loops[0]
        # accumulator initialised from expr_rule
        init = [n for n in ast.walk(b) if isinstance(n, ast.NamedExpr) and src(n.value) == 'await expr_rule'] + \
               [n for n in b.body if isinstance(n, ast.Assign) and src(n.value) == 'await expr_rule']
        if len(init) == 1:
            acc = init[0].target.id if isinstance(init[0], ast.NamedExpr) else src(init[0].targets[0])
        test = loop.test
        opvar = test.target.id if isinstance(test, ast.NamedExpr) else None
        test_ok = isinstance(test, ast.NamedExpr) and src(test.value) == 'await OneOf(operators)'
        right = None
        fold = None
        for st in loop.body:
            if isinstance(st, ast.Assign) and len(st.targets) == 1 and isinstance(st.targets[0], ast.Name):
                v = src(st.value)
                if v in ('await expect(expr_rule)',):
                    right = st.targets[0].id
                elif isinstance(st.value, ast.Call) and src(st.value.func) == f'operators[{opvar}.token]':
                    fold = st
        if not (acc and test_ok and right and fold is not None):
            ok = False
            shape_msg = f'acc={acc} loop-test-ok={test_ok} right={right} fold={"found" if fold is not None else None}'
        else:
            args = [src(a) for a in fold.value.args]
            tgt = src(fold.targets[0])
            ok = args == [f'{opvar}.span', acc, right] and tgt == acc
            shape_msg = f'{tgt} = operators[{opvar}.token]({", ".join(args)})'
            body_kinds = [type(s).__name__ for s in loop.body]
            ok = ok and body_kinds == ['Assign', 'Assign'] and loop.body.index(fold) == 1
        rets = [n for n in ast.walk(b) if isinstance(n, ast.Return) and n.value is not None]
        ok = ok and len(rets) == 1 and src(rets[0].value) == (acc or '')
        ok = ok and not calls_in(b, 'bin_op')
    else:
        ok = False
        shape_msg = f'params={params} loops={len(loops)}'
    chk.expect(ok, 'C11.L3', 'bin_op', f'left fold expected `acc = operators[op.token](op.span, acc, right)` with right '
               f'parsed by expr_rule; found {shape_msg}', GRAMMAR, b.lineno)

    # ---- unary level ----------------------------------------------------------
    f2 = funcs['ps_expr2']
    paths = efg.enumerate_paths(f2)
    tbl = [n for n in ast.walk(f2) if isinstance(n, ast.Dict)]
    want_un = {f'OpToken.{tok}': cls for sp, (tok, cls) in SPEC[0][1].items()}
    got_un = {src(k): src(v) for d in tbl for k, v in zip(d.keys, d.values)}
    chk.expect(got_un == want_un, 'C11.L1', 'ps_expr2', f'unary operators {got_un}, documented {want_un}', GRAMMAR, f2.lineno)
    for sp, (tok, cls) in SPEC[0][1].items():
        chk.expect(cls_token.get(cls) == f'OpToken.{tok}', 'C11.L5', f'{cls}.token',
                   f'class token is {cls_token.get(cls)}', OPERATORS)
    # the table may be a local (`operators = {...}`) or spelled out / hoisted to module level: what matters is that the
    # token tested by OneOf(<table>) selects the class from the same table
    def table_text(node):
        if isinstance(node, ast.Dict):
            return 'tbl:' + src(node)
        if isinstance(node, ast.Name):
            for n in ast.walk(f2):
                if isinstance(n, ast.Assign) and any(isinstance(t, ast.Name) and t.id == node.id for t in n.targets) and isinstance(n.value, ast.Dict):
                    return 'tbl:' + src(n.value)
        return 'expr:' + src(node)

    def oneof_table(e):
        if e.kind != 'cond' or 'OneOf(' not in e.text or not isinstance(e.node, ast.AST):
            return None
        for n in ast.walk(e.node):
            if isinstance(n, ast.Call) and src(n.func) == 'OneOf' and len(n.args) == 1:
                return table_text(n.args[0])
        return None
    op_paths = [p for p in paths if any(oneof_table(e) and e.truth for e in p.events)]
    no_paths = [p for p in paths if any(oneof_table(e) and not e.truth for e in p.events)]
    ok = bool(op_paths) and bool(no_paths)
    for p in op_paths:
        calls = [e for e in p.events if e.kind == 'call' and e.func.startswith('ps_expr')]
        ret = [e for e in p.events if e.kind == 'return']
        ok = ok and [c.func for c in calls] == ['ps_expr2'] and all(c.argtexts == ['ctx'] for c in calls)
        tested = [oneof_table(e) for e in p.events if oneof_table(e)]
        rv = ret[-1].value if ret else None
        ok = ok and isinstance(rv, ast.Call) and isinstance(rv.func, ast.Subscript) and src(rv.func.slice) == 'op.token' \
            and table_text(rv.func.value) == tested[0] and tested[0].startswith('tbl:') \
            and [src(a) for a in rv.args] == ['op.span', 'await expect(ps_expr2(ctx))'] and not rv.keywords
    for p in no_paths:
        calls = [e for e in p.events if e.kind == 'call' and e.func.startswith('ps_expr')]
        ok = ok and [c.func for c in calls] == ['ps_expr1'] and all(c.argtexts == ['ctx'] for c in calls)
        ret = [e for e in p.events if e.kind == 'return']
        ok = ok and ret and src(ret[-1].value) == 'await ps_expr1(ctx)'
    chk.expect(ok, 'C11.L4', 'ps_expr2', 'a prefix operator must take a ps_expr2 operand (own level) and otherwise fall '
               'through to ps_expr1', GRAMMAR, f2.lineno)

    # ---- is level ---------------------------------------------------------------
    f3 = funcs['ps_expr3']
    paths = efg.enumerate_paths(f3)
    ok = True
    seen_is = False
    for p in paths:
        calls = [e for e in p.events if e.kind == 'call' and e.func.startswith('ps_expr')]
        if calls and not ([c.func for c in calls] == ['ps_expr2'] and calls[0].argtexts == ['ctx']):
            ok = False
        ret = [e for e in p.events if e.kind == 'return' and e.value is not None]
        is_true = any(e.kind == 'cond' and 'Exact(OpToken.IS)' in e.text and e.truth for e in p.events)
        is_false = any(e.kind == 'cond' and 'Exact(OpToken.IS)' in e.text and not e.truth for e in p.events)
        if is_true and p.outcome == 'return':
            seen_is = True
            rv = ret[-1].value
            ok = ok and isinstance(rv, ast.Call) and src(rv.func) == 'Is' and len(rv.args) == 3 and src(rv.args[1]) == 'expr'
        if is_false and p.outcome == 'return' and ret:
            ok = ok and src(ret[-1].value) == 'expr'
    loops3 = [n for n in ast.walk(f3) if isinstance(n, (ast.While, ast.For))]
    chk.expect(ok and seen_is and not loops3, 'C11.L4', 'ps_expr3', '`is` must wrap one ps_expr2 operand exactly once '
               '(Is(span, expr, type)) and otherwise return it unchanged', GRAMMAR, f3.lineno)
    chk.expect(optok.get('IS') == 'is', 'C11.L5', 'OpToken.IS', f'{optok.get("IS")!r}', TOKENS)

    # ---- postfix level ------------------------------------------------------------
    f1 = funcs['ps_expr1']
    calls1 = [c.func.id for c in calls_in(f1) if c.func.id.startswith('ps_expr')]
    loops1 = [n for n in ast.walk(f1) if isinstance(n, ast.While)]
    text1 = src(f1)
    ok = calls1.count('ps_expr0') == 1 and set(calls1) <= {'ps_expr0', 'ps_expr'} and len(loops1) == 1
    ok = ok and 'expr = LengthLookup(expr, attr.span.end)' in text1 and 'expr = ArrayLookup(expr, index, end.span.end)' in text1
    ok = ok and "Exact(SepToken.DOT)" in text1 and 'Exact(BracToken.LSQUARE)' in text1
    # the primary is parsed before the loop, and the index re-enters the full expression rule
    ok = ok and 'index = await expect(ps_expr(ctx))' in text1
    chk.expect(ok, 'C11.L4', 'ps_expr1', 'postfix .length / [index] must loop over one ps_expr0 primary, folding to the left',
               GRAMMAR, f1.lineno)

    # ---- primary ----------------------------------------------------------------------
    f0 = funcs['ps_expr0']
    paths = efg.enumerate_paths(f0)
    par = [p for p in paths if any(e.kind == 'cond' and 'Exact(BracToken.LPAREN)' in e.text and e.truth for e in p.events)
           and p.outcome == 'return']
    ok = bool(par)
    for p in par:
        calls = [e for e in p.events if e.kind == 'call' and e.func.startswith('ps_expr')]
        ret = [e for e in p.events if e.kind == 'return']
        ok = ok and [c.func for c in calls] == ['ps_expr'] and src(ret[-1].value) == 'expr'
        ok = ok and any(e.kind == 'call' and e.func == 'Exact' and e.argtexts == ['BracToken.RPAREN'] for e in p.events)
    tighter = [c.func.id for c in calls_in(f0) if re.fullmatch(r'ps_expr[1-8]', c.func.id)]
    chk.expect(ok and not tighter, 'C11.L4', 'ps_expr0', 'parentheses must re-enter ps_expr and return the inner tree; '
               f'the primary level must not call looser levels directly (found {tighter})', GRAMMAR, f0.lineno)

    # ---- speculation level ----------------------------------------------------------------
    fs = funcs['ps_expr']
    paths = efg.enumerate_paths(fs)
    sp = [p for p in paths if p.outcome == 'return' and any(e.kind == 'call' and e.func == 'Speculation' for e in p.events)]
    plain = [p for p in paths if p.outcome == 'return' and any(
        e.kind == 'cond' and 'Exact(OpToken.SPECULATION)' in e.text and not e.truth for e in p.events)]
    ok = bool(sp) and bool(plain)
    for p in sp:
        calls = [e for e in p.events if e.kind == 'call' and e.func.startswith('ps_expr')]
        ok = ok and [c.func for c in calls] == ['ps_expr8', 'ps_expr8', 'ps_expr8']
        con = [e for e in p.events if e.kind == 'call' and e.func == 'Speculation'][0]
        ok = ok and con.argtexts[1:] == ['left', 'right']
        asg = [(e.target, src(e.value)) for e in p.events if e.kind == 'assign' and e.target in ('left', 'right')]
        ok = ok and asg[-2:] == [('left', 'await expect(ps_expr8(new_ctx))'), ('right', 'await expect(ps_expr8(new_ctx))')]
    for p in plain:
        calls = [e for e in p.events if e.kind == 'call' and e.func.startswith('ps_expr')]
        ret = [e for e in p.events if e.kind == 'return']
        ok = ok and [c.func for c in calls] == ['ps_expr8'] and src(ret[-1].value) == 'left'
    loops = [n for n in ast.walk(fs) if isinstance(n, (ast.While, ast.For))]
    chk.expect(ok and not loops, 'C11.L4', 'ps_expr', '?? must take exactly two ps_expr8 operands (no chaining) and '
               'otherwise return the ps_expr8 tree', GRAMMAR, fs.lineno)
    chk.expect(optok.get('SPECULATION') == '??' and cls_token.get('Speculation') == 'OpToken.SPECULATION', 'C11.L5',
               'Speculation token', f'{optok.get("SPECULATION")!r} / {cls_token.get("Speculation")}', TOKENS)

    # ---- who calls which level: no level is bypassed --------------------------------------------
    callers = {}
    for name, fn in funcs.items():
        for c in calls_in(fn):
            if re.fullmatch(r'ps_expr[0-8]', c.func.id):
                callers.setdefault(c.func.id, set()).add(name)
    want_callers = {'ps_expr8': {'ps_expr'}, 'ps_expr7': {'ps_expr8'}, 'ps_expr6': {'ps_expr7'}, 'ps_expr5': {'ps_expr6'},
                    'ps_expr4': {'ps_expr5'}, 'ps_expr3': {'ps_expr4'}, 'ps_expr2': {'ps_expr3', 'ps_expr2'},
                    'ps_expr1': {'ps_expr2'}, 'ps_expr0': {'ps_expr1'}}
    for lvl, want in want_callers.items():
        chk.expect(callers.get(lvl, set()) == want, 'C11.L2', f'callers of {lvl}',
                   f'{sorted(callers.get(lvl, set()))}, expected {sorted(want)}: a level entered from elsewhere bypasses '
                   'the precedence ladder', GRAMMAR)

    _tail(repo, chk)
    chk.exhaustive = True
    chk.count('levels', 10)
    chk.sample({'ladder': {f'ps_expr{l}': (describe(funcs[f'ps_expr{l}']) or {}).get('ops') for l in (8, 7, 6, 5, 4)}})
    chk.not_decided = ['the print/parse round trip (the repository has no expression printer)']
