"""Self-validation of the checkers: a catalogue of source variants applied to scratch copies of /repo.

* breaking variants still import and keep the pinned tests green (not re-verified here) and must be
  reported by the named property's check;
* benign variants (renamings, equivalent rewrites, reordered independent statements) must leave
  every check silent.

This is a development aid for /verif itself and is NOT part of any registered command: on a tree that
already violates a property every variant copy violates it too, so the outcome would say nothing about
/repo.  Variants whose anchor text is not found are reported as skipped.

usage: python -m hidverif selftest [ids or property ids ...] [--jobs N]
"""
from __future__ import annotations

import concurrent.futures
import os
import shutil
import subprocess
import sys
import tempfile

G = 'hidc/codegen/generator.py'
A = 'hidc/codegen/asm.py'
S = 'hidc/codegen/stdlib.py'
GR = 'hidc/parser/grammar.py'
B = 'hidc/ast/blocks.py'
E = 'hidc/ast/expressions.py'
O = 'hidc/ast/operators.py'
R = 'hidc/lexer/readers.py'
M = 'hidc/__main__.py'
ST = 'hidc/ast/statements.py'

# (id, file, old, new, expectation, properties)
#   expectation 'detect': every listed property's check must exit 1
#   expectation 'silent': every check (all 18) must exit 0
VARIANTS = [
    # ---------------- breaking --------------------------------------------------------------------
    ('goto-without-halt', G, "        yield asm.Jump(addr)\n        yield asm.Halt()", "        yield asm.Jump(addr)", 'detect', ['C03']),
    ('inversion-swap', G, "asm.Hlt: asm.Hge,", "asm.Hlt: asm.Hgt,", 'detect', ['C03', 'C09']),
    ('inverse-operands-swapped', G, "yield halt_inversion[instr](left, right)", "yield halt_inversion[instr](right, left)", 'detect', ['C03', 'C09']),
    ('guard-to-nonterminal', G, "yield from self.goto(stdlib.division_by_zero)", "yield from self.goto(stdlib.halt)", 'detect', ['C03', 'C05']),
    ('false-side-falls-through', G, "            if not false_end_goto:\n                yield from self.goto(bool_end)",
     "            if false_end_goto:\n                yield from self.goto(bool_end)", 'detect', ['C03']),
    ('stdlib-loop-inverse', S, "        hle [r1], 0\n            lbc [r2], [r0]", "        hlt [r1], 0\n            lbc [r2], [r0]", 'detect', ['C03', 'C17']),
    ('stub-falls-through', S, "        flag out_of_bounds\n        j all_is_broken\n        halt", "        flag out_of_bounds", 'detect', ['C03', 'C05']),
    ('keep-false-arith', G, "left_bubble = yield from self.eval_expr(self.r0, expr.left, keep=not self.is_safe(expr.right))\n                right = yield from self.get_expr_value(self.r1, expr.right)\n                left = yield from self.pop_value(self.r0, left_bubble)\n                yield from self.arith_op_reg_arg",
     "left_bubble = yield from self.eval_expr(self.r0, expr.left, keep=False)\n                right = yield from self.get_expr_value(self.r1, expr.right)\n                left = yield from self.pop_value(self.r0, left_bubble)\n                yield from self.arith_op_reg_arg", 'detect', ['C01']),
    ('args-pushed-in-reverse', G, "        for arg in args:\n            arg_bubble = yield from self.push_expr(self.r1, arg)",
     "        for arg in reversed(args):\n            arg_bubble = yield from self.push_expr(self.r1, arg)", 'detect', ['C01']),
    ('continue-without-reset-ap', G, "                    yield from self.reset_ap(info.restore_point.array_num)\n                    yield from self.goto(info.continue_label)",
     "                    yield from self.goto(info.continue_label)", 'detect', ['C08']),
    ('handler-installed-after-jump', G, "                    yield asm.Mov(self.defeat, handler)\n                    yield asm.Jump(begin_try)",
     "                    yield asm.Jump(begin_try)\n                    yield asm.Mov(self.defeat, handler)", 'detect', ['C02']),
    ('handler-keeps-defeat', G, "                    yield asm.Mov(self.defeat, prev_defeat)\n                    yield asm.Mov(self.fp, asm.State(self.try_fp))",
     "                    yield asm.Mov(self.fp, asm.State(self.try_fp))", 'detect', ['C02', 'C03']),
    ('try-body-keeps-you', GR, "ps_block((ctx & ~BlockContext.YOU) | BlockContext.TRY)", "ps_block(ctx | BlockContext.TRY)", 'detect', ['C06']),
    ('spec-operands-keep-you', GR, "new_ctx = (ctx & ~BlockContext.YOU) | BlockContext.FUNC", "new_ctx = ctx | BlockContext.FUNC", 'detect', ['C06']),
    ('break-anywhere', GR, "        if BlockContext.LOOP not in ctx:\n            raise ParserError('break outside of loop', tok.span)", "        pass", 'detect', ['C06']),
    ('int-to-byte-coercible', E, "        return (self.type, new_type) in {\n            ByteToInt.map,", "        return (self.type, new_type) in {\n            ByteToInt.map, IntToByte.map,", 'detect', ['C07']),
    ('right-assoc', GR, "        right = await expect(expr_rule)\n        expr = operators[op.token](op.span, expr, right)",
     "        right = await expect(bin_op(expr_rule, operators))\n        expr = operators[op.token](op.span, expr, right)", 'detect', ['C11']),
    ('swap-precedence-levels', GR, "        OpToken.MUL: Mul, OpToken.DIV: Div, OpToken.MOD: Mod\n    })", "        OpToken.ADD: Add, OpToken.SUB: Sub\n    })", 'detect', ['C11']),
    ('symbols-shortest-first', R, "key=lambda tok: len(str(tok)), reverse=True", "key=lambda tok: len(str(tok)), reverse=False", 'detect', ['C12']),
    ('hex-trailing-underscore', R, "hex_literal = re.compile(r'0x(?:[\\da-fA-F]_?)*[\\da-fA-F]')", "hex_literal = re.compile(r'0x(?:[\\da-fA-F]_?)+')", 'detect', ['C12']),
    ('string-length-plus-one', G, "asm.WordDirective(asm.IntLiteral(len(string))).lines()", "asm.WordDirective(asm.IntLiteral(len(string) + 1)).lines()", 'detect', ['C13']),
    ('pack-bools-msb-first', G, "            result[-1] |= b << bit", "            result[-1] |= b << (bit_size - 1 - bit)", 'detect', ['C13']),
    ('escape-drops-quote', A, "        elif byte in quote:\n            result += b'\\\\' + bytes([byte])", "        elif byte in b'\"':\n            result += b'\\\\' + bytes([byte])", 'detect', ['C13']),
    ('unchecked-guard-does-work', G, "        if self.unchecked: return\n", "        if self.unchecked:\n            yield asm.Mov(self.r2, idx_arg)\n            return\n", 'detect', ['C15']),
    ('loop-loses-none', B, "        return mode.replace(ExitMode.BREAK, ExitMode.NONE)", "        return mode & ~ExitMode.BREAK", 'detect', ['C16']),
    ('if-ignores-else', B, "        return self.body.exit_modes() | self.else_block.exit_modes()", "        return self.body.exit_modes()", 'detect', ['C16']),
    ('set-iteration-on-output', G, "        for string, label in self.string_labels.items():", "        for string, label in set(self.string_labels.items()):", 'detect', ['C18']),
    ('open-before-codegen', M, "        code_gen = CodeGen(env, args.word_size // 8, args.stack_size, args.unchecked)\n        with open(output, 'wb') as f:\n            for line in code_gen.gen_lines():",
     "        with open(output, 'wb') as f:\n            code_gen = CodeGen(env, args.word_size // 8, args.stack_size, args.unchecked)\n            for line in code_gen.gen_lines():", 'detect', ['C10']),
    ('narrow-except', M, "    except CompilerError as err:", "    except TypeCheckError as err:", 'detect', ['C10']),
    ('index-guard-signed', G, "        yield asm.Hltu(idx_arg, length_arg)", "        yield asm.Hlt(idx_arg, length_arg)", 'detect', ['C05', 'C04']),
    ('index-guard-off-by-one', G, "        yield asm.Hltu(idx_arg, length_arg)", "        yield asm.Hleu(idx_arg, length_arg)", 'detect', ['C05']),
    ('reserve-without-update', G, "        cur = prev.add(offset=1)\n        self.stack = cur\n        self.checkpoints.update(self.stack.static_size)", "        cur = prev.add(offset=1)\n        self.stack = cur", 'detect', ['C04']),
    ('word-scale-hardcoded', G, "                yield asm.Mul(self.r1, index, asm.IntLiteral(self.word_size))\n                yield section.lwo(r_out, origin, asm.State(self.r1))",
     "                yield asm.Mul(self.r1, index, asm.IntLiteral(2))\n                yield section.lwo(r_out, origin, asm.State(self.r1))", 'detect', ['C04', 'C18']),
    ('writeln-two-newlines', G, "                yield asm.Yield(asm.IntLiteral(ord('\\n'), is_char=True))\n                return self.reserve_type(DataType.EMPTY)",
     "                yield asm.Yield(asm.IntLiteral(ord('\\n'), is_char=True))\n                yield asm.Yield(asm.IntLiteral(ord('\\n'), is_char=True))\n                return self.reserve_type(DataType.EMPTY)", 'detect', ['C17']),
    ('write-int-radix', S, "            mod [r1], [r2], 10\n            div [r2], [r2], 10\n            write_int_push:", "            mod [r1], [r2], 10\n            div [r2], [r2], 8\n            write_int_push:", 'detect', ['C17']),
    ('fold-div-truncates', O, "            return left // right", "            return int(left / right)", 'detect', ['C14', 'C09']),
    ('const-substitution-too-eager', E, "            if var.const or env.vars.is_global:", "            if True:", 'detect', ['C14']),
    ('lint-changes-tree', B, "                if env.options.get('unreachable_error', False):\n                    raise TypeCheckError('Unreachable statement', stmt.span)\n                break",
     "                if env.options.get('unreachable_error', False):\n                    continue\n                break", 'detect', ['C18']),
    ('pop-in-wrong-order', G, "            offset = yield from self.pop_value(self.r1, offset_bubble)\n            yield section.sbo(origin, offset, asm.State(self.r2))\n            yield from self.pop(array_bubble)",
     "            yield from self.pop(array_bubble)\n            offset = yield from self.pop_value(self.r1, offset_bubble)\n            yield section.sbo(origin, offset, asm.State(self.r2))", 'detect', ['C08']),
    ('return-value-before-ra', G, "                        retval = yield from self.get_expr_value(self.r0, stmt.value)\n                        ra = yield from self.return_address.get(self.r1)\n                        with self.at_offset(0):\n                            bubble = self.reserve_type(stmt.value.type)\n                            yield from bubble.value.set(retval)",
     "                        retval = yield from self.get_expr_value(self.r0, stmt.value)\n                        with self.at_offset(0):\n                            bubble = self.reserve_type(stmt.value.type)\n                            yield from bubble.value.set(retval)\n                        ra = yield from self.return_address.get(self.r1)", 'detect', ['C01']),
    # ---------------- benign ------------------------------------------------------------------------
    ('benign-rename-label', G, "no_overflow = self.add_label('no_overflow')\n            yield asm.Jump(no_overflow)\n            yield asm.Sub(self.r1, asm.State(self.fp), asm.State(self.ap))\n            yield asm.Hgeu(asm.State(self.r1), self.checkpoints.add(self.stack.static_size))\n            yield from self.goto(stdlib.stack_overflow)\n            yield asm.Label(no_overflow)",
     "enough_room = self.add_label('enough_room')\n            yield asm.Jump(enough_room)\n            yield asm.Sub(self.r1, asm.State(self.fp), asm.State(self.ap))\n            yield asm.Hgeu(asm.State(self.r1), self.checkpoints.add(self.stack.static_size))\n            yield from self.goto(stdlib.stack_overflow)\n            yield asm.Label(enough_room)", 'silent', []),
    ('benign-swapped-comparison', G, "        yield asm.Hltu(idx_arg, length_arg)", "        yield asm.Hgtu(length_arg, idx_arg)", 'silent', []),
    ('benign-equivalent-regex', R, "dec_literal = re.compile(r'(?:\\d_?)*\\d')", "dec_literal = re.compile(r'\\d(?:_?\\d)*')", 'silent', []),
    ('benign-equivalent-ident-regex', R, "ident_pattern = re.compile(r'[a-zA-Z_]\\w*')", "ident_pattern = re.compile(r'[_a-zA-Z][\\w]*')", 'silent', []),
    ('benign-comment-and-blank-lines', G, "    def goto(self, addr):\n        # unconditional jump", "    def goto(self, addr):\n        # unconditional jump\n        # (a Turing jump over a halt is always taken)\n", 'silent', []),
    ('benign-exit-modes-rewrite', B, "        return self.body.exit_modes() | self.else_block.exit_modes()", "        a = self.body.exit_modes()\n        b = self.else_block.exit_modes()\n        return b | a", 'silent', []),
    ('benign-replace-rewrite', B, "        return (self & ~old) | new", "        kept = self & ~old\n        return new | kept", 'silent', []),
    ('benign-escape-reorder', A, "        elif byte in b'\\n':\n            result += b'\\\\n'\n        elif byte in b'\\r':\n            result += b'\\\\r'", "        elif byte in b'\\r':\n            result += b'\\\\r'\n        elif byte in b'\\n':\n            result += b'\\\\n'", 'silent', []),
    ('benign-flavors-rewrite', GR, "        flavors = frozenset({})\n        if BlockContext.FUNC in self:\n            flavors |= {Flavor.NONE}", "        flavors = frozenset()\n        if BlockContext.FUNC in self:\n            flavors = flavors | {Flavor.NONE}", 'silent', []),
    ('benign-stdlib-comment', S, "        ; Deal with the special case of the minimum signed integer", "        ; Deal with the special case of the minimum signed integer\n        ; (its negation is itself)", 'silent', []),
    ('benign-rename-arith-locals', G, "                left_bubble = yield from self.eval_expr(self.r0, expr.left, keep=not self.is_safe(expr.right))\n                right = yield from self.get_expr_value(self.r1, expr.right)\n                left = yield from self.pop_value(self.r0, left_bubble)\n                yield from self.arith_op_reg_arg(type(expr), r_out, left, right)",
     "                lhs_bubble = yield from self.eval_expr(self.r0, expr.left, keep=not self.is_safe(expr.right))\n                rhs = yield from self.get_expr_value(self.r1, expr.right)\n                lhs = yield from self.pop_value(self.r0, lhs_bubble)\n                yield from self.arith_op_reg_arg(type(expr), r_out, lhs, rhs)", 'silent', []),
    ('benign-explicit-goto', G, "                yield from self.goto(end_else)\n                yield asm.Label(else_label)", "                yield asm.Jump(end_else)\n                yield asm.Halt()\n                yield asm.Label(else_label)", 'silent', []),
    ('benign-guard-other-register', G, "            yield asm.Sub(self.r1, asm.State(self.fp), asm.State(self.ap))\n            yield asm.Hgeu(asm.State(self.r1), self.checkpoints.add(self.stack.static_size))",
     "            yield asm.Sub(self.r2, asm.State(self.fp), asm.State(self.ap))\n            yield asm.Hgeu(asm.State(self.r2), self.checkpoints.add(self.stack.static_size))", 'silent', []),
    ('benign-is-safe-rewrite', G, "        return isinstance(expr, ast.PrimitiveValue) or isinstance(expr, ast.VariableLookup)", "        return isinstance(expr, (ast.PrimitiveValue, ast.VariableLookup))", 'silent', []),
    ('benign-coercible-rewrite', E, "        return (self.type, new_type) in {\n            ByteToInt.map,\n            StringToByteArray.map\n        }", "        pair = (self.type, new_type)\n        return pair == ByteToInt.map or pair == StringToByteArray.map", 'silent', []),
    ('benign-mass-rename-and-reformat', '', '@mass_rename', None, 'silent', []),
    ('benign-metadata-text', G, "                yield asm.Metadata('if block')", "                yield asm.Metadata('if/else block')", 'silent', []),
]


def mass_rename(root):
    """Rename every local variable of every function in the main modules to <name>_q and re-print the modules
    with ast.unparse (so formatting, comments and quotes change too)."""
    import ast
    from .canon import binding_sites, _Rename
    files = ['hidc/codegen/generator.py', 'hidc/parser/grammar.py', 'hidc/ast/blocks.py', 'hidc/ast/expressions.py',
             'hidc/ast/operators.py', 'hidc/ast/statements.py', 'hidc/ast/program.py', 'hidc/lexer/readers.py',
             'hidc/lexer/__init__.py', 'hidc/codegen/asm.py', 'hidc/codegen/tracker.py', 'hidc/lexer/scanner.py',
             'hidc/parser/rules.py', 'hidc/__main__.py']
    for rel in files:
        p = os.path.join(root, rel)
        tree = ast.parse(open(p).read())

        class V(ast.NodeTransformer):
            def visit_FunctionDef(self, fn):
                self.generic_visit(fn)
                sites, params = binding_sites(fn)
                names = {n for n, _, _ in sites}
                comp = {t.id for n in ast.walk(fn) if isinstance(n, (ast.ListComp, ast.SetComp, ast.DictComp, ast.GeneratorExp))
                        for g in n.generators for t in ast.walk(g.target) if isinstance(t, ast.Name)}
                mapping = {n: n + '_q' for n in names - comp}

                class R(_Rename):
                    def visit_FunctionDef(s, node):
                        return node if node is not fn else s.generic_visit(node)
                    visit_AsyncFunctionDef = visit_FunctionDef

                    def visit_Lambda(s, node):
                        # free names of a lambda that are locals of the function are renamed with them (its own parameters are not)
                        own = {a.arg for a in node.args.args + node.args.kwonlyargs}
                        inner = R({k: v for k, v in s.mapping.items() if k not in own})
                        node.body = inner.visit(node.body)
                        return node
                return R(mapping).visit(fn)
            visit_AsyncFunctionDef = visit_FunctionDef
        new = V().visit(tree)
        ast.fix_missing_locations(new)
        open(p, 'w').write(ast.unparse(new) + '\n')


def run_variant(v, repo='/repo'):
    vid, rel, old, new, expect, props = v
    d = tempfile.mkdtemp(prefix='hidverif-self-')
    try:
        shutil.copytree(os.path.join(repo, 'hidc'), os.path.join(d, 'hidc'))
        if os.path.exists(os.path.join(repo, 'README.rst')):
            shutil.copy(os.path.join(repo, 'README.rst'), d)
        if isinstance(old, str) and old.startswith('@'):
            globals()[old[1:]](d)            # whole-tree transform
        else:
            p = os.path.join(d, rel)
            s = open(p).read()
            if s.count(old) != 1:
                return vid, 'skipped', f'anchor occurs {s.count(old)} times'
            open(p, 'w').write(s.replace(old, new))
            try:
                compile(open(p).read(), p, 'exec')
            except SyntaxError as e:
                return vid, 'broken-variant', str(e)
        here = os.path.dirname(os.path.dirname(os.path.abspath(__file__)))
        all_props = sorted(f[:-3].upper() for f in os.listdir(os.path.join(here, 'hidverif', 'checks')) if f.startswith('c') and f.endswith('.py'))
        todo = props if expect == 'detect' else all_props
        res = {}
        for prop in todo:
            env = dict(os.environ, HIDVERIF_REPO=d, HIDVERIF_EVIDENCE_DIR=os.path.join(d, '.ev'))
            r = subprocess.run([sys.executable, '-m', 'hidverif', 'check', prop], cwd=here, env=env, capture_output=True, text=True)
            res[prop] = (r.returncode, [l.strip() for l in r.stdout.splitlines() if l.startswith(('  rule=', 'ANALYSIS'))][:2])
        if expect == 'detect':
            bad = {p: r for p, r in res.items() if r[0] != 1}
            return vid, ('ok' if not bad else 'MISSED'), str(bad) if bad else ''
        bad = {p: r for p, r in res.items() if r[0] != 0}
        return vid, ('ok' if not bad else 'FALSE-ALARM'), str(bad) if bad else ''
    finally:
        shutil.rmtree(d, ignore_errors=True)


def main(selected, jobs=16):
    todo = [v for v in VARIANTS if not selected or v[0] in selected or set(v[5]) & set(selected)
            or (v[4] == 'silent' and 'benign' in selected)]
    bad = 0
    with concurrent.futures.ThreadPoolExecutor(max_workers=jobs) as ex:
        for vid, status, detail in ex.map(run_variant, todo):
            print(f'{status:12} {vid} {detail[:300]}')
            if status not in ('ok', 'skipped'):
                bad += 1
    print(f'{len(todo)} variants, {bad} problems')
    return 1 if bad else 0
