"""Jump / halt form classification over inlined emission paths (generator side).

Forms (DESIGN.md C03):
  goto    Jump(X) Halt
  skip    Jump(L) C* Hcc(a,b) Jump(T) Halt Label(L)        T terminal stub
  branch  Jump(L) C* Hcc(a,b) ... Label(L) Hinv(a,b)
  spec    speculative head, identified by (function, match arm)
  defeat  [Jump(effective_defeat)] (Halt | Hcc)   jump present iff effective_defeat != halt
"""
from __future__ import annotations

import ast
from dataclasses import dataclass, field

from .pyfacts import src
from .genfacts import GenFacts

SCRATCH = {'self.r0', 'self.r1', 'self.r2', 'r_out', 'r_use'}
DEFEAT_COND = 'self.effective_defeat != stdlib.halt'

# speculative heads are recognised by where they occur, never by label name
SPEC_ARMS = {
    ('gen_block', 'TryBlock'): 'try',
    ('gen_block', 'PreemptBlock'): 'preempt',
    ('gen_stmts', 'ReturnStatement'): 'return-protection',
    ('eval_expr', 'Speculation'): 'speculation',
}
DEFEAT_FUNCS = {'eval_func_call', 'truth_is_defeat'}


@dataclass
class Form:
    form: str
    fn: str
    arm: str
    jump: object            # Ev or None
    label: str
    halts: list = field(default_factory=list)     # Evs in halt position
    cond_kind: tuple = None
    cond_args: tuple = ()
    stub: str = ''
    cstar: list = field(default_factory=list)
    guard_conds: tuple = ()  # (text, truth) assumptions in force at the jump
    events_idx: tuple = ()
    inverse_ok: bool = True
    site: str = ''


def arm_of(events, idx):
    # the arm of the function's own dispatch: the subject of the first `case` of the path (a nested match on something
    # else - `match block.handler:` inside the TryBlock arm - does not start a new arm)
    subject = next((e.text.split(': ', 1)[0] for e in events if e.kind == 'case' and not e.origin), None)
    for j in range(idx, -1, -1):
        e = events[j]
        if e.kind == 'case' and not e.origin and e.text.split(': ', 1)[0] == subject:
            pat = e.text.split(': ', 1)[1]
            # class pattern name(s)
            return pat.replace('ast.', '').replace('()', '')
    return ''


def site_key(fn, arm, e, events=None):
    origin = '/'.join(o.replace('self.', '') for o in e.origin)
    args = ', '.join(src(a) for a in e.args)
    o = f'<{origin}>' if origin else ''
    a = f'[{arm}]' if arm else ''
    return f'{fn}{a}{o}::{e.ctor}({args})'


def conds_before(events, idx):
    from .efg import Conds
    return Conds(events[:idx])


class Classifier:
    def __init__(self, gf: GenFacts, fn: str, events: list):
        self.gf = gf
        self.fn = fn
        self.ev = events
        self.items = [i for i, e in enumerate(events)
                      if (e.kind == 'emit' and e.ctor != 'asm.Metadata') or e.kind in ('sub', 'splice')]
        self.pos = {i: n for n, i in enumerate(self.items)}
        self.forms = []
        self.problems = []     # (site_key, message, line)
        self.consumed = set()

    def nxt(self, i):
        n = self.pos[i] + 1
        return self.items[n] if n < len(self.items) else None

    def is_emit(self, i, cls=None):
        if i is None:
            return False
        e = self.ev[i]
        if e.kind != 'emit':
            return False
        if cls is None:
            return True
        return self.gf.ctor_kind(self.ev, i) == ('cls', cls)

    def kind(self, i):
        return self.gf.ctor_kind(self.ev, i)

    def run(self):
        ev = self.ev
        gf = self.gf
        pending = {}
        for i in self.items:
            if i in self.consumed:
                continue
            e = ev[i]
            if e.kind != 'emit':
                continue
            kind = self.kind(i)
            arm = arm_of(ev, i)
            key = site_key(self.fn, arm, e)
            if kind == ('cls', 'Jump'):
                self._jump(i, e, arm, key, pending)
            elif kind == ('cls', 'Label') and e.args and src(e.args[0]) in pending:
                L = src(e.args[0])
                ckind, cargs, jidx, form = pending.pop(L)
                n = self.nxt(i)
                ok = False
                if n is not None and ev[n].kind == 'emit':
                    nk = self.kind(n)
                    nargs = tuple(src(a) for a in ev[n].args)
                    if self._is_inverse(ckind, nk) and nargs == cargs:
                        ok = True
                        self.consumed.add(n)
                        form.halts.append(ev[n])
                if not ok:
                    form.inverse_ok = False
                    got = ev[n].short() if n is not None else '<end of path>'
                    self.problems.append((form.site,
                        f'branch target Label({L}) is not immediately followed by the inverse of '
                        f'{self._kind_text(ckind)}({", ".join(cargs)}); found {got}', ev[i].line))
            elif gf.is_halt_class(kind):
                self._bare_halt(i, e, kind, arm, key)
        for L, (ckind, cargs, jidx, form) in pending.items():
            form.inverse_ok = False
            self.problems.append((form.site,
                f'branch Jump({L}) has no Label({L}) later on the path (inverse never placed)',
                ev[jidx].line))
        return self.forms, self.problems

    # ------------------------------------------------------------------
    @staticmethod
    def _kind_text(k):
        return f'{k[0]}:{k[1]}'

    def _is_inverse(self, a, b):
        gf = self.gf
        if a[0] == 'cls' and b[0] == 'cls':
            return gf.inverse_of(a[1]) == b[1] and gf.inverse_of(b[1]) == a[1]
        # symbolic: instr from compare_map, inverse via halt_inversion[instr]
        if a[0] == 'tbl' and a[1] == 'compare_map' and b[0] == 'inv':
            return True
        if a[0] == 'inv' and b[0] == 'tbl' and b[1] == 'compare_map':
            return True
        return False

    def _jump(self, i, e, arm, key, pending):
        ev = self.ev
        gf = self.gf
        L = src(e.args[0]) if e.args else '?'
        conds = conds_before(ev, i)
        n = self.nxt(i)
        spec = SPEC_ARMS.get((self.fn, arm.split('(')[0])) if not e.origin else None
        # F1 goto / F5 defeat-with-jump
        if self.is_emit(n, 'Halt'):
            self.consumed.add(n)
            if L == 'self.effective_defeat':
                f = Form('defeat', self.fn, arm, e, L, [ev[n]], guard_conds=tuple(conds.items()), site=key)
                if conds.get(DEFEAT_COND) is not True:
                    self.problems.append((key, 'Jump(effective_defeat) emitted without the guard '
                                          f'`{DEFEAT_COND}`', e.line))
            else:
                f = Form('goto', self.fn, arm, e, L, [ev[n]], guard_conds=tuple(conds.items()), site=key)
            self.forms.append(f)
            return
        # C*
        j = n
        cstar = []
        while j is not None and ev[j].kind == 'emit':
            k = self.kind(j)
            if k[0] == 'cls' and (k[1] in gf.arith_instrs or k[1] == 'Mov') \
                    and ev[j].args and src(ev[j].args[0]) in SCRATCH:
                cstar.append(j)
                j = self.nxt(j)
            else:
                break
        if j is not None and ev[j].kind == 'emit' and gf.is_cond_halt(self.kind(j)) and spec is None:
            ck = self.kind(j)
            cargs = tuple(src(a) for a in ev[j].args)
            k1 = self.nxt(j)
            if L == 'self.effective_defeat':
                self.consumed.add(j)
                f = Form('defeat', self.fn, arm, e, L, [ev[j]], ck, cargs,
                         guard_conds=tuple(conds.items()), site=key)
                if cstar:
                    self.problems.append((key, 'instructions between Jump(effective_defeat) and its halt', e.line))
                if conds.get(DEFEAT_COND) is not True:
                    self.problems.append((key, 'Jump(effective_defeat) emitted without the guard '
                                          f'`{DEFEAT_COND}`', e.line))
                self.forms.append(f)
                return
            # skip-guard?
            if self.is_emit(k1, 'Jump'):
                k2 = self.nxt(k1)
                k3 = self.nxt(k2) if k2 is not None else None
                if self.is_emit(k2, 'Halt') and self.is_emit(k3, 'Label') and src(ev[k3].args[0]) == L:
                    stub = src(ev[k1].args[0])
                    self.consumed |= {j, k1, k2, k3} | set(cstar)
                    f = Form('skip', self.fn, arm, e, L, [ev[j], ev[k2]], ck, cargs, stub,
                             [ev[c] for c in cstar], tuple(conds.items()), site=key, events_idx=(i, k3))
                    self.forms.append(f)
                    return
            # branch
            self.consumed.add(j)
            f = Form('branch', self.fn, arm, e, L, [ev[j]], ck, cargs,
                     cstar=[ev[c] for c in cstar], guard_conds=tuple(conds.items()), site=key)
            self.forms.append(f)
            if L in pending:
                self.problems.append((key, f'two pending branches to the same label {L}', e.line))
            pending[L] = (ck, cargs, i, f)
            return
        # speculative head
        if spec is not None:
            f = Form('spec', self.fn, arm, e, L, [], guard_conds=tuple(conds.items()), site=key,
                     events_idx=(i, i))
            f.stub = spec
            # halt-class instructions owned by the head: between the head and Label(L)
            owned = []
            j = n
            depth_guard = 0
            while j is not None:
                if self.is_emit(j, 'Label') and src(ev[j].args[0]) == L:
                    break
                if ev[j].kind == 'emit' and gf.is_cond_halt(self.kind(j)) and j not in self.consumed:
                    # only a conditional halt that is NOT the check of an inner form
                    prev_items = self.items[:self.pos[j]]
                    p = prev_items[-1] if prev_items else None
                    if not (p is not None and self.is_emit(p, 'Jump') and p != i):
                        owned.append(j)
                j = self.nxt(j)
                depth_guard += 1
            if spec == 'preempt':
                # only the forcing halt directly after the head
                owned = [o for o in owned if o == n]
            elif spec == 'speculation':
                owned = owned[:1]
            else:
                owned = []
            for o in owned:
                self.consumed.add(o)
                f.halts.append(ev[o])
            self.forms.append(f)
            return
        self.problems.append((key, f'Jump({L}) is not the head of any canonical form '
                              f'(goto / skip-guard / branch / speculative head / defeat site); '
                              f'next emission: {ev[n].short() if n is not None else "<end>"}', e.line))
        self.forms.append(Form('unclassified', self.fn, arm, e, L, site=key))

    def _bare_halt(self, i, e, kind, arm, key):
        ev = self.ev
        conds = conds_before(ev, i)
        if self.fn in DEFEAT_FUNCS and not e.origin and conds.get(DEFEAT_COND) is False:
            self.forms.append(Form('defeat', self.fn, arm, None, '', [e], kind,
                                   tuple(src(a) for a in e.args), guard_conds=tuple(conds.items()), site=key))
            return
        self.problems.append((key, f'halt-class emission {e.short()} is not in a halt position of any '
                              f'canonical form (a committed halt would be possible here)', e.line))
        self.forms.append(Form('unclassified', self.fn, arm, None, '', [e], site=key))


def classify_function(gf: GenFacts, fn: str):
    """All forms and problems over all inlined paths of CodeGen.<fn>."""
    forms, problems = [], []
    n_paths = 0
    for p, events in gf.inlined(fn):
        if p.outcome == 'raise':
            continue
        n_paths += 1
        f, pr = Classifier(gf, fn, events).run()
        forms += f
        problems += pr
    return forms, problems, n_paths
