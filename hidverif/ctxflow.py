"""CTXFLOW: finite-state analysis of how BlockContext flows through hidc/parser/grammar.py.

Each ``ps_*`` coroutine is path-enumerated; branch conditions that depend on ``ctx`` are
evaluated by CONSTEVAL for every one of the 32 context values; all other conditions (token
tests) are free.  This yields, per (function, ctx): the ctx-carrying call edges, the
constructs built, and the context-dependent rejections.  A worklist closes the reachable set
of (function, ctx, semantic position) triples.
"""
from __future__ import annotations

import ast
import re
from dataclasses import dataclass

from .pyfacts import AnalysisError, src
from .consteval import Interp, Env, Unsupported
from . import efg

GRAMMAR = 'hidc/parser/grammar.py'

CONSTRUCTS = {'TryBlock', 'PreemptBlock', 'Speculation', 'BreakStatement', 'ContinueStatement', 'FuncCall'}
UNKNOWN = object()


@dataclass(frozen=True)
class Sem:
    """Semantic position, independent of the bit encoding."""
    flavor: str = 'GLOBAL'      # NONE | YOU | DEFEAT | GLOBAL
    try_body: bool = False
    loop: bool = False
    spec: bool = False

    def __str__(self):
        parts = [self.flavor]
        if self.try_body:
            parts.append('try')
        if self.loop:
            parts.append('loop')
        if self.spec:
            parts.append('spec')
        return '+'.join(parts)


def expected(construct, sem: Sem):
    """The documented rule (property C06) as a function of the semantic position.
    Returns True (must accept), False (must reject) or None (not specified)."""
    f = sem.flavor
    if construct == 'call:NONE':
        return f != 'GLOBAL'
    if construct == 'call:DEFEAT':
        return f != 'GLOBAL' and (f == 'DEFEAT' or sem.try_body) and not sem.spec
    if construct == 'call:YOU':
        return f == 'YOU' and not sem.try_body and not sem.spec
    if construct == 'PreemptBlock':
        return f == 'DEFEAT' or sem.try_body
    if construct == 'TryBlock':
        return f == 'YOU' and not sem.try_body
    if construct == 'Speculation':
        if sem.spec:
            return None     # nested ?? inside an operand: the documentation does not say; not enforced
        return f == 'YOU' and not sem.try_body
    if construct in ('BreakStatement', 'ContinueStatement'):
        return sem.loop
    return None


class CtxFlow:
    def __init__(self, repo):
        self.repo = repo
        self.interp = Interp(repo)
        self.ns = self.interp.load(GRAMMAR)
        self.BC = self.ns.get('BlockContext')
        self.Flavor = self.ns.get('Flavor')
        if self.BC is None or self.Flavor is None:
            raise AnalysisError('BlockContext / Flavor not found in grammar.py namespace')
        self.funcs = {n: f for n, f in repo.functions(GRAMMAR).items() if isinstance(f, ast.AsyncFunctionDef)}
        self.paths = {}
        for name, fn in self.funcs.items():
            self.paths[name] = efg.enumerate_paths(fn, unroll=(0, 1), name=name)
        self.bits = {}
        for name in ('NONE', 'FUNC', 'YOU', 'DEFEAT', 'TRY', 'LOOP'):
            if name not in self.BC.__members__:
                raise AnalysisError(f'BlockContext.{name} missing')
            self.bits[name] = int(self.BC.__members__[name])
        self.all_ctx = [self.BC(v) for v in range(32)] if self._width_ok() else None
        self._summ = {}

    def _width_ok(self):
        allbits = 0
        for v in self.bits.values():
            allbits |= v
        if allbits != 31:
            raise AnalysisError(f'BlockContext bit layout changed (union of members = {allbits}); '
                                'the 32-element lattice assumption no longer holds')
        return True

    # ------------------------------------------------------------------
    def has_ctx(self, fn):
        return any(a.arg == 'ctx' for a in fn.args.args)

    def _mentions(self, node, names):
        # names used inside an awaited parse (``await ps_x(ctx)``) are arguments, not decisions
        if isinstance(node, ast.Await):
            return False
        if isinstance(node, ast.Name) and node.id in names:
            return True
        return any(self._mentions(c, names) for c in ast.iter_child_nodes(node))

    def _try_eval(self, node, local):
        for n in ast.walk(node):
            if isinstance(n, (ast.Await, ast.Yield, ast.YieldFrom)):
                return UNKNOWN
        if '__flavor__' in local and any(isinstance(n, ast.Attribute) and n.attr == 'flavor' for n in ast.walk(node)):
            class _F(ast.NodeTransformer):
                def visit_Attribute(self, n):
                    if n.attr == 'flavor':
                        return ast.copy_location(ast.Name(id='__flavor__', ctx=ast.Load()), n)
                    return self.generic_visit(n)
            import copy
            node = ast.fix_missing_locations(_F().visit(copy.deepcopy(node)))
        env = Env(self.ns, dict(local))
        try:
            return self.interp.eval(node, env)
        except (NameError, Unsupported, AttributeError, TypeError, KeyError):
            return UNKNOWN

    def _table_targets(self, e):
        """A call through a module-level dispatch table (`T[key](..)` / `T.get(key)(..)`, every value of T a routine of the
        grammar): any of the routines may be the one called."""
        call = e.node
        if isinstance(call, ast.Await):
            call = call.value
        if not isinstance(call, ast.Call):
            return []
        f = call.func
        table = None
        lit = f.value if isinstance(f, ast.Subscript) else f.func.value if (
            isinstance(f, ast.Call) and isinstance(f.func, ast.Attribute) and f.func.attr == 'get') else None
        if isinstance(lit, ast.Dict) and lit.values:
            names = [v.id if isinstance(v, ast.Name) else None for v in lit.values]
            return names if all(n in self.funcs for n in names) else []
        if isinstance(f, ast.Subscript) and isinstance(f.value, ast.Name):
            table = f.value.id
        elif isinstance(f, ast.Call) and isinstance(f.func, ast.Attribute) and f.func.attr == 'get' and isinstance(f.func.value, ast.Name):
            table = f.func.value.id
        val = self.ns.get(table) if table else None
        if not isinstance(val, dict) or not val:
            return []
        names = [getattr(v, '__name__', None) for v in val.values()]
        if all(n in self.funcs for n in names):
            return names
        return []

    def dedicated(self, fname, construct, tok):
        """fname builds `construct` on some path and no path of it tests the construct's keyword."""
        builds = tests = False
        for p in self.paths[fname]:
            for e in p.events:
                if e.kind == 'call' and e.func == construct:
                    builds = True
                if e.kind == 'cond' and re.search(r'Exact\(\w+\.%s\)' % tok, e.text):
                    tests = True
        return builds and not tests

    def summarize(self, fname, ctx):
        """For function fname entered with ctx (None if it has no ctx parameter): list of feasible
        path summaries: dict(edges=[(callee, ctx|None, bound, line, argtext)], constructs=[(name, line)],
        raises=[(text, line)], tokens=set of token names tested true, flav={cond texts},
        outcome, events)."""
        key = (fname, int(ctx) if ctx is not None else None)
        if key in self._summ:
            return self._summ[key]
        out = []
        tracked = {'ctx'}
        for p in self.paths[fname]:
            # a context computed from the flavour of a name that is only known at parse time (`f(name.token.flavor)`
            # in an assignment or an argument): one pass per flavour, recorded like a decided flavour comparison
            splits = [None]
            if any(e.kind in ('assign', 'call') and any(
                    isinstance(n, ast.Attribute) and n.attr == 'flavor'
                    for part in ([e.value] if e.kind == 'assign' and isinstance(e.value, ast.AST) else list(e.args or []))
                    for n in ast.walk(part)) for e in p.events):
                splits = list(self.Flavor)
            for flavour in splits:
                local = {}
                if flavour is not None:
                    local['__flavor__'] = flavour
                if ctx is not None:
                    local['ctx'] = ctx
                feasible = True
                edges, constructs, raises, tokens, freeconds, idents = [], [], [], set(), [], []
                derived = set(['ctx']) if ctx is not None else set()
                for e in p.events:
                    if e.kind == 'assign' and isinstance(e.value, ast.expr) and re.fullmatch(r'\w+', e.target or ''):
                        if e.text in ('for-target', 'match-bind'):
                            local.pop(e.target, None)
                            derived.discard(e.target)
                            continue
                        v = self._try_eval(e.value, local)
                        if v is UNKNOWN:
                            local.pop(e.target, None)
                            derived.discard(e.target)
                        else:
                            local[e.target] = v
                            if self._mentions(e.value, derived) or True:
                                derived.add(e.target)
                    elif e.kind == 'cond':
                        node = e.node
                        m = re.search(r'Exact\((\w+)\.(\w+)\)', e.text)
                        if m and e.truth:
                            tokens.add(m.group(2))
                        if self._mentions(node, {'ctx', 'new_ctx'}) or (self._mentions(node, derived - {'ctx'})
                                                                        and not any(isinstance(n, ast.Await) for n in ast.walk(node))):
                            v = self._try_eval(node, local)
                            if v is UNKNOWN:
                                if self._mentions(node, {'ctx', 'new_ctx'}):
                                    raise AnalysisError(f'{fname}: cannot evaluate context condition `{e.text}`')
                                freeconds.append((e.text, e.truth))
                                continue
                            if bool(v) != e.truth:
                                feasible = False
                                break
                        else:
                            freeconds.append((e.text, e.truth))
                    elif e.kind == 'call':
                        f = e.func
                        targets = [f] if f in self.funcs else self._table_targets(e)
                        if targets:
                            cargs = []
                            for a in e.args:
                                cargs.append(self._try_eval(a, local))
                            for f in targets:
                                callee_has_ctx = self.has_ctx(self.funcs[f])
                                if callee_has_ctx:
                                    if not cargs or cargs[0] is UNKNOWN or not isinstance(cargs[0], int):
                                        raise AnalysisError(f'{fname}: cannot evaluate context argument of {f}({", ".join(e.argtexts)})')
                                    edges.append((f, self.BC(int(cargs[0])), e.bound, e.line, e.argtexts[0]))
                                else:
                                    edges.append((f, None, e.bound, e.line, ''))
                                    if f == 'ps_ident':
                                        idents.append((cargs[0] if cargs else UNKNOWN, e.line, e.argtexts[0] if e.args else ''))
                        elif f in CONSTRUCTS:
                            constructs.append((f, e.line, e))
                        elif f == 'ParserError':
                            pass
                    elif e.kind == 'raise':
                        raises.append((e.text, e.line))
                if feasible:
                    if flavour is not None:
                        freeconds = freeconds + [(f'<flavour> == Flavor.{flavour.name}', True)]
                    out.append(dict(edges=edges, constructs=constructs, raises=raises, tokens=tokens,
                                    free=freeconds, idents=idents, outcome=p.outcome, events=p.events))
        self._summ[key] = out
        return out
