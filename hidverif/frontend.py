"""The front end (lexer + parser) of the pinned repository, interpreted by CONSTEVAL on small sources.

Nothing of /repo is imported or executed by CPython: the modules are read as syntax trees and evaluated by
hidverif.consteval.  One piece is supplied natively, because it is the scheduler rather than the grammar: the loop of
``Parser.process`` that drives a coroutine (``coro.send(result).process(cur)``).  Here an ``await`` is evaluated in place
(Interp.do_await) against a stack of driver frames, which is what that loop computes: the awaited rule is processed at the
frame's current position, the position advances, a routine that returns None gives the position back unless the frame
does not backtrack.  The loop itself is held to that specification by the structural rule C06.P1.
"""
from __future__ import annotations

import sys

from .consteval import Interp, Coro
from .pyfacts import AnalysisError

PARSER = 'hidc/parser/__init__.py'
RULES = 'hidc/parser/rules.py'
GRAMMAR = 'hidc/parser/grammar.py'
SCANNER = 'hidc/lexer/scanner.py'
ERRORS = 'hidc/errors.py'


class Frontend:
    def __init__(self, repo, set_order=None):
        sys.setrecursionlimit(max(sys.getrecursionlimit(), 20000))
        it = Interp(repo)
        it.allow_generators = True
        it.allow_async = True
        it.set_order = set_order
        it.drivers = []
        it.step_limit = 10 ** 9
        self.it = it
        self.rules = it.load(RULES)
        P = self.rules.get('Parser')
        if P is None:
            raise AnalysisError('class Parser not found in hidc/parser/rules.py')

        def process(self_, start):
            coro = self_.consume()
            frame = {'cur': start, 'start': start, 'backtrack': self_.backtrack}
            it.drivers.append(frame)
            try:
                ret = coro.run() if isinstance(coro, Coro) else it.do_await(coro)
            finally:
                it.drivers.pop()
            if ret is not None:
                return ret, frame['cur']
            return None, frame['start']
        P.process = process
        self.parser = it.load(PARSER)
        self.grammar = it.load(GRAMMAR)
        self.SC = it.load(SCANNER)['SourceCode']
        self.errors = it.load(ERRORS)
        self.CompilerError = self.errors['CompilerError']
        self.parse_fn = self.parser.get('parse')
        if self.parse_fn is None:
            raise AnalysisError('parse() not found in hidc/parser/__init__.py')

    def source(self, text):
        return self.SC('<t>', text.split('\n'))

    def parse(self, text, rule=None):
        """Parsed tree, or ('error', class name, message)."""
        it = self.it
        it.steps = 0
        del it.drivers[:]
        try:
            if rule is None:
                return self.parse_fn(self.source(text))
            return self.parse_fn(self.source(text), rule)
        except self.CompilerError as e:
            return ('error', type(e).__name__, str(e))

    def expr(self, text, ctx='FUNC'):
        BC = self.grammar['BlockContext']
        c = BC.__members__[ctx] if isinstance(ctx, str) else ctx
        return self.parse(text, self.grammar['ps_expr'](c))


def shape(node):
    """Structure of a parsed tree without positions: (class name, {field: shape}) for dataclass-like nodes."""
    import dataclasses as dc
    import enum
    if isinstance(node, tuple) and node and node[0] == 'error':
        return node[:2]
    if isinstance(node, (list, tuple)):
        return [shape(x) for x in node]
    if isinstance(node, enum.Enum):
        return f'{type(node).__name__}.{node.name}'
    if dc.is_dataclass(node) and not isinstance(node, type):
        out = {}
        for f in dc.fields(node):
            if f.name in ('span',) or 'span' in f.name:
                continue
            out[f.name] = shape(getattr(node, f.name))
        return (type(node).__name__, out)
    if node is None or isinstance(node, (int, str, bytes, bool)):
        return node
    if hasattr(node, '__dict__'):
        return (type(node).__name__, {k: shape(v) for k, v in vars(node).items() if 'span' not in k and not k.startswith('_')})
    return repr(node)


def typecheck(fe, text, prelude=None, **options):
    """Parse and typecheck a program by interpretation: the typed Program, or ('error', class name, message).  `prelude`
    (declarations shared by a catalogue of programs) is parsed once per front end and put in front of the program's own
    declarations."""
    astns = fe.it.load('hidc/ast/__init__.py')
    prog = fe.parse(text)
    if isinstance(prog, tuple) and prog and prog[0] == 'error':
        return prog
    if prelude:
        cache = fe.__dict__.setdefault('_preludes', {})
        if prelude not in cache:
            cache[prelude] = fe.parse(prelude)
        pre = cache[prelude]
        if isinstance(pre, tuple) and pre and pre[0] == 'error':
            return pre
        prog = type(prog)(tuple(pre.var_decls) + tuple(prog.var_decls), tuple(pre.func_decls) + tuple(prog.func_decls))
    env = astns['Environment'].empty(**options)
    try:
        return prog.evaluate(env)
    except fe.CompilerError as e:
        return ('error', type(e).__name__, str(e))


def walk_nodes(node, seen=None):
    """Every object of an interpreted tree (dataclass fields, tuples, lists), parents first."""
    import dataclasses as dc
    if seen is None:
        seen = set()
    if id(node) in seen:
        return
    if isinstance(node, (tuple, list)):
        for x in node:
            yield from walk_nodes(x, seen)
        return
    if dc.is_dataclass(node) and not isinstance(node, type):
        seen.add(id(node))
        yield node
        for f in dc.fields(node):
            try:
                v = getattr(node, f.name)
            except Exception:       # noqa: BLE001
                continue
            yield from walk_nodes(v, seen)
