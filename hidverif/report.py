"""Check context: collects rule instances, violations, evidence; applies known findings."""
from __future__ import annotations

import json
import os
import time

VERIF_ROOT = os.path.dirname(os.path.dirname(os.path.abspath(__file__)))
KNOWN_FINDINGS = os.path.join(VERIF_ROOT, 'known_findings.json')


def load_known_findings():
    if not os.path.exists(KNOWN_FINDINGS):
        return []
    with open(KNOWN_FINDINGS) as f:
        data = json.load(f)
    return data.get('findings', [])


class Remap:
    """Lets one property's check reuse rule groups of another: forwards only the mapped rule ids."""

    def __init__(self, chk, mapping):
        self.chk = chk
        self.mapping = mapping
        self.tier = chk.tier
        self.violations = []
        self.explanation = ''
        self.assumptions = []
        self.not_decided = []
        self.exhaustive = False

    def rule(self, rid, text):
        pass

    def _map(self, rule, construct):
        """A mapping value is a rule id, or a callable construct -> rule id / None (to share part of a rule)."""
        to = self.mapping.get(rule)
        if callable(to):
            to = to(construct)
        return to

    def ok(self, rule, construct, detail=''):
        to = self._map(rule, construct)
        if to:
            self.chk.ok(to, construct, detail)

    def fail(self, rule, construct, detail, file=None, line=None):
        to = self._map(rule, construct)
        if to:
            self.chk.fail(to, construct, detail, file, line)

    def expect(self, cond, rule, construct, detail='', file=None, line=None):
        if cond:
            self.ok(rule, construct, detail)
        else:
            self.fail(rule, construct, detail, file, line)
        return cond

    def count(self, name, n=1):
        pass

    def floor(self, name, actual, minimum):
        # instance floors belong to the check that owns the rule group: when its rules are only borrowed, a floor that is not
        # met (the borrowed extractor lost sight of its constructs on this tree) must not mask what the borrowing check
        # itself reports - the owning property's own run raises it
        pass

    def sample(self, obj):
        pass


class Check:
    """One run of one property's check."""

    def __init__(self, prop, tier, seed=0):
        self.prop = prop
        self.tier = tier
        self.seed = seed
        self.t0 = time.time()
        self.instances = []      # (rule, construct, ok, detail)
        self.violations = []     # dicts
        self.analysed = {}       # free-form counters: functions, paths, sites...
        self.samples = []
        self.assumptions = []
        self.explanation = ''
        self.rules = {}          # rule id -> description
        self.floors = []         # (name, actual, minimum)
        self.not_decided = []
        self.exhaustive = False

    # -- rule registration -------------------------------------------------
    def rule(self, rid, text):
        self.rules[rid] = text

    def ok(self, rule, construct, detail=''):
        self.instances.append((rule, construct, True, detail))

    def fail(self, rule, construct, detail, file=None, line=None):
        self.instances.append((rule, construct, False, detail))
        self.violations.append({
            'property': self.prop, 'rule': rule, 'construct': construct,
            'detail': detail, 'file': file, 'line': line,
        })

    def expect(self, cond, rule, construct, detail='', file=None, line=None):
        if cond:
            self.ok(rule, construct, detail)
        else:
            self.fail(rule, construct, detail, file, line)
        return cond

    def count(self, name, n=1):
        self.analysed[name] = self.analysed.get(name, 0) + n

    def floor(self, name, actual, minimum):
        """Instance floor: falling below means the extractor lost sight of something."""
        self.floors.append((name, actual, minimum))

    def sample(self, obj):
        if len(self.samples) < 12:
            self.samples.append(obj)

    # -- finishing ----------------------------------------------------------
    def finish(self):
        from .pyfacts import AnalysisError
        for name, actual, minimum in self.floors:
            if actual < minimum:
                raise AnalysisError(
                    f'instance floor not met: {name} = {actual} < {minimum} '
                    f'(the extractor lost sight of constructs it is meant to analyse)')
        known = [k for k in load_known_findings() if k.get('property') == self.prop]
        open_keys = {(k['rule'], k['construct']): k for k in known if k.get('status') == 'open'}
        real = []
        known_hit = []
        seen = set()
        for v in self.violations:
            key = (v['rule'], v['construct'])
            if key in seen:
                continue
            seen.add(key)
            if key in open_keys:
                known_hit.append((v, open_keys[key]))
            else:
                real.append(v)
        ev_dir = os.environ.get('HIDVERIF_EVIDENCE_DIR') or os.path.join(VERIF_ROOT, 'evidence')
        os.makedirs(os.path.join(ev_dir, 'replay'), exist_ok=True)
        lines = []
        for v, k in known_hit:
            lines.append(f"KNOWN-FINDING: property={self.prop} rule={v['rule']} "
                         f"construct={v['construct']} :: {k.get('what', v['detail'])}")
        for n, v in enumerate(real):
            path = os.path.join(ev_dir, 'replay', f'{self.prop}-{n}.json')
            with open(path, 'w') as f:
                json.dump(v, f, indent=1)
            loc = f"{v['file']}:{v['line']}" if v.get('file') else ''
            lines.append(f"VIOLATION property={self.prop} replay={path}")
            lines.append(f"  rule={v['rule']} construct={v['construct']} {loc}")
            lines.append(f"  {v['detail']}")
        wall = time.time() - self.t0
        n_inst = len(self.instances)
        distinct = len({(r, c) for r, c, _, _ in self.instances})
        per_rule = {}
        for r, c, ok, _ in self.instances:
            a = per_rule.setdefault(r, [0, 0])
            a[0] += 1
            a[1] += 1 if ok else 0
        evidence = {
            'property_id': self.prop,
            'tier': self.tier,
            'seed': self.seed,
            'level': 'other',
            'coverage': {
                'explanation': self.explanation,
                'evaluations': n_inst,
                'distinct_nontrivial': distinct,
                'rule': 'one evaluation = one rule instance (rule id x source construct) decided on the '
                        'current syntax trees of /repo; distinct = distinct (rule, construct) pairs; '
                        'non-trivial = the construct exists in the source and the rule had an obligation on it',
                'obligations': n_inst,
                'discharged': sum(1 for i in self.instances if i[2]),
                'samples': self.samples or [
                    {'rule': r, 'construct': c, 'holds': ok, 'detail': d}
                    for r, c, ok, d in self.instances[:8]],
                'analysed': self.analysed,
                'rules': self.rules,
                'per_rule_instances': {r: {'instances': a[0], 'hold': a[1]} for r, a in sorted(per_rule.items())},
                'instance_floors': [{'name': n, 'actual': a, 'minimum': m} for n, a, m in self.floors],
                'not_decided': self.not_decided,
                'known_findings_reported': [
                    {'rule': v['rule'], 'construct': v['construct']} for v, _ in known_hit],
                'exhaustive': self.exhaustive,
            },
            'assumptions': self.assumptions,
            'wall_s': round(wall, 3),
            'violations': len(real),
        }
        with open(os.path.join(ev_dir, f'{self.prop}.json'), 'w') as f:
            json.dump(evidence, f, indent=1, default=str)
        print(f'[{self.prop}] tier={self.tier} rule-instances={n_inst} distinct={distinct} '
              f'hold={evidence["coverage"]["discharged"]} analysed={self.analysed} wall={wall:.2f}s')
        for r, a in sorted(per_rule.items()):
            print(f'  {r}: {a[1]}/{a[0]} hold  -- {self.rules.get(r, "")[:100]}')
        for ln in lines:
            print(ln)
        return 1 if real else 0
