"""Facts about hidc/codegen/generator.py and asm.py shared by several checks."""
from __future__ import annotations

import ast
import copy
import os

from .pyfacts import AnalysisError, Repo, src, dict_literal
from . import efg

GEN = 'hidc/codegen/generator.py'
ASM = 'hidc/codegen/asm.py'
STDLIB = 'hidc/codegen/stdlib.py'

INLINE_HELPERS = ('goto', 'check_index', 'mark')
DEEP_MAX_PATHS = 8000


def new_codegen(CG, **attrs):
    """A CodeGen object that has not run its constructor (no program is compiled): every dataclass field that declares a
    default / default_factory gets it (so book-keeping fields added by a refactor exist), then `attrs` are set."""
    import dataclasses
    g = object.__new__(CG)
    try:
        fields = dataclasses.fields(CG)
    except TypeError:
        fields = ()
    for f in fields:
        try:
            if f.default is not dataclasses.MISSING:
                setattr(g, f.name, f.default)
            elif f.default_factory is not dataclasses.MISSING:
                setattr(g, f.name, f.default_factory())
        except Exception:      # noqa: BLE001 - a factory that needs more context: left unset
            pass
    for k, v in attrs.items():
        setattr(g, k, v)
    return g


class GenFacts:
    _cache = {}

    def __new__(cls, repo, unroll=(0, 1, 2)):
        key = (id(repo), tuple(unroll))
        inst = cls._cache.get(key)
        if inst is None or inst.repo is not repo:
            inst = super().__new__(cls)
            inst._ready = False
            cls._cache[key] = inst
        return inst

    def __init__(self, repo: Repo, unroll=(0, 1, 2)):
        if getattr(self, '_ready', False):
            return
        self._ready = True
        self.repo = repo
        self.unroll = unroll
        self.methods = repo.methods(GEN, 'CodeGen')
        self.all_gen_methods = {n: f for n, f in self.methods.items()
                                if efg.is_generator_function(f) and not self._is_ctxmanager(f)
                                and n != 'gen_lines'}
        self._paths = {}
        self._inlined = {}
        self.deep = set()      # methods enumerated with loop bodies followed three times (thorough tier)
        # asm class hierarchy
        self.asm_bases = repo.class_bases(ASM)
        self.cond_halts = repo.subclasses(ASM, 'ConditionalHalt')
        self.arith_instrs = repo.subclasses(ASM, 'ArithmeticInstruction')
        self.instr_classes = repo.subclasses(ASM, 'Instruction')
        self.asm_code = {}
        for name, c in repo.classes(ASM).items():
            for n in c.body:
                if isinstance(n, ast.Assign) and any(isinstance(t, ast.Name) and t.id == 'code' for t in n.targets):
                    if isinstance(n.value, ast.Constant) and isinstance(n.value.value, bytes):
                        self.asm_code[name] = n.value.value.decode()
        # tables
        self.arith_map = self._table('arith_map')
        self.compare_map = self._table('compare_map')
        self.halt_inversion = self._table('halt_inversion')
        # label refs in stdlib.py
        self.stdlib_labels = {}
        for n in repo.module(STDLIB).body:
            if isinstance(n, ast.Assign) and len(n.targets) == 1 and isinstance(n.targets[0], ast.Name) \
                    and isinstance(n.value, ast.Call) and src(n.value.func) == 'asm.LabelRef' \
                    and n.value.args and isinstance(n.value.args[0], ast.Constant):
                self.stdlib_labels[n.targets[0].id] = n.value.args[0].value
        # register label refs in CodeGen class body
        self.regs = {}
        for n in repo.find_class(GEN, 'CodeGen').body:
            if isinstance(n, ast.Assign) and len(n.targets) == 1 and isinstance(n.targets[0], ast.Name) \
                    and isinstance(n.value, ast.Call) and src(n.value.func) == 'asm.LabelRef' \
                    and n.value.args and isinstance(n.value.args[0], ast.Constant):
                self.regs[n.targets[0].id] = n.value.args[0].value

    @staticmethod
    def _is_ctxmanager(fn):
        return any('contextmanager' in src(d) for d in fn.decorator_list)

    def _table(self, name):
        """{key text: value text} of a module-level table of generator.py.  A plain dict literal is read from the syntax;
        a table that is computed (built from pairs, merged, comprehended ...) is obtained by interpreting the module
        (CONSTEVAL), keys and values being classes of hidc.ast / hidc.codegen.asm."""
        try:
            node = self.repo.module_assign(GEN, name)
            return {k: v for k, v, _, _ in dict_literal(node, name)}
        except AnalysisError:
            pass
        ns = self.module_ns()
        val = ns.get(name)
        if not isinstance(val, dict) or not val:
            # a table that lives next to the classes it relates (moved to asm.py) is the same table
            val = getattr(ns.get('asm'), name, None)
        if not isinstance(val, dict) or not val:
            raise AnalysisError(f'{name}: cannot determine the table (not a dict after evaluating {GEN})')
        asm_ns, ast_ns = ns.get('asm'), ns.get('ast')

        def text(c):
            nm = getattr(c, '__name__', None)
            if nm is None:
                raise AnalysisError(f'{name}: entry {c!r} is not a class')
            if getattr(asm_ns, nm, None) is c:
                return f'asm.{nm}'
            if getattr(ast_ns, nm, None) is c:
                return f'ast.{nm}'
            raise AnalysisError(f'{name}: entry {nm} is neither an asm nor an ast class')
        return {text(k): text(v) for k, v in val.items()}

    def loop_record(self):
        """What the generator records when it enters a loop, by ROLE rather than by field name (the record class may be a
        dataclass or a NamedTuple, its fields may be renamed, it may store the stack point or only its array count).
        Returns {'cls', 'fields', 'roles': {role: field}, 'arrays_is_count', 'push', 'pop', 'values'} or raises."""
        if getattr(self, '_loop_record', None) is not None:
            return self._loop_record
        rec = None
        for p, ev in self.inlined('gen_block'):
            if p.outcome == 'raise' or not any(e.kind == 'case' and 'LoopBlock' in e.text and not e.origin for e in ev):
                continue
            pushes = [e for e in ev if e.kind == 'call' and e.func in ('.append', '.appendleft') and e.recv is not None
                      and src(e.recv) == 'self.loop_info' and e.args]
            pops = [e for e in ev if e.kind == 'call' and e.func in ('.pop', '.popleft') and e.recv is not None and src(e.recv) == 'self.loop_info']
            attr_proto = None
            if not pushes and not pops:
                # the save / set / restore protocol on one attribute: `saved = self.A; self.A = Record(..); <body>; self.A = saved`
                for i_, e_ in enumerate(ev):
                    if e_.kind == 'assign' and e_.target.startswith('self.') and e_.target.count('.') == 1 and \
                            isinstance(e_.value, (ast.Call, ast.Name)):
                        val_ = e_.value if isinstance(e_.value, ast.Call) else efg.reaching_value(ev, i_, e_.value.id)
                        if not (isinstance(val_, ast.Call) and isinstance(val_.func, ast.Name) and val_.func.id in self.repo.classes(GEN)):
                            continue
                        saves = [j for j in range(i_) if ev[j].kind == 'assign' and src(ev[j].value) == e_.target and
                                 isinstance(ev[j].value, ast.Attribute)]
                        rest = [j for j in range(i_ + 1, len(ev)) if ev[j].kind == 'assign' and ev[j].target == e_.target and saves and
                                isinstance(ev[j].value, ast.Name) and ev[j].value.id == ev[saves[-1]].target]
                        if saves and rest:
                            attr_proto = (e_.target, i_, rest[0], val_)
                            break
            if attr_proto is None and (len(pushes) != 1 or len(pops) != 1):
                continue
            if attr_proto is not None:
                arg, idx = attr_proto[3], attr_proto[1]
            else:
                arg = pushes[0].args[0]
                idx = ev.index(pushes[0])
            if isinstance(arg, ast.Name):
                arg = efg.reaching_value(ev, idx, arg.id)
            if not (isinstance(arg, ast.Call) and isinstance(arg.func, ast.Name)):
                continue
            cname = arg.func.id
            cnode = self.repo.classes(GEN).get(cname)
            if cnode is None:
                continue
            fields = [n.target.id for n in cnode.body if isinstance(n, ast.AnnAssign) and isinstance(n.target, ast.Name)]
            values = {}
            for f, a in zip(fields, arg.args):
                values[f] = efg.expand(ev, idx, a)
            for k in arg.keywords:
                if k.arg:
                    values[k.arg] = efg.expand(ev, idx, k.value)
            roles = {}
            for f, v in values.items():
                if v in ('self.stack', 'self.stack.array_num'):
                    roles['arrays'] = f
                elif v == 'self.effective_defeat':
                    roles['defeat'] = f
                elif v == 'loop_continue':
                    roles['continue'] = f
                elif v == 'loop_break':
                    roles['break'] = f
            rec = {'cls': cname, 'fields': fields, 'values': values, 'roles': roles,
                   'arrays_is_count': values.get(roles.get('arrays')) == 'self.stack.array_num',
                   'push': pushes[0].func if attr_proto is None else 'attr', 'pop': pops[0].func if attr_proto is None else 'attr',
                   'attr': attr_proto[0] if attr_proto is not None else None,
                   'push_index': idx, 'pop_index': ev.index(pops[0]) if attr_proto is None else attr_proto[2], 'events': ev}
            break
        if rec is None:
            raise AnalysisError('loop record: cannot find the record pushed to self.loop_info in the LoopBlock arm of gen_block')
        self._loop_record = rec
        return rec

    def loop_read(self, text, events=None, idx=0):
        """Role of an expression that reads the innermost loop record in an exit arm ('arrays.count', 'defeat', 'continue',
        'break'), or None.  The record may be reached as self.loop_info[-1] (append side) / self.loop_info[0] (appendleft
        side), through a local bound to it, or through a new property that names it."""
        rec = self.loop_record()
        if events is not None:
            text = efg.expand(events, idx, text)
        try:
            node = ast.parse(text, mode='eval').body
        except SyntaxError:
            return None
        chain = []
        while isinstance(node, ast.Attribute):
            chain.append(node.attr)
            node = node.value
        chain.reverse()
        base = src(node)
        if rec['push'] == 'attr' and base == 'self' and chain and f'self.{chain[0]}' == rec['attr']:
            base, chain = rec['attr'], chain[1:]
        want_base = rec['attr'] if rec['push'] == 'attr' else 'self.loop_info[-1]' if rec['push'] == '.append' else 'self.loop_info[0]'
        if base != want_base or not chain:
            return None
        inv = {f: r for r, f in rec['roles'].items()}
        role = inv.get(chain[0])
        if role is None:
            return None
        rest = chain[1:]
        if role == 'arrays':
            if rec['arrays_is_count'] and not rest:
                return 'arrays.count'
            if not rec['arrays_is_count'] and rest == ['array_num']:
                return 'arrays.count'
            return None
        return role if not rest else None

    def layout(self, variable_defeat=True, stack_size=7):
        """The lines CodeGen.gen_lines writes for a small synthetic compilation state (two entry arguments, two state
        and two const data items, two strings, two generated functions), obtained by interpreting gen_lines - the
        method only formats state, whatever helpers it is split into.  Returns the list of bytes lines."""
        cache = self.repo.__dict__.setdefault('_layout', {})
        if (variable_defeat, stack_size) not in cache:
            ns = self.module_ns()
            CG, asm = ns.get('CodeGen'), ns.get('asm')
            L, IL = asm.LabelRef, asm.IntLiteral
            try:
                g = new_codegen(CG)
                g.argv_specs = [b'x word']
                g.word_size = 2
                g.stack_size = stack_size
                g.entry_args = [asm.WordDirective(IL(101)), asm.WordDirective(IL(102))]
                g.state_data = {L('s_b'): asm.ByteDirective(IL(5)), L('s_a'): asm.WordDirective(IL(9), IL(8))}
                g.needs_variable_defeat = variable_defeat
                g.string_labels = {b'zz': L('str_0'), b'a': L('str_1')}
                g.const_data = {L('c_z'): asm.WordDirective(IL(3)), L('c_a'): asm.ZeroDirective(IL(4))}
                g.func_table = {'f': [asm.Label(L('func_f')), asm.Halt()], 'g': [asm.Label(L('func_g')), asm.Jump(L('x'))]}
                res = g.gen_lines()
                lines = [bytes(x) for x in (res.items if hasattr(res, 'items') else res)]
            except AnalysisError:
                raise
            except Exception as e:      # noqa: BLE001
                raise AnalysisError(f'cannot interpret CodeGen.gen_lines: {type(e).__name__}: {e}')
            cache[(variable_defeat, stack_size)] = lines
        return cache[(variable_defeat, stack_size)]

    def module_ns(self):
        """Namespace of generator.py, interpreted (never imported); cached per repository."""
        cache = self.repo.__dict__.setdefault('_gen_ns', {})
        if 'ns' not in cache:
            from .consteval import Interp
            it = Interp(self.repo)
            it.allow_generators = True
            try:
                cache['ns'] = it.load(GEN)
            except AnalysisError:
                raise
            except Exception as e:      # noqa: BLE001
                raise AnalysisError(f'cannot evaluate module {GEN}: {type(e).__name__}: {e}')
            cache['it'] = it
        return cache['ns']

    # ------------------------------------------------------------------
    def paths(self, name):
        if name not in self._paths:
            fn = self.methods.get(name)
            if fn is None:
                raise AnalysisError(f'CodeGen.{name} not found')
            ps = None
            if os.environ.get('HIDVERIF_DEEP') and tuple(self.unroll) == (0, 1, 2):
                try:
                    ps = efg.enumerate_paths(fn, unroll=(0, 1, 2, 3), name=name, max_paths=DEEP_MAX_PATHS)
                    self.deep.add(name)
                except AnalysisError:
                    ps = None       # path set not enumerable at depth 3: stay at the quick tier's depth
            if ps is None:
                ps = efg.enumerate_paths(fn, unroll=self.unroll, name=name)
            inv = self._inverting_methods()
            if inv:
                for p in ps:
                    self._resolve_inverting_calls(p.events, inv)
            self._paths[name] = ps
        return self._paths[name]

    def releasers(self):
        """{method name: index of the parameter it releases}: methods that end the life of a stack bubble by ROLE - they set
        `self.stack = <param>.prev` themselves, or hand their parameter to such a method (pop, pop_value and whatever a
        refactor splits off from them: pop_dynamic, discard, forget ...)."""
        if getattr(self, '_releasers', None) is not None:
            return self._releasers
        out = {}
        for name, fn in self.methods.items():
            params = [a.arg for a in fn.args.args][1:]
            for n in ast.walk(fn):
                if isinstance(n, ast.Assign) and any(src(t) == 'self.stack' for t in n.targets) and isinstance(n.value, ast.Attribute) \
                        and n.value.attr == 'prev' and isinstance(n.value.value, ast.Name) and n.value.value.id in params:
                    out[name] = params.index(n.value.value.id)
        changed = True
        while changed:
            changed = False
            for name, fn in self.methods.items():
                if name in out:
                    continue
                params = [a.arg for a in fn.args.args][1:]
                for n in ast.walk(fn):
                    if isinstance(n, ast.Call) and isinstance(n.func, ast.Attribute) and src(n.func.value) == 'self' and n.func.attr in out:
                        k = out[n.func.attr]
                        if k < len(n.args) and isinstance(n.args[k], ast.Name) and n.args[k].id in params:
                            out[name] = params.index(n.args[k].id)
                            changed = True
                            break
        self._releasers = out
        return out

    def _inverting_methods(self):
        """Names of zero-argument methods of the conditional-halt classes that return the table inverse of the instruction on
        the same operands (e.g. a new `inverted()` next to a relocated inversion table): K(a, b).m() == halt_inversion[K](a, b)
        for every class K of the table, decided by interpreting asm.py.  Empty for today's tree."""
        if getattr(self, '_inv_methods', None) is not None:
            return self._inv_methods
        out = set()
        try:
            ns = self.module_ns()
            asm = ns.get('asm')
            table = ns.get('halt_inversion') or getattr(asm, 'halt_inversion', None)
            CH = getattr(asm, 'ConditionalHalt', None)
            if isinstance(table, dict) and CH is not None:
                cands = {n for k in table for n in dir(k) if not n.startswith('_') and callable(getattr(k, n, None))
                         and n not in ('lines',)}
                a, b = asm.IntLiteral(1), asm.IntLiteral(2)
                for n in sorted(cands):
                    try:
                        if all(getattr(k(a, b), n)() == table[k](a, b) for k in table):
                            out.add(n)
                    except Exception:       # noqa: BLE001
                        continue
        except AnalysisError:
            pass
        self._inv_methods = out
        return out

    @staticmethod
    def _resolve_inverting_calls(events, inv):
        """`yield x.inverted()` where x is bound on this path to Ctor(a, b): recorded as the emission of halt_inversion[Ctor](a, b)."""
        for idx, e in enumerate(events):
            if e.kind != 'emit' or not e.ctor or e.args or '.' not in e.ctor:
                continue
            base, _, meth = e.ctor.rpartition('.')
            if meth not in inv or not base.isidentifier():
                continue
            val = efg.reaching_value(events, idx, base)
            if isinstance(val, ast.Call) and not val.keywords:
                e.ctor = f'halt_inversion[{src(val.func)}]'
                e.args = list(val.args)

    @property
    def gen_methods(self):
        """Generator methods that are analysed on their own.  A *fragment* - a helper that did not exist when the rules
        were written, is spliced into its callers (helpers()) and is only ever called through `yield from` from
        analysed functions - is not: what it emits is judged in the context of every caller."""
        if getattr(self, '_gen_methods', None) is None:
            frag = self.fragments()
            self._gen_methods = {n: f for n, f in self.all_gen_methods.items() if n not in frag}
        return self._gen_methods

    def fragments(self):
        if getattr(self, '_fragments', None) is None:
            spliced = {k[5:] for k in self.helpers()} - set(INLINE_HELPERS)
            frag = set()
            for h in spliced:
                uses = [x for fn in self.methods.values() for x in ast.walk(fn)
                        if isinstance(x, ast.Attribute) and x.attr == h and src(x.value) == 'self']
                calls = [x for fn in self.methods.values() for x in ast.walk(fn)
                         if isinstance(x, ast.YieldFrom) and isinstance(x.value, ast.Call) and src(x.value.func) == f'self.{h}']
                if uses and len(uses) == len(calls):
                    frag.add(h)
            self._fragments = frag
        return self._fragments

    def helpers(self):
        """Helpers whose emissions are spliced into their callers before rules are applied: the three small
        ones of today's tree, plus any generator method that did not exist when the rules were written and is a
        *leaf* (no loops, yields only instructions / other inlined helpers / accessor methods) - e.g. a guard
        extracted into its own method by a refactor."""
        if getattr(self, '_helpers', None) is not None:
            return self._helpers
        names = [n for n in INLINE_HELPERS if n in self.methods]
        from .canon import roles
        known = {k.split('::CodeGen.', 1)[1] for k in roles() if '::CodeGen.' in k} | \
            {'goto', 'mark', 'un_op_reg_arg', 'arith_op_reg_arg', 'get_expr_value', 'pop_value', 'push_value', 'reset_ap', 'pop'}
        changed = True
        while changed:
            changed = False
            for n, fn in self.all_gen_methods.items():
                if n in names or n in known or not roles():
                    continue
                if any(isinstance(x, (ast.For, ast.While)) for x in ast.walk(fn)):
                    continue
                ok = True
                for x in ast.walk(fn):
                    if isinstance(x, ast.YieldFrom) and isinstance(x.value, ast.Call):
                        f = src(x.value.func)
                        # calls of methods the rules know stay opaque `sub` events after splicing; only calls of
                        # other not-yet-inlined new helpers (or of itself) block the splice
                        if f.startswith('self.') and f[5:] not in names and (f[5:] not in known or f[5:] == n):
                            ok = False
                if ok:
                    names.append(n)
                    changed = True
        h = {}
        for name in names:
            h[f'self.{name}'] = (self.methods[name], self.paths(name))
        self._helpers = h
        return h

    def owners(self, allowed):
        """`allowed` plus every helper that is spliced into its callers (see helpers()) and whose every call site lies
        in a function already in the set: what such a helper emits is judged, on every path, by the rules of the
        functions it is spliced into, so it may do what they may do."""
        allowed = set(allowed)
        spliced = {k[5:] for k in self.helpers()}
        changed = True
        while changed:
            changed = False
            for h in spliced - allowed:
                callers = {fname for fname, fn in self.methods.items() for x in ast.walk(fn)
                           if isinstance(x, ast.Call) and src(x.func) == f'self.{h}'}
                if callers and callers <= allowed:
                    allowed.add(h)
                    changed = True
        return allowed

    def inlined(self, name):
        """List of event lists: every path of CodeGen.<name> with small helpers inlined,
        walrus arguments normalised, asm constructor calls dropped."""
        if name not in self._inlined:
            out = []
            helpers = {k: v for k, v in self.helpers().items() if k != f'self.{name}'}
            # code that was moved into a new helper (a fragment) counts as code of the function it is spliced into
            transparent = {f'self.{h}' for h in self.fragments()}
            for p in self.paths(name):
                variants = efg.inline(p.events, helpers, transparent=transparent)
                for evs in variants:
                    out.append((p, [self._norm(e) for e in evs if not self._boring(e)]))
            self._inlined[name] = out
        return self._inlined[name]

    @staticmethod
    def _boring(e):
        if e.kind == 'call' and (e.func.startswith('asm.') or e.func.startswith('ast.')
                                 or e.func in ('isinstance', 'len', 'type', 'tuple', 'list', 'iter',
                                               'zip', 'range', 'int', 'bool', 'all', 'any', 'map',
                                               'ord', 'sum', 'enumerate')):
            return True
        return False

    @staticmethod
    def _norm(e):
        if any(isinstance(a, ast.NamedExpr) for a in e.args):
            e = copy.copy(e)
            e.args = [a.target if isinstance(a, ast.NamedExpr) else a for a in e.args]
        return e

    # ------------------------------------------------------------------
    def ctor_kind(self, events, idx):
        """Classify constructor of emit event: returns (kind, detail)."""
        text = efg.resolve_ctor(events, idx)
        e = events[idx]
        if text.startswith('asm.'):
            return ('cls', text[4:])
        m = text
        if m.startswith('halt_inversion['):
            inner = m[len('halt_inversion['):-1]
            if inner.startswith('asm.') and inner in self.halt_inversion and self.halt_inversion[inner].startswith('asm.'):
                # a literal key (a helper called with a concrete instruction class): the table decides the class
                return ('cls', self.halt_inversion[inner][4:])
            return ('inv', inner)
        if m.startswith('compare_map.get(') or m.startswith('compare_map['):
            return ('tbl', 'compare_map')
        if m.startswith('arith_map.get(') or m.startswith('arith_map['):
            return ('tbl', 'arith_map')
        if m.startswith('section.'):
            return ('sect', m.split('.', 1)[1])
        if m.startswith('param:'):
            return ('param', m[6:])
        return ('other', m)

    def is_cond_halt(self, kind):
        k, d = kind
        if k == 'cls':
            return d in self.cond_halts
        if k == 'inv':
            return True
        if k == 'tbl' and d == 'compare_map':
            return all(v.startswith('asm.') and v[4:] in self.cond_halts for v in self.compare_map.values())
        return False

    def is_halt_class(self, kind):
        return kind == ('cls', 'Halt') or self.is_cond_halt(kind)

    def inverse_of(self, cls):
        v = self.halt_inversion.get(f'asm.{cls}')
        return v[4:] if v and v.startswith('asm.') else None
