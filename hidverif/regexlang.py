"""REGEXLANG: regular-expression language equivalence over a symbolic alphabet.

Patterns are parsed with the standard library's own regex parser (``re._parser``); the syntax
tree is turned into an NFA whose alphabet is: each ASCII character individually, plus four
classes of non-ASCII characters (word-letter, decimal digit, whitespace, other).  Two patterns
are compared by a product search over their lazily determinised automata.  Nothing is matched
against sample strings.
"""
from __future__ import annotations

import re

try:
    from re import _parser as sre_parse
    from re import _constants as sre_constants
except ImportError:   # Python < 3.11
    import sre_parse
    import sre_constants

from .pyfacts import AnalysisError

N_ASCII = 128
U_WORD, U_DIGIT, U_SPACE, U_OTHER = 128, 129, 130, 131
ALPHABET = frozenset(range(132))

_ASCII_DIGIT = frozenset(c for c in range(128) if re.fullmatch(r'\d', chr(c)))
_ASCII_WORD = frozenset(c for c in range(128) if re.fullmatch(r'\w', chr(c)))
_ASCII_SPACE = frozenset(c for c in range(128) if re.fullmatch(r'\s', chr(c)))

CATEGORIES = {
    'CATEGORY_DIGIT': _ASCII_DIGIT | {U_DIGIT},
    'CATEGORY_WORD': _ASCII_WORD | {U_WORD, U_DIGIT},
    'CATEGORY_SPACE': _ASCII_SPACE | {U_SPACE},
}
for _k in list(CATEGORIES):
    CATEGORIES[_k.replace('CATEGORY_', 'CATEGORY_NOT_')] = ALPHABET - CATEGORIES[_k]


def symbol_name(s):
    if s < 128:
        return repr(chr(s))
    return {U_WORD: '<non-ascii letter>', U_DIGIT: '<non-ascii digit>', U_SPACE: '<non-ascii space>',
            U_OTHER: '<other non-ascii>'}[s]


class NFA:
    def __init__(self):
        self.eps = {}
        self.trans = {}
        self.n = 0

    def new(self):
        self.n += 1
        return self.n - 1

    def add_eps(self, a, b):
        self.eps.setdefault(a, set()).add(b)

    def add(self, a, syms, b):
        self.trans.setdefault(a, []).append((frozenset(syms), b))


def _set_of(items):
    out = set()
    negate = False
    for op, av in items:
        name = str(op)
        if name == 'NEGATE':
            negate = True
        elif name == 'LITERAL':
            out.add(av if av < 128 else _classify(av))
        elif name == 'RANGE':
            lo, hi = av
            for c in range(lo, min(hi, 127) + 1):
                out.add(c)
            if hi >= 128:
                if lo <= 128 and hi >= 0x10FFFF:
                    out |= {U_WORD, U_DIGIT, U_SPACE, U_OTHER}
                else:
                    raise AnalysisError(f'regex range {lo:#x}-{hi:#x} partially covers non-ASCII characters: not supported')
        elif name == 'CATEGORY':
            out |= CATEGORIES[str(av)]
        else:
            raise AnalysisError(f'unsupported regex set item {name}')
    return (ALPHABET - out) if negate else out


def _classify(cp):
    ch = chr(cp)
    if re.fullmatch(r'\d', ch):
        return U_DIGIT
    if re.fullmatch(r'\w', ch):
        return U_WORD
    if re.fullmatch(r'\s', ch):
        return U_SPACE
    return U_OTHER


def _build(nfa, items, start):
    """Returns the end state after matching ``items`` from ``start``."""
    cur = start
    for op, av in items:
        name = str(op)
        if name == 'LITERAL':
            nxt = nfa.new()
            nfa.add(cur, {av if av < 128 else _classify(av)}, nxt)
            cur = nxt
        elif name == 'NOT_LITERAL':
            nxt = nfa.new()
            nfa.add(cur, ALPHABET - {av if av < 128 else _classify(av)}, nxt)
            cur = nxt
        elif name == 'ANY':
            nxt = nfa.new()
            nfa.add(cur, ALPHABET - {ord('\n')}, nxt)
            cur = nxt
        elif name == 'IN':
            nxt = nfa.new()
            nfa.add(cur, _set_of(av), nxt)
            cur = nxt
        elif name == 'CATEGORY':
            nxt = nfa.new()
            nfa.add(cur, CATEGORIES[str(av)], nxt)
            cur = nxt
        elif name == 'SUBPATTERN':
            sub = av[-1]
            cur = _build(nfa, sub, cur)
        elif name == 'BRANCH':
            end = nfa.new()
            for alt in av[1]:
                s = nfa.new()
                nfa.add_eps(cur, s)
                e = _build(nfa, alt, s)
                nfa.add_eps(e, end)
            cur = end
        elif name in ('MAX_REPEAT', 'MIN_REPEAT', 'POSSESSIVE_REPEAT'):
            lo, hi, sub = av
            for _ in range(lo):
                cur = _build(nfa, sub, cur)
            if hi == sre_constants.MAXREPEAT:
                loop = nfa.new()
                nfa.add_eps(cur, loop)
                e = _build(nfa, sub, loop)
                nfa.add_eps(e, loop)
                cur = loop
            else:
                end = nfa.new()
                nfa.add_eps(cur, end)
                for _ in range(hi - lo):
                    cur = _build(nfa, sub, cur)
                    nfa.add_eps(cur, end)
                cur = end
        elif name == 'AT':
            raise AnalysisError('anchors are not supported in lexer patterns')
        else:
            raise AnalysisError(f'unsupported regex construct {name}')
    return cur


class Lang:
    def __init__(self, pattern):
        self.pattern = pattern
        try:
            tree = sre_parse.parse(pattern)
        except re.error as e:
            raise AnalysisError(f'cannot parse regex {pattern!r}: {e}')
        self.groups = tree.state.groups - 1
        self.nfa = NFA()
        self.start = self.nfa.new()
        self.accept = _build(self.nfa, tree, self.start)

    def closure(self, states):
        stack = list(states)
        seen = set(states)
        while stack:
            s = stack.pop()
            for t in self.nfa.eps.get(s, ()):
                if t not in seen:
                    seen.add(t)
                    stack.append(t)
        return frozenset(seen)

    def initial(self):
        return self.closure({self.start})

    def step(self, dstate, sym):
        nxt = set()
        for s in dstate:
            for syms, t in self.nfa.trans.get(s, ()):
                if sym in syms:
                    nxt.add(t)
        return self.closure(nxt)

    def accepting(self, dstate):
        return self.accept in dstate

    def first_symbols(self):
        out = set()
        for s in self.initial():
            for syms, t in self.nfa.trans.get(s, ()):
                out |= syms
        return out

    def matches_empty(self):
        return self.accepting(self.initial())


def difference(a: Lang, b: Lang, limit=20000):
    """None if L(a) == L(b); otherwise (word, in_a, in_b) with a shortest distinguishing word."""
    start = (a.initial(), b.initial())
    seen = {start: None}
    queue = [start]
    while queue:
        cur = queue.pop(0)
        sa, sb = cur
        if a.accepting(sa) != b.accepting(sb):
            word = []
            k = cur
            while seen[k] is not None:
                k, sym = seen[k]
                word.append(sym)
            word.reverse()
            return ''.join(symbol_name(s).strip("'") if s < 128 else symbol_name(s) for s in word), a.accepting(sa), b.accepting(sb)
        for sym in sorted(ALPHABET):
            nxt = (a.step(sa, sym), b.step(sb, sym))
            if not nxt[0] and not nxt[1]:
                continue
            if nxt not in seen:
                seen[nxt] = (cur, sym)
                queue.append(nxt)
                if len(seen) > limit:
                    raise AnalysisError('regex product automaton too large')
    return None
