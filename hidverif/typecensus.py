"""Typing census: a catalogue of small programs, parsed and typechecked by the checker's interpreter (hidverif.frontend),
with the verdict the documented typing rules give (accept / reject) and, for accepted ones, a predicate on the typed tree
(which overload a call was bound to, which cast nodes survive, which operators are still there).  The catalogue is written
from the language description, not from the typechecker; each entry names the rule it stands for."""
from __future__ import annotations

from .frontend import Frontend, typecheck, walk_nodes


def nodes(tree, name):
    return [x for x in walk_nodes(tree) if type(x).__name__ == name]


def entry_of(prog):
    for f in prog.func_decls:
        if getattr(f.name, 'base_name', '') == 'is_you':
            return f
    return None


def calls(tree, base):
    return [x for x in nodes(tree, 'FuncCall') if getattr(x.func, 'base_name', None) == base]


def arg_types(call):
    return [str(getattr(a.type, 'value', a.type)) for a in call.args]


def _bound(base, want):
    """Predicate: the (only) call of `base` in the entry function has arguments of these types after coercion."""
    def pred(prog):
        cs = calls(entry_of(prog).body, base)
        if len(cs) != 1:
            return f'{len(cs)} calls of {base} in the typed tree'
        got = arg_types(cs[0])
        return None if got == want else f'{base}(..) is bound with argument types {got}; the rules select {want}'
    return pred


def _has(kind, n=1):
    def pred(prog):
        got = len(nodes(entry_of(prog).body, kind))
        return None if got >= n else f'{got} {kind} nodes left in the typed tree (at least {n} must remain)'
    return pred


def _fn_has(fname, kind, n=1):
    def pred(prog):
        fs = [f for f in prog.func_decls if getattr(f.name, 'base_name', '') == fname]
        if len(fs) != 1:
            return f'function {fname} not found in the typed tree'
        got = len(nodes(fs[0].body, kind))
        return None if got >= n else f'{got} {kind} nodes in the typed body of {fname} (at least {n} must be there)'
    return pred


# (group, rule text, program, verdict, predicate or None)
CATALOGUE = [
    # ---- overload resolution ------------------------------------------------------------------------------------------
    ('overload', 'every argument must be coercible, not only the last one',
     'empty pick(string s, int n) { }\nempty pick(int a, int b) { }\nempty @is_you() { byte x = 1; byte y = 2; pick(x, y); }', True, _bound('pick', ['int', 'int'])),
    ('overload', 'every argument must be coercible, not only the first one',
     'empty pick(int a, string s) { }\nempty pick(int a, int b) { }\nempty @is_you() { byte x = 1; byte y = 2; pick(x, y); }', True, _bound('pick', ['int', 'int'])),
    ('overload', 'an overload of another arity is never chosen',
     'empty show() { }\nempty show(int n) { }\nempty @is_you() { byte b = 3; show(b); }', True, _bound('show', ['int'])),
    ('overload', 'an overload of another arity is never chosen (more parameters)',
     'empty show(int a, int b) { }\nempty show(int n) { }\nempty @is_you() { byte b = 3; show(b); }', True, _bound('show', ['int'])),
    ('overload', 'the exact signature wins over a coercion',
     'empty f(int n) { }\nempty f(byte b) { }\nempty @is_you() { byte b = 3; f(b); }', True, _bound('f', ['byte'])),
    ('overload', 'the exact signature wins over a coercion (declared the other way round)',
     'empty f(byte b) { }\nempty f(int n) { }\nempty @is_you() { int n = 3; f(n); }', True, _bound('f', ['int'])),
    ('overload', 'no overload takes these arguments', 'empty f(int n) { }\nempty @is_you() { f("a"); }', False, None),
    ('overload', 'too many arguments', 'empty f(int n) { }\nempty @is_you() { f(1, 2); }', False, None),
    ('overload', 'too few arguments', 'empty f(int a, int b) { }\nempty @is_you() { f(1); }', False, None),
    ('overload', 'an int variable is not implicitly narrowed', 'empty f(byte b) { }\nempty @is_you() { int n = 3; f(n); }', False, None),
    ('overload', 'unknown function', 'empty @is_you() { nothere(1); }', False, None),
    ('overload', 'a bool is not an int', 'empty f(int n) { }\nempty @is_you() { f(true); }', False, None),
    ('overload', 'recursion between overloads resolves by type',
     'int g(int n) { return n; }\nint g(byte b) { return g(b is int); }\nempty @is_you() { byte b = 1; write(g(b)); }', True, None),
    # ---- return statements ---------------------------------------------------------------------------------------------
    ('return', 'an empty function returns nothing: not even an empty-typed call',
     'empty log(string s) { write(s); }\nempty f() { return log("x"); }\nempty @is_you() { f(); }', False, None),
    ('return', 'an empty function returns nothing: not a builtin empty call either', 'empty f() { return writeln("bye"); }\nempty @is_you() { f(); }', False, None),
    ('return', 'an empty function may return bare', 'empty f() { return; }\nempty @is_you() { f(); }', True, None),
    ('return', 'a value function must return a value', 'int f() { return; }\nempty @is_you() { write(f()); }', False, None),
    ('return', 'the returned value is coerced to the return type', 'int f() { byte b = 1; return b; }\nempty @is_you() { write(f()); }', True, None),
    ('return', 'the returned value must be coercible', 'int f() { return "s"; }\nempty @is_you() { write(f()); }', False, None),
    ('return', 'a bool is not returned as an int', 'int f() { return true; }\nempty @is_you() { write(f()); }', False, None),
    ('return', 'every path of a value function returns', 'int f(int n) { if (n > 0) { return 1; } }\nempty @is_you() { write(f(1)); }', False, None),
    # ---- explicit casts of array literals --------------------------------------------------------------------------------
    ('cast', 'an explicit array cast converts each entry with the explicit cast rules (int variables to byte)',
     'empty @is_you() { int hi = 1; int lo = 2; const byte[] a = [hi, lo] is byte[]; write(a); }', True, None),
    ('cast', 'an explicit array cast converts each entry with the explicit cast rules (ints to bool)',
     'empty @is_you() { const bool[] a = [1, 0] is bool[]; write(a[0]); }', True, None),
    ('cast', 'an explicit array cast converts each entry with the explicit cast rules (bool to int)',
     'empty @is_you() { bool p = true; const int[] a = [p, true] is int[]; write(a[0]); }', True, None),
    ('cast', 'an implicit array literal does not narrow variables', 'empty @is_you() { int hi = 1; const byte[] a = [hi, 2]; write(a); }', False, None),
    ('cast', 'a string is not an int', 'empty @is_you() { int n = "a" is int; write(n); }', False, None),
    # ---- casts survive --------------------------------------------------------------------------------------------------
    ('casts kept', 'narrowing then widening is not the identity: (x is byte) is int keeps the narrowing',
     'empty @is_you() { int x = 300; int y = (x is byte) is int; write(y); }', True, _has('IntToByte')),
    ('casts kept', 'narrowing then widening is not the identity: (x is bool) is int keeps the normalisation',
     'empty @is_you() { int x = 300; int y = (x is bool) is int; write(y); }', True, _has('IntToBool')),
    ('casts kept', 'a narrowing cast of a variable is kept', 'empty @is_you() { int x = 300; byte b = x is byte; write(b is int); }', True, _has('IntToByte')),
    # ---- comparisons of bytes with constants are not folded by a wrong range ----------------------------------------------
    ('compare', 'b < 255 depends on b', 'empty @is_you() { byte b = 255; bool q = b < 255; write(q); }', True, _has('Lt')),
    ('compare', 'b <= 254 depends on b', 'empty @is_you() { byte b = 255; bool q = b <= 254; write(q); }', True, _has('Le')),
    ('compare', 'b > 254 depends on b', 'empty @is_you() { byte b = 255; bool q = b > 254; write(q); }', True, _has('Gt')),
    ('compare', 'b >= 255 depends on b', 'empty @is_you() { byte b = 255; bool q = b >= 255; write(q); }', True, _has('Ge')),
    ('compare', 'b > 0 depends on b', 'empty @is_you() { byte b = 0; bool q = b > 0; write(q); }', True, _has('Gt')),
    ('compare', 'n < 1 depends on n', 'empty @is_you() { int n = 0; bool q = n < 1; write(q); }', True, _has('Lt')),
    # ---- faulting operations survive ---------------------------------------------------------------------------------------
    ('faults kept', '0 / d faults when d is 0', 'empty @is_you() { int d = 0; int n = 0 / d; write(n); }', True, _has('Div')),
    ('faults kept', '0 % d faults when d is 0', 'empty @is_you() { int d = 0; int n = 0 % d; write(n); }', True, _has('Mod')),
    ('faults kept', 'x / x is not 1 when x is 0', 'empty @is_you() { int d = 0; int n = d / d; write(n); }', True, _has('Div')),
    ('faults kept', 'an index into a constant array is checked unless it is a constant in range',
     'empty @is_you() { int i = 5; const int[] a = [1, 2]; write(a[i]); }', True, _has('ArrayLookup')),
    # ---- control never runs off the end of a function -------------------------------------------------------------------------
    ('exit', 'an empty function with an empty body still returns', 'empty f() { }\nempty @is_you() { f(); write(1); }', True, _fn_has('f', 'ReturnStatement')),
    ('exit', 'an empty function falling off its end returns', 'empty f() { write(1); }\nempty @is_you() { f(); }', True, _fn_has('f', 'ReturnStatement')),
    ('exit', 'the entry function returns too', 'empty @is_you() { }', True, _fn_has('is_you', 'ReturnStatement')),
    ('exit', 'a defeat test on a constant false is not an exit: what follows is kept',
     'int !f() { !truth_is_defeat(false); return 1; }\nempty @is_you() { try { write(!f()); } undo { } }', True, _fn_has('f', 'ReturnStatement')),
    ('exit', 'a defeat test on a run-time value is not an exit',
     'int !f(bool q) { !truth_is_defeat(q); return 1; }\nempty @is_you() { try { write(!f(false)); } undo { } }', True, _fn_has('f', 'ReturnStatement')),
    ('exit', 'a value function whose only exit is a defeat test on constant false lacks a return',
     'int !f() { !truth_is_defeat(false); }\nempty @is_you() { try { write(!f()); } undo { } }', False, None),
    ('exit', 'statements after a constant-false if are kept',
     'int f() { if (false) { return 2; } return 1; }\nempty @is_you() { write(f()); }', True, _fn_has('f', 'ReturnStatement')),
    ('exit', 'a loop that can be left by break is followed by live code',
     'int f() { while (true) { break; } return 1; }\nempty @is_you() { write(f()); }', True, _fn_has('f', 'ReturnStatement')),
    # ---- declarations / assignments -----------------------------------------------------------------------------------------
    ('declare', 'a const cannot be assigned', 'empty @is_you() { const int c = 1; c = 2; }', False, None),
    ('declare', 'a local may shadow a global', 'int g = 1;\nempty @is_you() { int g = 2; write(g); }', True, None),
    ('declare', 'a local cannot be declared twice in one scope', 'empty @is_you() { int a = 1; int a = 2; }', False, None),
    ('declare', 'a parameter cannot be redeclared', 'empty f(int a) { int a = 2; }\nempty @is_you() { f(1); }', False, None),
    ('declare', 'use before declaration', 'empty @is_you() { write(a); int a = 1; }', False, None),
    ('declare', 'a byte variable takes a char literal', "empty @is_you() { byte b = 'a'; write(b); }", True, None),
    ('declare', 'a byte variable does not take an int variable', 'empty @is_you() { int n = 1; byte b = n; }', False, None),
    ('declare', 'string elements cannot be assigned', 'empty @is_you() { string s = "hi"; s[0] = \'a\'; }', False, None),
    ('declare', 'a const array element cannot be assigned', 'empty @is_you() { const int[] a = [1, 2]; a[0] = 3; }', False, None),
    ('declare', 'compound assignment keeps the target type', 'empty @is_you() { byte b = 1; b += 1; write(b); }', True, None),
    ('operators', 'arithmetic needs numbers', 'empty @is_you() { int n = 1 + true; }', False, None),
    ('operators', 'comparison of a string and an int', 'empty @is_you() { bool q = "a" < 1; }', False, None),
    ('operators', 'equality of arrays is not defined', 'empty @is_you() { const int[] a = [1]; const int[] b = [1]; bool q = a == b; }', False, None),
    ('operators', 'equality of empty values is not defined', 'empty f() { }\nempty @is_you() { bool q = f() == f(); }', False, None),
    ('operators', 'bool equality is fine', 'empty @is_you() { bool p = true; bool q = p == false; write(q); }', True, None),
]


def run(repo, groups=None):
    """[(group, rule, program, what went wrong)] and the number of programs (of the given groups)."""
    fe = Frontend(repo)
    bad = []
    todo = [c for c in CATALOGUE if groups is None or c[0] in groups]
    for group, rule, prog, accept, pred in todo:
        res = typecheck(fe, prog)
        rejected = isinstance(res, tuple) and res and res[0] == 'error'
        if rejected and res[1] not in ('TypeCheckError', 'ParserError'):
            bad.append((group, rule, prog, f'fails with {res[1]}: {res[2]}'))
            continue
        if rejected and res[1] == 'ParserError':
            bad.append((group, rule, prog, f'the catalogue program does not parse: {res[2]}'))
            continue
        if accept and rejected:
            bad.append((group, rule, prog, f'is rejected ({res[2]}); the rules accept it'))
        elif not accept and not rejected:
            bad.append((group, rule, prog, 'is accepted; the rules reject it'))
        elif accept and pred is not None:
            try:
                why = pred(res)
            except Exception as e:      # noqa: BLE001
                why = f'{type(e).__name__}: {e}'
            if why:
                bad.append((group, rule, prog, why))
    return bad, len(todo)


def decide(repo, chk, rule, groups, file):
    bad, n = run(repo, groups)
    for group, text, prog, why in bad[:6]:
        chk.fail(rule, f'[{group}] {text}', f'`{prog}` {why}', file)
    if not bad:
        chk.ok(rule, f'typing census {sorted(groups) if groups else "all groups"}', f'{n} programs: verdicts and typed trees as the rules say')
    return n
