"""Jump / halt form classification of the stdlib assembly text."""
from __future__ import annotations

from .asmtext import AsmText, COND_HALTS, INVERSE, OBSERVABLE, KNOWN


class TextForms:
    def __init__(self, at: AsmText):
        self.at = at
        self.jumps = {}       # idx -> ('goto', target) | ('branch', target, cc, args)
        self.halt_role = {}   # idx -> role text
        self.problems = []    # (construct, message, lineno)
        self._classify()

    def cname(self, i):
        ins = self.at.ins[i]
        return f'stdlib:{self.at.routine_of(i)}::{ins}'

    def _classify(self):
        at = self.at
        ins = at.ins
        for i, x in enumerate(ins):
            if x.op not in KNOWN:
                self.problems.append((self.cname(i), f'unknown mnemonic {x.op}', x.lineno))
        for i, x in enumerate(ins):
            if x.op != 'j':
                continue
            nxt = ins[i + 1] if i + 1 < len(ins) else None
            tgt = x.args[0] if x.args else ''
            if nxt is None:
                self.problems.append((self.cname(i), 'j is the last instruction', x.lineno))
            elif nxt.op == 'halt' and not nxt.labels or (nxt.op == 'halt' and nxt.labels == ['halt']):
                self.jumps[i] = ('goto', tgt)
                self.halt_role[i + 1] = 'goto'
                if not (tgt in at.labels or tgt.startswith('[')):
                    self.problems.append((self.cname(i), f'goto target {tgt} is not a label of the text', x.lineno))
            elif nxt.op in COND_HALTS and not nxt.labels:
                self.jumps[i] = ('branch', tgt, nxt.op, tuple(nxt.args))
                self.halt_role[i + 1] = 'branch-check'
                if tgt not in at.labels:
                    self.problems.append((self.cname(i), f'branch target {tgt} is not a label', x.lineno))
                    continue
                t = ins[at.labels[tgt]]
                if not (t.op == INVERSE.get(nxt.op) and tuple(t.args) == tuple(nxt.args)):
                    self.problems.append((self.cname(i),
                        f'branch `j {tgt}; {nxt}`: target begins with `{t}` instead of the inverse '
                        f'`{INVERSE.get(nxt.op)} {", ".join(nxt.args)}`', x.lineno))
                else:
                    self.halt_role[at.labels[tgt]] = 'branch-inverse'
            else:
                self.problems.append((self.cname(i),
                    f'`j {tgt}` is followed by `{nxt}`: neither a goto (`j X; halt`) nor a branch '
                    f'(`j L; hcc a,b` with the inverse at L)', x.lineno))
        # every halt-class instruction has a role
        for i, x in enumerate(ins):
            if x.op == 'halt' or x.op in COND_HALTS:
                role = self.halt_role.get(i)
                if role is None:
                    if x.op == 'halt' and 'halt' in x.labels:
                        self.halt_role[i] = 'designated'
                    else:
                        self.problems.append((self.cname(i),
                            f'halt-class instruction `{x}` is not the halt of a goto, the check of a branch, '
                            f'the inverse at a branch target, or the designated halt', x.lineno))
                if self.halt_role.get(i) == 'branch-inverse':
                    # must not be entered by fall-through
                    if i > 0 and not (ins[i - 1].op == 'halt' and self.halt_role.get(i - 1) in ('goto', 'designated')):
                        self.problems.append((self.cname(i),
                            f'branch target `{x}` can be entered by fall-through from `{ins[i-1]}`', x.lineno))
        # designated halt exists exactly once
        des = [i for i, r in self.halt_role.items() if ins[i].op == 'halt' and 'halt' in ins[i].labels]
        if len(des) != 1:
            self.problems.append(('stdlib::halt', f'expected exactly one `halt: halt`, found {len(des)}', 0))

    # ------------------------------------------------------------------
    def lemma_successors(self, i):
        """Successors under lemmas L1 (goto) and L3 (branch); committed halts are 'HALT'."""
        at = self.at
        ins = at.ins
        x = ins[i]
        nxt = i + 1 if i + 1 < len(ins) else 'END'
        if x.op == 'j':
            role = self.jumps.get(i)
            if role is None:
                return ['UNKNOWN']
            if role[0] == 'goto':
                t = role[1]
                return [at.labels[t]] if t in at.labels else ['INDIRECT']
            # branch: either target (after its inverse check) or after the check
            t = role[1]
            after_check = i + 2 if i + 2 < len(ins) else 'END'
            tgt = at.labels.get(t)
            return [tgt + 1 if tgt is not None and tgt + 1 < len(ins) else 'END', after_check]
        if x.op == 'halt' or x.op in COND_HALTS:
            # reached only by fall-through into it (not via its owning j): a committed halt is possible
            return ['HALT', nxt] if x.op != 'halt' else ['HALT']
        return [nxt]

    def reachable(self, label):
        at = self.at
        if label not in at.labels:
            return None
        seen, special = set(), set()
        work = [at.labels[label]]
        while work:
            i = work.pop()
            if not isinstance(i, int):
                special.add(i)
                continue
            if i in seen:
                continue
            seen.add(i)
            work.extend(self.lemma_successors(i))
        return seen, special
