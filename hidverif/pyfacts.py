"""PYFACTS: parse the repository, index classes / functions / tables.

Nothing in here imports the repository.  Everything is read from syntax trees.
"""
from __future__ import annotations

import ast
import os
import hashlib


class AnalysisError(Exception):
    """The analysis cannot be carried out (anchor vanished, unknown shape)."""


def repo_root():
    return os.environ.get('HIDVERIF_REPO', '/repo')


PKG_FILES = [
    'hidc/__main__.py',
    'hidc/errors.py',
    'hidc/ast/__init__.py', 'hidc/ast/abc.py', 'hidc/ast/blocks.py',
    'hidc/ast/expressions.py', 'hidc/ast/operators.py', 'hidc/ast/program.py',
    'hidc/ast/statements.py', 'hidc/ast/symbols.py',
    'hidc/codegen/__init__.py', 'hidc/codegen/asm.py',
    'hidc/codegen/generator.py', 'hidc/codegen/stdlib.py',
    'hidc/codegen/symbols.py', 'hidc/codegen/tracker.py',
    'hidc/lexer/__init__.py', 'hidc/lexer/readers.py',
    'hidc/lexer/scanner.py', 'hidc/lexer/tokens.py',
    'hidc/parser/__init__.py', 'hidc/parser/grammar.py', 'hidc/parser/rules.py',
    'hidc/utils/data_abc.py', 'hidc/utils/lazylist.py',
]


def src(node):
    """Normalised source text of an expression / statement."""
    if node is None:
        return 'None'
    if isinstance(node, str):
        return node
    try:
        return node._src_cache
    except AttributeError:
        pass
    text = ast.unparse(node)
    try:
        node._src_cache = text
    except AttributeError:
        pass
    return text


class Repo:
    def __init__(self, root=None):
        self.root = root or repo_root()
        self.files = {}
        self.sources = {}
        found = []
        for dirpath, dirnames, filenames in os.walk(os.path.join(self.root, 'hidc')):
            dirnames[:] = sorted(d for d in dirnames if d != '__pycache__')
            for fn in sorted(filenames):
                if fn.endswith('.py'):
                    rel = os.path.relpath(os.path.join(dirpath, fn), self.root)
                    found.append(rel)
        if not found:
            raise AnalysisError(f'no python files under {self.root}/hidc')
        for rel in found:
            with open(os.path.join(self.root, rel), 'rb') as f:
                data = f.read()
            try:
                text = data.decode('utf-8')
                tree = ast.parse(text, filename=rel)
            except (SyntaxError, UnicodeDecodeError) as e:
                raise AnalysisError(f'cannot parse {rel}: {e}')
            self.sources[rel] = text
            self.files[rel] = tree
            for node in ast.walk(tree):
                for child in ast.iter_child_nodes(node):
                    child._parent = node
        self._class_index = None

    # ------------------------------------------------------------------
    def digest(self):
        h = hashlib.sha256()
        for rel in sorted(self.sources):
            h.update(rel.encode())
            h.update(self.sources[rel].encode())
        return h.hexdigest()[:16]

    def module(self, rel):
        try:
            return self.files[rel]
        except KeyError:
            raise AnalysisError(f'module {rel} not found in repository')

    def has_module(self, rel):
        return rel in self.files

    # ------------------------------------------------------------------
    def classes(self, rel):
        return {n.name: n for n in self.module(rel).body if isinstance(n, ast.ClassDef)}

    def find_class(self, rel, name):
        c = self.classes(rel).get(name)
        if c is None:
            raise AnalysisError(f'class {name} not found in {rel}')
        return c

    def _canon(self, rel, qual, node):
        """Locals renamed to the names recorded in spec/roles.json (see canon.py); cached."""
        if not isinstance(node, (ast.FunctionDef, ast.AsyncFunctionDef)) or os.environ.get('HIDVERIF_NO_CANON'):
            return node
        cache = self.__dict__.setdefault('_canon_cache', {})
        key = (rel, qual)
        if key not in cache:
            from .canon import canonicalise, roles, signatures
            from .normalise import inline_temporaries, desugar_ifexp, inline_module_constants, module_constants
            rkey = f'{rel}::{qual}'
            out = node
            if not os.environ.get('HIDVERIF_NO_NORMALISE') and roles() and f'{rel}::@module' in roles():
                mc = self.__dict__.setdefault('_module_consts', {})
                if rel not in mc:
                    mc[rel] = module_constants(self.module(rel), set(roles()[f'{rel}::@module']))
                out = inline_module_constants(out, mc[rel])
                from .normalise import unroll_literal_loops, simple_members, inline_simple_members
                out = unroll_literal_loops(out)
                from .normalise import undestructure_class_patterns
                out = undestructure_class_patterns(out)
                if '.' not in qual:
                    from .normalise import inline_statement_calls
                    out = inline_statement_calls(out, self._new_functions(rel, ''), False, self.module(rel))
                if '.' in qual:
                    cname = qual.rsplit('.', 1)[0]
                    from .normalise import inline_statement_calls
                    out = inline_statement_calls(out, self._new_functions(rel, cname), True, self.module(rel))
                    sm = self.__dict__.setdefault('_simple_members', {})
                    if (rel, cname) not in sm:
                        cnode = None
                        body = self.module(rel).body
                        for part in cname.split('.'):
                            cnode = next((n for n in body if isinstance(n, ast.ClassDef) and n.name == part), None)
                            body = cnode.body if cnode is not None else []
                        sm[(rel, cname)] = simple_members(cnode, lambda nm: f'{rel}::{cname}.{nm}' in roles())
                    out = inline_simple_members(out, sm[(rel, cname)])
                    from .normalise import context_managers, inline_context_managers
                    cmk = self.__dict__.setdefault('_ctx_managers', {})
                    if (rel, cname) not in cmk:
                        cnode = None
                        body = self.module(rel).body
                        for part in cname.split('.'):
                            cnode = next((n for n in body if isinstance(n, ast.ClassDef) and n.name == part), None)
                            body = cnode.body if cnode is not None else []
                        cmk[(rel, cname)] = context_managers(cnode, lambda nm: f'{rel}::{cname}.{nm}' in roles())
                    out = inline_context_managers(out, cmk[(rel, cname)])
            if not os.environ.get('HIDVERIF_NO_NORMALISE') and roles():
                table = roles().get(rkey) or {}
                gens = self._generator_names(rel, qual)
                for _ in range(3):
                    # locals the rules may name: the canonical names of this function, and the current names of
                    # locals that are recognised (by their defining expression) as one of them
                    _, _, mapping, _ = signatures(out, table) if table else (None, None, {}, None)
                    known = set(table.values()) | set(mapping)
                    if not table:
                        # a function the table does not know (a helper split off from a known one): the rules may still
                        # name its locals by the names the neighbouring functions use
                        known |= self._names_in_file(rel)
                    new = inline_temporaries(out, known, gens)
                    if new is out:
                        break
                    out = new
            if not os.environ.get('HIDVERIF_NO_NORMALISE') and roles():
                from .normalise import uncollect_generators
                out = uncollect_generators(out, self._generator_names(rel, qual))
            out = canonicalise(out, rkey)
            if not os.environ.get('HIDVERIF_NO_NORMALISE'):
                out = desugar_ifexp(out)
            cache[key] = out
        return cache[key]

    def _new_functions(self, rel, cname):
        """Helpers the role table does not know (module level for cname == '', else methods of the class) that can be
        substituted at their statement calls."""
        from .canon import roles
        from .normalise import module_functions, class_functions
        cache = self.__dict__.setdefault('_new_funcs', {})
        if (rel, cname) not in cache:
            if not roles() or f'{rel}::@module' not in roles() or os.environ.get('HIDVERIF_NO_NORMALISE'):
                cache[(rel, cname)] = {}
            elif not cname:
                from .normalise import only_statement_called
                cands = module_functions(self.module(rel), lambda nm: f'{rel}::{nm}' in roles())
                scope = [n for n in self.module(rel).body if isinstance(n, (ast.FunctionDef, ast.AsyncFunctionDef))]
                cache[(rel, cname)] = only_statement_called(cands, scope, [self.module(rel)], False) if cands else {}
            else:
                cnode = None
                body = self.module(rel).body
                for part in cname.split('.'):
                    cnode = next((n for n in body if isinstance(n, ast.ClassDef) and n.name == part), None)
                    body = cnode.body if cnode is not None else []
                known_class = any(k.startswith(f'{rel}::{cname}.') for k in roles())
                from .normalise import only_statement_called
                cands = class_functions(cnode, lambda nm: f'{rel}::{cname}.{nm}' in roles()) if known_class else {}
                scope = [n for n in cnode.body if isinstance(n, (ast.FunctionDef, ast.AsyncFunctionDef))] if cnode is not None else []
                cache[(rel, cname)] = only_statement_called(cands, scope, list(self.files.values()), True) if cands else {}
        return cache[(rel, cname)]

    def absorbed(self, rel, cname, normalised):
        """New helpers of (rel, cname) whose every use was a statement call that the normal form replaced by the helper's
        body: nothing refers to them any more, what they do is analysed in the context of each former caller."""
        cands = self._new_functions(rel, cname)
        gone = set()
        if not cands:
            return gone
        refs = {}
        for name, fn in normalised.items():
            for x in ast.walk(fn):
                nm = x.attr if isinstance(x, ast.Attribute) else x.id if isinstance(x, ast.Name) else None
                if nm in cands and nm != name:
                    refs.setdefault(nm, set()).add(name)
        # references from elsewhere (other classes / modules, class-level statements) keep a helper alive
        for r2, tree in self.files.items():
            for top in tree.body:
                scope = top.body if isinstance(top, ast.ClassDef) else [top]
                for st in scope:
                    if r2 == rel and isinstance(st, (ast.FunctionDef, ast.AsyncFunctionDef)) and \
                            (top.name if isinstance(top, ast.ClassDef) else '') == cname:
                        continue
                    for x in ast.walk(st):
                        nm = x.attr if isinstance(x, ast.Attribute) else x.id if isinstance(x, ast.Name) else None
                        if nm in cands:
                            refs.setdefault(nm, set()).add(f'{r2}:outside')
        changed = True
        alive = {nm for nm in cands if any(r not in cands for r in refs.get(nm, ()))}
        while changed:
            changed = False
            for nm in cands:
                if nm not in alive and any(r in alive for r in refs.get(nm, ())):
                    alive.add(nm)
                    changed = True
        return {nm for nm in cands if nm not in alive and nm in self._was_called(rel, cname)}

    def _was_called(self, rel, cname):
        cands = self._new_functions(rel, cname)
        out = set()
        for x in ast.walk(self.module(rel)):
            nm = x.attr if isinstance(x, ast.Attribute) else x.id if isinstance(x, ast.Name) else None
            if nm in cands:
                out.add(nm)
        return out

    def _names_in_file(self, rel):
        cache = self.__dict__.setdefault('_file_names', {})
        if rel not in cache:
            from .canon import roles
            names = set()
            for k, t in roles().items():
                if k.startswith(rel + '::'):
                    names |= set(t.values())
            cache[rel] = names
        return cache[rel]

    def _generator_names(self, rel, qual):
        """Names of the generator functions defined next to `qual` (same class, or module level)."""
        cache = self.__dict__.setdefault('_gen_names', {})
        scope = qual.rsplit('.', 1)[0] if '.' in qual else ''
        if (rel, scope) not in cache:
            body = self.module(rel).body
            if scope:
                for part in scope.split('.'):
                    body = next((n.body for n in body if isinstance(n, ast.ClassDef) and n.name == part), [])
            names = set()
            for n in body:
                if isinstance(n, (ast.FunctionDef, ast.AsyncFunctionDef)):
                    for x in ast.walk(n):
                        if isinstance(x, (ast.Yield, ast.YieldFrom)):
                            names.add(n.name)
                            break
            cache[(rel, scope)] = names
        return cache[(rel, scope)]

    def functions(self, rel):
        out = {n.name: self._canon(rel, n.name, n) for n in self.module(rel).body
               if isinstance(n, (ast.FunctionDef, ast.AsyncFunctionDef))}
        gone = self.absorbed(rel, '', out)
        return {k: v for k, v in out.items() if k not in gone}

    def find_func(self, rel, qualname, required=True):
        parts = qualname.split('.')
        body = self.module(rel).body
        node = None
        for i, part in enumerate(parts):
            node = None
            for n in body:
                if isinstance(n, (ast.FunctionDef, ast.AsyncFunctionDef, ast.ClassDef)) and n.name == part:
                    node = n
            if node is None:
                if required:
                    raise AnalysisError(f'{qualname} not found in {rel}')
                return None
            body = node.body
        return self._canon(rel, qualname, node)

    def methods(self, rel, cls):
        c = self.find_class(rel, cls)
        out = {n.name: self._canon(rel, f'{cls}.{n.name}', n) for n in c.body
               if isinstance(n, (ast.FunctionDef, ast.AsyncFunctionDef))}
        gone = self.absorbed(rel, cls, out)
        return {k: v for k, v in out.items() if k not in gone}

    def module_assign(self, rel, name, required=True):
        """Value node of the last top-level assignment ``name = ...``."""
        val = None
        for n in self.module(rel).body:
            if isinstance(n, ast.Assign):
                for t in n.targets:
                    if isinstance(t, ast.Name) and t.id == name:
                        val = n.value
            elif isinstance(n, ast.AnnAssign) and isinstance(n.target, ast.Name) \
                    and n.target.id == name and n.value is not None:
                val = n.value
        if val is None and required:
            raise AnalysisError(f'module-level {name} not found in {rel}')
        return val

    def class_assign(self, rel, cls, name, required=True):
        c = self.find_class(rel, cls)
        val = None
        for n in c.body:
            if isinstance(n, ast.Assign):
                for t in n.targets:
                    if isinstance(t, ast.Name) and t.id == name:
                        val = n.value
            elif isinstance(n, ast.AnnAssign) and isinstance(n.target, ast.Name) \
                    and n.target.id == name and n.value is not None:
                val = n.value
        if val is None and required:
            raise AnalysisError(f'{cls}.{name} not found in {rel}')
        return val

    # ------------------------------------------------------------------
    def class_index(self):
        """name -> list of (rel, ClassDef, [base source strings])."""
        if self._class_index is None:
            idx = {}
            for rel, tree in self.files.items():
                for n in ast.walk(tree):
                    if isinstance(n, ast.ClassDef):
                        idx.setdefault(n.name, []).append(
                            (rel, n, [src(b) for b in n.bases]))
            self._class_index = idx
        return self._class_index

    def subclasses(self, rels, base):
        """Transitive subclasses (by simple name) of ``base`` among classes in rels."""
        rels = [rels] if isinstance(rels, str) else list(rels)
        table = {}
        for rel in rels:
            for n in ast.walk(self.module(rel)):
                if isinstance(n, ast.ClassDef):
                    table[n.name] = [src(b).split('.')[-1] for b in n.bases]
        result = set()
        changed = True
        while changed:
            changed = False
            for name, bases in table.items():
                if name in result:
                    continue
                if any(b == base or b in result for b in bases):
                    result.add(name)
                    changed = True
        return result

    def class_bases(self, rels):
        rels = [rels] if isinstance(rels, str) else list(rels)
        table = {}
        for rel in rels:
            for n in ast.walk(self.module(rel)):
                if isinstance(n, ast.ClassDef):
                    table[n.name] = [src(b).split('.')[-1] for b in n.bases]
        return table

    def enum_members(self, rel, cls):
        """Ordered [(name, value_node)] of simple assignments in an enum class body."""
        c = self.find_class(rel, cls)
        out = []
        for n in c.body:
            if isinstance(n, ast.Assign) and len(n.targets) == 1 \
                    and isinstance(n.targets[0], ast.Name):
                out.append((n.targets[0].id, n.value))
        return out


def dict_literal(node, what='table'):
    """[(key_src, value_src, key_node, value_node)] of a dict display."""
    if not isinstance(node, ast.Dict):
        raise AnalysisError(f'{what} is not a dict display: {src(node)[:60]}')
    out = []
    for k, v in zip(node.keys, node.values):
        if k is None:
            raise AnalysisError(f'{what} uses ** expansion')
        out.append((src(k), src(v), k, v))
    return out


def parent(node):
    return getattr(node, '_parent', None)


def enclosing_function(node):
    p = parent(node)
    while p is not None and not isinstance(p, (ast.FunctionDef, ast.AsyncFunctionDef)):
        p = parent(p)
    return p


def qualname(node):
    names = []
    p = node
    while p is not None:
        if isinstance(p, (ast.FunctionDef, ast.AsyncFunctionDef, ast.ClassDef)):
            names.append(p.name)
        p = parent(p)
    return '.'.join(reversed(names))
