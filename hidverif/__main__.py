"""CLI: python -m hidverif check <ID> --tier quick|thorough

exit 0: property held on everything analysed (known findings printed as KNOWN-FINDING)
exit 1: VIOLATION property=<id> replay=<path>
exit 2: ANALYSIS-ERROR (the analysis itself could not be carried out)
"""
import argparse
import importlib
import os
import sys
import traceback


def main(argv=None):
    ap = argparse.ArgumentParser(prog='hidverif')
    sub = ap.add_subparsers(dest='cmd', required=True)
    c = sub.add_parser('check')
    c.add_argument('prop')
    c.add_argument('--tier', default=os.environ.get('VERIF_TIER', 'quick'),
                   choices=['quick', 'thorough'])
    c.add_argument('--repo', default=None)
    s = sub.add_parser('selftest')
    s.add_argument('props', nargs='*')
    s.add_argument('--jobs', type=int, default=16)
    args = ap.parse_args(argv)

    if args.cmd == 'selftest':
        from . import selftest
        return selftest.main(args.props, args.jobs)

    if args.repo:
        os.environ['HIDVERIF_REPO'] = args.repo
    from .pyfacts import AnalysisError, Repo
    from .report import Check
    prop = args.prop.upper()
    try:
        seed = int(os.environ.get('VERIF_SEED', '0') or 0)
    except ValueError:
        seed = 0
    try:
        if args.tier == 'thorough':
            # thorough: loop bodies of the generator are also followed three times where the path set stays enumerable
            os.environ.setdefault('HIDVERIF_DEEP', '1')
        mod = importlib.import_module(f'hidverif.checks.{prop.lower()}')
        chk = Check(prop, args.tier, seed)
        repo = Repo()
        mod.run(repo, chk)
        if args.tier == 'thorough' and hasattr(mod, 'run_thorough'):
            mod.run_thorough(repo, chk)
        return chk.finish()
    except AnalysisError as e:
        print(f'ANALYSIS-ERROR property={prop}: {e}')
        return 2
    except Exception:
        traceback.print_exc()
        print(f'ANALYSIS-ERROR property={prop}: internal error in the checker (traceback above)')
        return 2


if __name__ == '__main__':
    sys.exit(main())
