"""Condition lowering, decided by its meaning: `CodeGen.bool_expr_branch` / `truth_is_defeat` are interpreted (CONSTEVAL,
eager generators) on small condition trees over opaque atoms, and the emitted instruction list is then *simulated under
the jump / halt lemmas of section 1.1* for every truth assignment of the atoms:

    j L ; halt            goes to L
    j L ; h<cc> a, b      goes to L when <cc>(a, b) holds, otherwise continues behind the conditional halt
    h<cc> a, b  (alone)   halts when <cc>(a, b) holds (a committed halt: never allowed here), otherwise continues

The operand evaluators of the generator (eval_expr / get_expr_value / pop_value) are replaced by stand-ins that emit an
`Eval(atom)` marker and hand back a symbolic value, so what is decided is the control skeleton the lowering builds:
which outcome sequence runs, exactly once, for which truth value; which atoms are evaluated, in which order (left to
right, the right operand of and / or only when needed); and that no path reaches a committed halt or a jump that is not
followed by a halt-class instruction.  Nothing here executes emitted code on a machine; it is a finite evaluation of the
three lemmas over the emitted list."""
from __future__ import annotations

import itertools

from .consteval import EagerGen
from .genfacts import GenFacts, new_codegen


class Mark:
    def __init__(self, name):
        self.name = name

    def __repr__(self):
        return f'Mark({self.name})'


class Eval:
    def __init__(self, atom):
        self.atom = atom

    def __repr__(self):
        return f'Eval({self.atom})'


class Sym:
    """Symbolic run-time value of an atom."""

    def __init__(self, atom):
        self.atom = atom

    def __repr__(self):
        return f'<{self.atom}>'

    def __eq__(self, other):
        return isinstance(other, Sym) and other.atom == self.atom

    def __hash__(self):
        return hash(('Sym', self.atom))


RELATIONS = {'Heq': lambda a, b: a == b, 'Hne': lambda a, b: a != b, 'Hlt': lambda a, b: a < b, 'Hgt': lambda a, b: a > b,
             'Hle': lambda a, b: a <= b, 'Hge': lambda a, b: a >= b}


class Lowering:
    def __init__(self, repo):
        self.gf = GenFacts(repo)
        self.ns = self.gf.module_ns()
        self.it = repo.__dict__['_gen_ns']['it']
        lex = self.it.load('hidc/lexer/__init__.py')
        self.span = lex['Span'](lex['Cursor'](0, 0), lex['Cursor'](0, 1))
        self.asm, self.A, self.DT = self.ns['asm'], self.ns['ast'], self.ns['DataType']

    # ---- condition trees: ('atom', name) | ('cmp', Cls, x, y) | ('const', bool) | ('not', e) | ('and', l, r) | ('or', l, r)
    def build(self, e):
        node = self._build(e)
        self.trees = getattr(self, 'trees', {})
        self.trees[id(node)] = (e, node)
        return node

    def _build(self, e):
        A, DT, sp = self.A, self.DT, self.span
        k = e[0]
        if k == 'atom':
            return A.VariableLookup(A.Variable(e[1], DT.BOOL, False), sp)
        if k == 'cmp':
            return getattr(A, e[1])(sp, A.VariableLookup(A.Variable(e[2], DT.INT, False), sp), A.VariableLookup(A.Variable(e[3], DT.INT, False), sp))
        if k == 'const':
            return A.BoolValue(e[1], sp)
        if k == 'tobool':
            return A.IntToBool(self.build(e[1]))
        if k == 'ivar':
            return A.VariableLookup(A.Variable(e[1], DT.INT, False), sp)
        if k == 'tobyte':
            return A.IntToByte(self.build(e[1]))
        if k == 'widen':
            return A.ByteToInt(self.build(e[1]))
        if k == 'not':
            return A.Not(sp, self.build(e[1]))
        if k == 'and':
            return A.And(sp, self.build(e[1]), self.build(e[2]))
        if k == 'or':
            return A.Or(sp, self.build(e[1]), self.build(e[2]))
        raise ValueError(e)

    def codegen(self, virtual_defeat=False):
        g = new_codegen(self.ns['CodeGen'])
        g.word_size = 2
        g.unchecked = False
        asm = self.asm

        def name_of(expr):
            v = getattr(expr, 'var', None)
            if getattr(v, 'name', None):
                return v.name
            # a whole sub-condition handed to a value evaluator: it is evaluated there, by the language's rules
            hit = getattr(self, 'trees', {}).get(id(expr))
            if hit is not None:
                return ('expr', hit[0])
            return type(expr).__name__

        def eval_expr(r_out, expr, keep=False, **kw):
            out = EagerGen()
            out.items = [Eval(name_of(expr))]
            out.value = ('bubble', name_of(expr))
            return out

        def get_expr_value(r_out, expr, **kw):
            out = EagerGen()
            out.items = [Eval(name_of(expr))]
            out.value = Sym(name_of(expr))
            return out

        def pop_value(r_out, bubble, **kw):
            out = EagerGen()
            out.value = Sym(bubble[1])
            return out
        g.eval_expr, g.get_expr_value, g.pop_value = eval_expr, get_expr_value, pop_value
        halt = self.ns['stdlib'].halt
        g.effective_defeat = asm.State(asm.LabelRef('defeat')) if virtual_defeat else halt
        g.func_defeat = halt        # (a try/stop body of a you-function: the function's own defeat is the real halt)
        return g

    def branch(self, e, t_goto, f_goto):
        """Instruction list of bool_expr_branch(e, if_true, if_false); outcomes are markers or gotos to outside labels."""
        g = self.codegen()
        asm = self.asm
        if_true = tuple(g.goto(asm.LabelRef('OUT_T'))) if t_goto else (Mark('T'),)
        if_false = tuple(g.goto(asm.LabelRef('OUT_F'))) if f_goto else (Mark('F'),)
        res = g.bool_expr_branch(self.build(e), if_true, if_false)
        return list(res.items)

    def defeat(self, e, virtual):
        g = self.codegen(virtual)
        res = g.truth_is_defeat(self.build(e))
        return list(res.items)


def ival(e, env, evals):
    k = e[0]
    if k == 'ivar':
        evals.append(e[1])
        return env[e[1]]
    if k == 'tobyte':
        return ival(e[1], env, evals) & 0xFF
    if k == 'widen':
        return ival(e[1], env, evals)
    raise ValueError(e)


def truth(e, env, evals):
    k = e[0]
    if k in ('ivar', 'tobyte', 'widen'):
        return ival(e, env, evals)      # (an int-valued sub-expression handed to a value evaluator)
    if k == 'tobool':
        return ival(e[1], env, evals) != 0
    if k == 'atom':
        evals.append(e[1])
        return bool(env[e[1]])
    if k == 'cmp':
        evals += [e[2], e[3]]
        return RELATIONS['H' + {'Eq': 'eq', 'Ne': 'ne', 'Lt': 'lt', 'Gt': 'gt', 'Le': 'le', 'Ge': 'ge'}[e[1]]](env[e[2]], env[e[3]])
    if k == 'const':
        return e[1]
    if k == 'not':
        return not truth(e[1], env, evals)
    if k == 'and':
        return truth(e[1], env, evals) and truth(e[2], env, evals)
    if k == 'or':
        return truth(e[1], env, evals) or truth(e[2], env, evals)
    raise ValueError(e)


def atoms_of(e, out=None):
    out = [] if out is None else out
    if e[0] == 'atom':
        out.append(('bool', e[1]))
    elif e[0] == 'cmp':
        out += [('int', e[2]), ('int', e[3])]
    elif e[0] == 'ivar':
        out.append(('wide', e[1]))
    elif e[0] in ('not', 'tobool', 'tobyte', 'widen'):
        atoms_of(e[1], out)
    elif e[0] in ('and', 'or'):
        atoms_of(e[1], out)
        atoms_of(e[2], out)
    return out


def assignments(e):
    seen = []
    for kind, name in atoms_of(e):
        if (kind, name) not in seen:
            seen.append((kind, name))
    doms = [(0, 1) if kind == 'bool' else (0, 1, 256) if kind == 'wide' else (0, 1, 2) for kind, _ in seen]
    for vals in itertools.product(*doms):
        yield dict(zip([n for _, n in seen], vals))


def simulate(items, env, limit=400):
    """(exit, marks, evals): exit is 'end', 'goto:<label>', 'HALT', 'BADFORM:<why>' or 'LOOP'."""
    def cname(x):
        return type(x).__name__
    labels = {}
    for i, x in enumerate(items):
        if cname(x) == 'Label':
            labels[x.label.label_name] = i
    marks, evals = [], []

    def val(op):
        if isinstance(op, Sym):
            if isinstance(op.atom, tuple) and op.atom[0] == 'expr':
                v_ = truth(op.atom[1], env, [])
                return int(v_)
            return env[op.atom]
        if cname(op) == 'IntLiteral':
            return op.data
        raise KeyError(f'operand {op!r}')

    def target(addr):
        if cname(addr) == 'LabelRef':
            return addr.label_name
        if cname(addr) == 'State' and cname(addr.immed) == 'LabelRef':
            return '[' + addr.immed.label_name + ']'
        return repr(addr)
    pc = 0
    for _ in range(limit):
        if pc >= len(items):
            return 'end', marks, evals
        x = items[pc]
        n = cname(x)
        if isinstance(x, Mark):
            marks.append(x.name)
            pc += 1
        elif isinstance(x, Eval):
            if isinstance(x.atom, tuple) and x.atom[0] == 'expr':
                truth(x.atom[1], env, evals)
            else:
                evals.append(x.atom)
            pc += 1
        elif n in ('Label', 'Metadata'):
            pc += 1
        elif n == 'Jump':
            j = pc + 1
            while j < len(items) and cname(items[j]) == 'Metadata':
                j += 1
            if j >= len(items):
                return 'BADFORM:jump at the end of the sequence', marks, evals
            nxt = items[j]
            nn = cname(nxt)
            if nn == 'Halt':
                taken = True
            elif nn in RELATIONS:
                try:
                    taken = RELATIONS[nn](val(nxt.left), val(nxt.right))
                except KeyError as e:
                    return f'BADFORM:{e}', marks, evals
            else:
                return f'BADFORM:jump followed by {nn}', marks, evals
            if taken:
                t = target(x.addr)
                if t in labels:
                    pc = labels[t]
                else:
                    return f'goto:{t}', marks, evals
            else:
                pc = j + 1
        elif n == 'Halt':
            return 'HALT', marks, evals
        elif n in RELATIONS:
            try:
                if RELATIONS[n](val(x.left), val(x.right)):
                    return 'HALT', marks, evals
            except KeyError as e:
                return f'BADFORM:{e}', marks, evals
            pc += 1
        else:
            return f'BADFORM:unexpected {n}', marks, evals
    return 'LOOP', marks, evals


def trees(depth2):
    base = [('atom', 'p'), ('atom', 'q'), ('cmp', 'Lt', 'x', 'y'), ('cmp', 'Eq', 'x', 'y'), ('const', True), ('const', False)]
    cmps = [('cmp', c, 'x', 'y') for c in ('Ne', 'Gt', 'Le', 'Ge')]
    # casts: the truthiness of an int, of an int narrowed to a byte (256 is 0 there), of a double cast; also below `not` / `and`
    casts = [('tobool', ('ivar', 'n')), ('tobool', ('widen', ('tobyte', ('ivar', 'n'))))]
    cmps = cmps + casts + [('not', c) for c in casts] + [('and', casts[1], ('atom', 'p')), ('or', ('atom', 'p'), casts[1])]
    d1 = [('not', b) for b in base] + [(op, l, r) for op in ('and', 'or') for l in base for r in base]
    out = base + cmps + d1
    reps = [('atom', 'p'), ('cmp', 'Lt', 'x', 'y'), ('const', True), ('const', False), ('not', ('atom', 'q')), ('and', ('atom', 'q'), ('atom', 'r')),
            ('or', ('atom', 'q'), ('atom', 'r')), ('not', ('cmp', 'Ge', 'x', 'y')), ('and', ('cmp', 'Lt', 'x', 'y'), ('atom', 'r')),
            ('or', ('const', False), ('atom', 'r'))]
    if depth2:
        out += [('not', r) for r in reps[4:]] + [(op, l, r) for op in ('and', 'or') for l in reps for r in reps]
        out += [('and', ('or', ('atom', 'p'), ('atom', 'q')), ('not', ('and', ('atom', 'r'), ('cmp', 'Le', 'x', 'y')))),
                ('or', ('and', ('not', ('atom', 'p')), ('atom', 'q')), ('and', ('atom', 'p'), ('not', ('atom', 'q')))),
                ('not', ('not', ('not', ('atom', 'p'))))]
    else:
        out += [('and', ('or', ('atom', 'p'), ('atom', 'q')), ('not', ('atom', 'r'))), ('or', ('and', ('atom', 'p'), ('atom', 'q')), ('atom', 'r')),
                ('not', ('and', ('atom', 'p'), ('cmp', 'Lt', 'x', 'y'))), ('and', ('atom', 'p'), ('and', ('atom', 'q'), ('atom', 'r'))),
                ('or', ('atom', 'p'), ('or', ('atom', 'q'), ('atom', 'r'))), ('not', ('not', ('atom', 'p')))]
    return out


def show(e):
    k = e[0]
    if k == 'atom':
        return e[1]
    if k == 'cmp':
        return f'{e[2]} {e[1]} {e[3]}'
    if k == 'const':
        return 'true' if e[1] else 'false'
    if k == 'ivar':
        return e[1]
    if k in ('tobool', 'tobyte', 'widen'):
        return f'{k}({show(e[1])})'
    if k == 'not':
        return f'not ({show(e[1])})'
    return f'({show(e[1])}) {k} ({show(e[2])})'


def run_branch(repo, depth2=False):
    """[(tree, variant, assignment, what)] disagreements of bool_expr_branch with the meaning of the condition; counts."""
    low = Lowering(repo)
    bad = []
    n_low = n_sim = 0
    for e in trees(depth2):
        for t_goto, f_goto in ((False, False), (True, False), (False, True), (True, True)):
            try:
                items = low.branch(e, t_goto, f_goto)
            except Exception as ex:      # noqa: BLE001
                bad.append((show(e), (t_goto, f_goto), None, f'cannot interpret the lowering: {type(ex).__name__}: {str(ex)[:120]}'))
                continue
            n_low += 1
            for env in assignments(e):
                ev = []
                t = truth(e, env, ev)
                exit_, marks, evals = simulate(items, env)
                n_sim += 1
                if t:
                    want = ('goto:OUT_T', []) if t_goto else ('end', ['T'])
                else:
                    want = ('goto:OUT_F', []) if f_goto else ('end', ['F'])
                if (exit_, marks) != want:
                    bad.append((show(e), (t_goto, f_goto), env, f'condition is {t}: control ends with {exit_} after outcomes {marks}; expected {want[0]} after {want[1]}'))
                elif evals != ev:
                    bad.append((show(e), (t_goto, f_goto), env, f'operands evaluated {evals}; the language evaluates {ev} (left to right, short circuit)'))
    return bad, n_low, n_sim


def run_defeat(repo, depth2=False):
    low = Lowering(repo)
    bad = []
    n_low = n_sim = 0
    for e in trees(depth2):
        for virtual in (False, True):
            try:
                items = low.defeat(e, virtual)
            except Exception as ex:      # noqa: BLE001
                bad.append((show(e), virtual, None, f'cannot interpret the lowering: {type(ex).__name__}: {str(ex)[:120]}'))
                continue
            n_low += 1
            for env in assignments(e):
                ev = []
                t = truth(e, env, ev)
                exit_, marks, evals = simulate(items, env)
                n_sim += 1
                want = ('goto:[defeat]' if virtual else 'HALT') if t else 'end'
                if exit_ != want:
                    bad.append((show(e), virtual, env, f'condition is {t}: control ends with {exit_}; expected {want}'))
                elif evals[:len(ev)] != ev and evals != ev:
                    bad.append((show(e), virtual, env, f'operands evaluated {evals}; the language evaluates {ev}'))
    return bad, n_low, n_sim


def decide(repo, chk, rule_branch, rule_defeat, file):
    """Run both tables and report under the given rule ids."""
    depth2 = getattr(chk, 'tier', 'quick') == 'thorough'
    bad, n_low, n_sim = run_branch(repo, depth2)
    for tree, variant, env, what in bad[:5]:
        chk.fail(rule_branch, f'bool_expr_branch[{tree}] outcomes(goto true, goto false)={variant}',
                 (f'under {env}: ' if env is not None else '') + what, file)
    if not bad:
        chk.ok(rule_branch, 'bool_expr_branch: meaning of the lowering',
               f'{n_low} lowerings x truth assignments = {n_sim} simulations: the right outcome runs exactly once, operands are evaluated '
               'left to right with short circuit, no committed halt')
    bad2, n_low2, n_sim2 = run_defeat(repo, depth2)
    for tree, virtual, env, what in bad2[:5]:
        chk.fail(rule_defeat, f'truth_is_defeat[{tree}] defeat {"virtualised" if virtual else "is halt"}',
                 (f'under {env}: ' if env is not None else '') + what, file)
    if not bad2:
        chk.ok(rule_defeat, 'truth_is_defeat: meaning of the lowering', f'{n_low2} lowerings, {n_sim2} simulations: defeat iff the condition holds')
    return n_sim + n_sim2
