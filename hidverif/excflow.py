"""EXCFLOW: may-raise / exception-escape analysis over the whole hidc package.

Call resolution is by name over the class hierarchy (over-approximation): ``x.f()`` may call any
method ``f``; ``f()`` the module-level function ``f`` of any module.  Sources of exceptions:
explicit ``raise``; a table of *partial builtins* at call sites (operations that can raise for
some inputs a user controls); ``assert`` is reported separately.  Exceptions are filtered through
the ``except`` clauses that enclose the raise site / call site in the same function.
"""
from __future__ import annotations

import ast
import builtins
from dataclasses import dataclass

from .pyfacts import AnalysisError, src, parent

REPO_EXC_BASES = {
    'CompilerError': 'Exception', 'LexerError': 'CompilerError', 'ParserError': 'CompilerError',
    'TypeCheckError': 'CompilerError', 'CodeGenError': 'CompilerError', 'InternalCompilerError': 'Exception',
}


def exc_bases(repo):
    bases = {}
    for n in ast.walk(repo.module('hidc/errors.py')):
        if isinstance(n, ast.ClassDef):
            bases[n.name] = [src(b) for b in n.bases][0] if n.bases else 'object'
    return bases


def is_subclass(name, of, bases):
    """name, of: exception class names (repo or builtin)."""
    seen = set()
    cur = name
    while cur and cur not in seen:
        if cur == of:
            return True
        seen.add(cur)
        if cur in bases:
            cur = bases[cur]
            continue
        b = getattr(builtins, cur, None)
        o = getattr(builtins, of, None)
        if isinstance(b, type) and isinstance(o, type):
            return issubclass(b, o)
        if isinstance(b, type):
            # `of` is a repo class: a builtin is never a subclass of it
            return False
        return False
    return False


@dataclass(frozen=True)
class Site:
    rel: str
    func: str
    line: int
    exc: str
    what: str      # description of the raising construct
    kind: str      # raise | partial | assert


def handlers_of(node, fn):
    """List of lists of exception names caught by try statements enclosing ``node`` within ``fn`` (innermost first).
    Only handlers of try blocks whose *body* contains the node count."""
    out = []
    child = node
    p = parent(node)
    while p is not None and p is not fn:
        if isinstance(p, ast.Try) and any(child is s or _contains(s, child) for s in p.body):
            names = []
            for h in p.handlers:
                if h.type is None:
                    names.append('BaseException')
                elif isinstance(h.type, ast.Tuple):
                    names += [src(e).split('.')[-1] for e in h.type.elts]
                else:
                    names.append(src(h.type).split('.')[-1])
            out.append(names)
        child = p
        p = parent(p)
    return out


def _contains(root, node):
    return any(n is node for n in ast.walk(root))


def caught(exc, handler_lists, bases):
    for names in handler_lists:
        for h in names:
            if is_subclass(exc, h, bases):
                return True
    return False


# ---------------------------------------------------------------------------------------------
# partial builtins: (description, exception classes) recognised at call sites

def partial_sites(call: ast.Call):
    """Exceptions a builtin call may raise for inputs the user controls."""
    f = src(call.func)
    out = []
    if f == 'int' and len(call.args) == 2:
        base = src(call.args[1])
        if base not in ('2', '4', '8', '16', '32'):
            out.append(('ValueError', f'int(<text>, {base}) raises ValueError beyond the integer string conversion limit '
                                      '(4300 digits); only power-of-two bases are exempt'))
    if f == 'chr' and call.args:
        out.append(('OverflowError', 'chr(n) raises OverflowError (not ValueError) when n does not fit a C int'))
        out.append(('ValueError', 'chr(n) raises ValueError outside range(0x110000)'))
    if f == 'str' and len(call.args) == 1 and not isinstance(call.args[0], ast.Constant):
        a = src(call.args[0])
        if a.endswith('.data') or a in ('data', 'self._data', 'self.words', 'word_size', 'self.word_size'):
            if a.endswith('.data'):
                out.append(('ValueError', 'str(<int>) raises ValueError for integers of more than 4300 decimal digits '
                                          '(a long hexadecimal literal is enough)'))
    # not in the table (reasons): bytes([n]) - n is a byte iterated from a bytes object, a two-digit hex value, or
    # range-checked; str.encode('utf-8') - text decoded from a UTF-8 file contains no lone surrogates, and the one
    # place where an escape can create one (chr of a \u{...} escape) is wrapped in except UnicodeEncodeError (C12.R2)
    if f == 'open':
        mode = src(call.args[1]) if len(call.args) > 1 else "'r'"
        out.append(('OSError', 'open() raises OSError'))
        if 'b' not in mode:
            out.append(('UnicodeDecodeError', 'reading a text-mode file raises UnicodeDecodeError on bytes that are not valid UTF-8'))
    if f == 'next' and len(call.args) == 1:
        out.append(('StopIteration', 'next() without default'))
    return out


class ExcFlow:
    def __init__(self, repo):
        self.repo = repo
        self.bases = dict(REPO_EXC_BASES)
        self.bases.update(exc_bases(repo))
        self.funcs = {}       # qualname key (rel, qual) -> FunctionDef
        self.by_name = {}     # simple name -> [(rel, qual)]
        for rel, tree in repo.files.items():
            for n in ast.walk(tree):
                if isinstance(n, (ast.FunctionDef, ast.AsyncFunctionDef)):
                    q = self._qual(n)
                    # the normal form of the function (new temporaries / constants spelled out, literal loops unrolled,
                    # see normalise.py) - what a call may raise does not depend on how its operands are named
                    try:
                        self.funcs[(rel, q)] = repo._canon(rel, q, n) if '<' not in q else n
                    except Exception:      # noqa: BLE001
                        self.funcs[(rel, q)] = n
                    self.by_name.setdefault(n.name, []).append((rel, q))
        self.class_names = {n.name for tree in repo.files.values() for n in ast.walk(tree) if isinstance(n, ast.ClassDef)}
        # functions whose address is taken (stored in a list, passed as an argument): reachable through calls
        # whose callee name does not resolve (e.g. `reader(scan)` over the list of token readers)
        self.address_taken = set()
        for rel, tree in repo.files.items():
            for n in ast.walk(tree):
                nm = None
                if isinstance(n, ast.Attribute) and isinstance(n.ctx, ast.Load):
                    nm = n.attr
                elif isinstance(n, ast.Name) and isinstance(n.ctx, ast.Load):
                    nm = n.id
                if nm and nm in self.by_name:
                    p = parent(n)
                    if isinstance(p, ast.Call) and p.func is n:
                        continue
                    if isinstance(p, (ast.List, ast.Tuple, ast.Dict, ast.Set)):
                        for k in self.by_name[nm]:
                            self.address_taken.add(k)
        self.own = {}
        self.calls = {}
        for key, fn in self.funcs.items():
            self._scan(key, fn)
        self.escapes = self._fixpoint()

    @staticmethod
    def _qual(node):
        names = []
        p = node
        while p is not None:
            if isinstance(p, (ast.FunctionDef, ast.AsyncFunctionDef, ast.ClassDef)):
                names.append(p.name)
            p = parent(p)
        return '.'.join(reversed(names))

    def _own_nodes(self, fn):
        """Nodes of fn excluding nested function/class bodies."""
        stack = list(fn.body)
        while stack:
            n = stack.pop()
            yield n
            for c in ast.iter_child_nodes(n):
                if isinstance(c, (ast.FunctionDef, ast.AsyncFunctionDef, ast.ClassDef, ast.Lambda)):
                    continue
                stack.append(c)

    def _scan(self, key, fn):
        rel, q = key
        own = []
        calls = []
        for n in self._own_nodes(fn):
            if isinstance(n, ast.Raise) and n.exc is not None:
                e = n.exc
                name = None
                if isinstance(e, ast.Call):
                    f = src(e.func)
                    name = f.split('.')[0] if f.split('.')[0] in self.bases or hasattr(builtins, f.split('.')[0]) else None
                    if name is None and isinstance(e.func, ast.Name):
                        name = e.func.id
                    if isinstance(e.func, ast.Attribute) and src(e.func.value) in self.bases:
                        name = src(e.func.value)          # LexerError.unhelpful(...)
                elif isinstance(e, ast.Name):
                    name = e.id
                elif isinstance(e, ast.Await):
                    inner = e.value
                    if isinstance(inner, ast.Call) and isinstance(inner.func, ast.Attribute) and src(inner.func.value) in self.bases:
                        name = src(inner.func.value)      # raise await ParserError.expected(...)
                if name is None:
                    name = 'Exception'
                if name in self.bases or isinstance(getattr(builtins, name, None), type):
                    h = handlers_of(n, fn)
                    if not caught(name, h, self.bases):
                        own.append(Site(rel, q, n.lineno, name, f'raise {src(e)[:60]}', 'raise'))
                else:
                    # re-raise of a caught variable etc.
                    pass
            elif isinstance(n, ast.Assert):
                if isinstance(n.test, ast.Constant) and not n.test.value:
                    own.append(Site(rel, q, n.lineno, 'AssertionError', 'assert False', 'assert'))
                else:
                    own.append(Site(rel, q, n.lineno, 'AssertionError', f'assert {src(n.test)[:60]}', 'assert'))
            elif isinstance(n, ast.Call):
                h = handlers_of(n, fn)
                for exc, what in partial_sites(n):
                    if not caught(exc, h, self.bases):
                        own.append(Site(rel, q, n.lineno, exc, what, 'partial'))
                # callee names
                f = n.func
                if isinstance(f, ast.Name):
                    if f.id not in self.by_name and f.id not in self.class_names and not hasattr(builtins, f.id):
                        calls.append(('<indirect>', n, h))     # call through a variable
                    else:
                        calls.append((f.id, n, h))
                elif isinstance(f, ast.Attribute):
                    calls.append((f.attr, n, h))
            elif isinstance(n, ast.For) and isinstance(n.iter, ast.Name) and n.iter.id == 'file':
                pass
        self.own[key] = own
        self.calls[key] = calls

    def _callees(self, name):
        out = list(self.by_name.get(name, []))
        if name == '<indirect>':
            return list(self.address_taken)
        if name in self.class_names:
            out += self.by_name.get('__init__', []) and [k for k in self.by_name.get('__init__', []) if k[1].startswith(name + '.')] or []
            out += [k for k in self.by_name.get('__post_init__', []) if k[1].startswith(name + '.')]
        return out

    def _fixpoint(self):
        esc = {k: set(v) for k, v in self.own.items()}
        changed = True
        rounds = 0
        while changed:
            changed = False
            rounds += 1
            for key in self.funcs:
                cur = esc[key]
                for name, node, h in self.calls[key]:
                    for ck in self._callees(name):
                        for s in esc.get(ck, ()):
                            if s in cur:
                                continue
                            if s.kind == 'assert':
                                if caught('AssertionError', h, self.bases):
                                    continue
                            elif caught(s.exc, h, self.bases):
                                continue
                            cur.add(s)
                            changed = True
            if rounds > 50:
                raise AnalysisError('exception-flow fixpoint did not converge')
        return esc
