#!/usr/bin/env python3
"""Developer aid: apply one textual edit to a scratch copy of /repo/hidc and run checks on it.

usage: try_mutation.py <props,comma> <relfile> <old> <new> [--count N]
The scratch copy lives under $TMPDIR and is removed afterwards.
"""
import os
import shutil
import subprocess
import sys
import tempfile


def main():
    props, rel, old, new = sys.argv[1:5]
    d = tempfile.mkdtemp(prefix='hidverif-mut-')
    try:
        shutil.copytree('/repo/hidc', os.path.join(d, 'hidc'))
        p = os.path.join(d, rel)
        s = open(p).read()
        if s.count(old) != 1:
            print(f'old text occurs {s.count(old)} times (need exactly 1)')
            return 3
        open(p, 'w').write(s.replace(old, new))
        rc = 0
        for prop in props.split(','):
            env = dict(os.environ, HIDVERIF_REPO=d, HIDVERIF_EVIDENCE_DIR=os.path.join(d, 'evidence'))
            r = subprocess.run(['/venv/bin/python', '-m', 'hidverif', 'check', prop], cwd='/verif', env=env,
                               capture_output=True, text=True)
            lines = [l for l in r.stdout.splitlines() if l.startswith(('VIOLATION', '  rule=', 'ANALYSIS', 'KNOWN'))
                     or (l.startswith('  ') and not l.startswith('  C'))]
            print(f'--- {prop}: exit {r.returncode}')
            print('\n'.join(lines[:12]))
            if r.returncode not in (0, 1):
                print(r.stdout[-1500:], r.stderr[-1500:])
            rc = max(rc, r.returncode)
        return rc
    finally:
        shutil.rmtree(d, ignore_errors=True)


if __name__ == '__main__':
    sys.exit(main())
