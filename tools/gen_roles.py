#!/usr/bin/env python3
"""Regenerate /verif/spec/roles.json: for every function of the analysed modules, the map
   <defining-expression signature> -> <local variable name as used in the rules>.
Run against the tree the rules were written for (the current /repo)."""
import ast
import json
import os
import sys

ROOT = os.path.dirname(os.path.dirname(os.path.abspath(__file__)))
sys.path.insert(0, ROOT)
os.environ['HIDVERIF_NO_CANON'] = '1'
from hidverif.pyfacts import Repo          # noqa: E402
from hidverif.canon import build_table     # noqa: E402


def main():
    repo = Repo()
    out = {}
    for rel, tree in sorted(repo.files.items()):
        def visit(body, prefix):
            for n in body:
                if isinstance(n, (ast.FunctionDef, ast.AsyncFunctionDef)):
                    q = f'{prefix}{n.name}'
                    out[f'{rel}::{q}'] = build_table(n)      # also functions without locals: the key set = known functions
                elif isinstance(n, ast.ClassDef):
                    visit(n.body, f'{prefix}{n.name}.')
        visit(tree.body, '')
        # module-level names the rules may refer to (tables, constants); anything else at module level is new
        names = {}
        for n in tree.body:
            targets = []
            if isinstance(n, ast.Assign):
                targets = n.targets
            elif isinstance(n, (ast.AnnAssign, ast.AugAssign)):
                targets = [n.target]
            for t in targets:
                for x in ast.walk(t):
                    if isinstance(x, ast.Name):
                        names[x.id] = x.id
            if isinstance(n, (ast.Import, ast.ImportFrom)):
                for a in n.names:
                    nm = (a.asname or a.name).split('.')[0]
                    names[nm] = nm
            if isinstance(n, (ast.FunctionDef, ast.AsyncFunctionDef, ast.ClassDef)):
                names[n.name] = n.name
        out[f'{rel}::@module'] = names
    os.makedirs(os.path.join(ROOT, 'spec'), exist_ok=True)
    with open(os.path.join(ROOT, 'spec', 'roles.json'), 'w') as f:
        json.dump(out, f, indent=0, sort_keys=True)
    print('wrote spec/roles.json:', len(out), 'functions,', sum(len(v) for v in out.values()), 'binding signatures')


if __name__ == '__main__':
    main()
