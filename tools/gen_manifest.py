#!/usr/bin/env python3
"""Regenerates /verif/MANIFEST.json from the table below (run from /verif)."""
import json
import os

ROOT = os.path.dirname(os.path.dirname(os.path.abspath(__file__)))
PY = '/venv/bin/python'

LEMMAS = ('Trusted base: Sphinx lemmas TJ/H/L1-L3 (DESIGN.md 1.1); Python semantics of the analysed subset; the '
          'checker reads /repo with ast only and never imports or runs hidc; where a rule is decided by evaluation, the '
          'syntax trees are evaluated by the checker\'s own interpreter (CONSTEVAL) on finite tables chosen by the checker.')

CHECKS = {
    'C01': dict(
        technique='layout agreement between caller, callee and library text; evaluation-order and register-hold '
                  'rules on enumerated emission paths',
        text='Necessary structural conditions of correct sequential compilation, decided for every emission path: '
             'call-protocol and frame-layout agreement, operand evaluation order, scratch-register hold discipline, '
             'scoping order, entry-argument layout. Does not decide the values any program prints.'),
    'C02': dict(
        technique='template-shape matching on enumerated emission paths + typestate analysis of the runtime defeat word',
        text='Decides the shape of the five time-travel templates (undo, stop, preempt, ??, return protection) on '
             'every emission path and a typestate property of the defeat word (equal to the enclosing target on '
             'every edge leaving a try/stop). The future-quantified biconditionals are not decided.'),
    'C03': dict(
        technique='syntax-tree path enumeration of generator functions + form classification of every jump/halt '
                  'emission; CFG of the embedded assembly text',
        text='Structural argument: every j / halt-class instruction the compiler can emit is in one of six canonical '
             'forms on every path of every generator function and in the library text, so under the Sphinx lemmas a '
             'committed halt is only possible at a defeat site (confined by C06). Decides the shape of emitted code for '
             'all programs at once.'),
    'C04': dict(
        technique='who-may-write / must-follow rules on the frame model, guard dominance on emission paths, finite '
                  'tabulation of size functions, def-use analysis of store addresses in the library text',
        text='Decides the stack-accounting discipline the guards rely on (every frame growth recorded before use, ap '
             'advanced only when accounted, guards dominate guarded operations, scale agreement, store provenance, '
             'library stores confined or reserved by the caller). No numeric worst-case bound is decided.'),
    'C05': dict(
        technique='skip-guard extraction on emission paths, canonical-comparison normalisation, must-precede rules, '
                  'finite tabulation of the preemptive flag, text check of the error stubs',
        text='Decides that every faulting operation is preceded on every checked path by a guard with the exact '
             'no-fault comparison on the same operands, targeting the right stub; stub text; propagation of the '
             'preemptive flag that arms the return-boundary guard.'),
    'C06': dict(
        technique='abstract interpretation of the context flag set through the grammar coroutines over the full '
                  '32-element lattice, with semantic-position tracking; plus a placement table (construct x position) '
                  'evaluated by the checker\'s own interpreter of the lexer/grammar syntax trees',
        text='Exhaustive over the finite context lattice: the accept/reject verdict of the grammar for every '
             'context-sensitive construct in every reachable (coroutine, context, semantic position) is compared in '
             'both directions with the documented rule; holds at any nesting depth by fixpoint.'),
    'C07': dict(
        technique='finite-domain tabulation of cast / coercion relations by interpreting the typechecker methods '
                  'from their syntax trees; guard-site dominance',
        text='Tabulates the cast and coercion relations over the 15-element type domain and the literal overrides '
             'against the documented tables, and checks that each documented rejection has a raise dominating the '
             'accepted construction. Exactness over all programs is not decided.'),
    'C08': dict(
        technique='typestate (linearity) simulation of stack bubbles on every enumerated path; must-pass-through '
                  'rules for exit routes',
        text='Every produced bubble is released exactly once in LIFO order or returned on every path of every '
             'generator function (discharging the compile-time assertions); exits reset ap, block ends pop dynamically, '
             'fp is rebased symmetrically, stop handler restores fp then ap.'),
    'C09': dict(
        technique='table/sibling agreement (token, AST class, fold, instruction, mnemonic), lowering-shape rules on '
                  'emission paths, interpretation of accessor classes; condition lowerings interpreted on small '
                  'condition trees and evaluated under the jump/halt lemmas for every truth assignment',
        text='Decides the compiler\'s operator mapping and the agreement of the value / branch / defeat lowerings, '
             'cast lowerings and byte-access mapping. VM arithmetic itself is not decided.'),
    'C10': dict(
        technique='whole-package call graph with may-raise sets (explicit raises, asserts, partial builtins) '
                  'filtered through handlers; dispatch exhaustiveness; dominance of output opening',
        text='Exception-escape analysis from main() and the public API: only CompilerError/OSError may escape; '
             'dispatch exhaustiveness; output file opened only after generation. Implicit TypeError/AttributeError '
             'are outside the table.'),
    'C11': dict(
        technique='structural extraction of the precedence ladder from the grammar coroutines, compared with the '
                  'documented table; plus the finite table of operator pairs/triples evaluated by the checker\'s own '
                  'interpreter of the lexer/grammar syntax trees against a reference precedence parser',
        text='Complete for the grammar as written: levels, operator sets, operand rules, left fold, unary/is/postfix/'
             'paren/?? binding all equal the documented table. The print/parse round trip is not decided (no printer).'),
    'C12': dict(
        technique='regex syntax trees to DFA language equivalence with reference patterns; table checks; readers and '
                  'lex() tabulated by the checker\'s own interpreter on enumerated short sources (bounded) against a '
                  'reference tokeniser, under both set iteration orders',
        text='Literal patterns are language-equivalent to references, escape table, keyword/symbol partition and '
             'longest-match order, reader order, span bookkeeping order, layout-free tokens.'),
    'C13': dict(
        technique='interpretation of the escaping function over all 256 bytes x quotes with a reference decoder; '
                  'emission-path rules for data directives',
        text='Escaping is total and exact over every byte value and both quote characters; string table length '
             'prefixes, directive kinds, bool bit order and recorded array lengths agree.'),
    'C14': dict(
        technique='fold-table agreement, finite tabulation of literal casts and logical folds, effect-preservation '
                  'tabulation of simplify() and a typed-tree census (catalogue programs typechecked by the checker\'s own '
                  'interpreter), information-flow census for word size',
        text='Decides agreement of the folding tables with the run-time lowering tables and the literal-cast rules; '
             'word-size dependence of non-homomorphic folds is reported as a known finding.'),
    'C15': dict(
        technique='erasure equality of emission paths: checked path minus skip-guards equals unchecked path for all '
                  'compatible path pairs; information-flow census of the flag',
        text='Sufficient structural condition under the skip-guard lemma: the unchecked build is the checked build '
             'minus complete skip-guards, for every path pair; the flag is read only in branch tests.'),
    'C16': dict(
        technique='finite-domain tabulation of the exit-mode transfer functions (32 mode sets) by interpreting them '
                  'from their syntax trees; emission-path rules for the return arm',
        text='Exhaustive over the ExitMode lattice: NONE/BREAK soundness of every transfer function, statement '
             'dropping, implicit return, terminal-call recognition; return arm always ends in goto(ra).'),
    'C17': dict(
        technique='dispatch-table exhaustiveness, CFG/def-use rules over the library text, template conformance of '
                  'the digit loop',
        text='Structural conformance of the write family (dispatch by storage class, literal true/false, single '
             'newline, return protocol, itoa template constants). The digits printed for every value are not decided.'),
    'C18': dict(
        technique='nondeterminism-source census, information-flow (stack_size, lint option), word-size '
                  'parametricity rules over generator and library text',
        text='No unordered iteration or nondeterminism source on the output path; stack_size and --lint '
             'non-interference; word sizes always through the word_size parameter. Behaviour under word widening is '
             'not decided.'),
}

NOT_APPLICABLE = {}


def main():
    checks = []
    built = []
    for pid, c in sorted(CHECKS.items()):
        if not os.path.exists(os.path.join(ROOT, 'hidverif', 'checks', pid.lower() + '.py')):
            continue
        built.append(pid)
        checks.append({
            'property_id': pid,
            'quick_cmd': f'{PY} -m hidverif check {pid} --tier quick',
            'thorough_cmd': f'{PY} -m hidverif check {pid} --tier thorough',
            'evidence_file': f'/verif/evidence/{pid}.json',
            'engine': 'hidverif',
            'level_claimed': {'category': 'other', 'text': c['text'], 'design_ref': f'DESIGN.md section 3, {pid}'},
            'level_note': c.get('note', LEMMAS),
            'technique': 'static analysis: ' + c['technique'],
        })
    na = [{'property_id': p, 'reason': r} for p, r in sorted(NOT_APPLICABLE.items())]
    for p in sorted(CHECKS):
        if p not in built and p not in NOT_APPLICABLE:
            na.append({'property_id': p, 'reason': 'check not built yet in this round (planned in DESIGN.md)'})
    manifest = {
        'version': 1,
        'setup_cmd': f'{PY} -c "import ast, sys; sys.exit(0 if sys.version_info >= (3, 10) else 1)"',
        'hooks': {
            'guard': 'HIDC_VERIF',
            'enable': 'no hooks: the checks read /repo source with ast only; nothing in /repo is instrumented',
            'baseline_off_cmd': 'cd /repo && /venv/bin/python -m pytest -ra -q -p no:cacheprovider --timeout=900 '
                                '--continue-on-collection-errors',
            'source_commits': [],
            'add_only': True,
        },
        'engines': [{
            'name': 'hidverif', 'path': '/verif/hidverif',
            'serves_properties': built,
            'kind_free_text': 'repository-specific static analysers over Python syntax trees (path enumeration of '
                              'instruction generators, finite-domain tabulation by a syntax-tree interpreter, '
                              'table/sibling agreement, assembly-text CFG)',
        }],
        'checks': checks,
        'not_applicable': na,
        'notes': 'Static analysis only. exit 0 = all rule instances hold (known findings printed as KNOWN-FINDING); '
                 'exit 1 = VIOLATION lines; exit 2 = ANALYSIS-ERROR (analysis could not be carried out). '
                 'tools/sphinx_emu is a triage aid used only by seeded demonstrations, never by a check.',
    }
    with open(os.path.join(ROOT, 'MANIFEST.json'), 'w') as f:
        json.dump(manifest, f, indent=1)
    print('wrote MANIFEST.json with', len(checks), 'checks:', ' '.join(built))


if __name__ == '__main__':
    main()
