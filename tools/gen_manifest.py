#!/usr/bin/env python3
"""Regenerates /verif/MANIFEST.json from the table below (run from /verif)."""
import json
import os

ROOT = os.path.dirname(os.path.dirname(os.path.abspath(__file__)))
PY = '/venv/bin/python'

LEMMAS = ('Sphinx lemmas TJ/H/L1-L3 (DESIGN.md 1.1); Python semantics of the analysed subset; '
          'the checker reads /repo with ast only')

CHECKS = {
    'C03': dict(
        technique='syntax-tree path enumeration of generator functions + form classification of every '
                  'jump/halt emission; CFG of the embedded assembly text',
        text='Structural argument: every j / halt-class instruction the compiler can emit is in one of six '
             'canonical forms on every path of every generator function and in the library text, so under the '
             'Sphinx lemmas a committed halt is only possible at a defeat site (confined by C06). Decides the '
             'shape of emitted code for all programs at once; does not run anything.',
        design='C03'),
}

NOT_APPLICABLE = {}

PENDING = ['C01', 'C02', 'C04', 'C05', 'C06', 'C07', 'C08', 'C09', 'C10', 'C11', 'C12', 'C13', 'C14',
           'C15', 'C16', 'C17', 'C18']


def main():
    checks = []
    for pid, c in sorted(CHECKS.items()):
        checks.append({
            'property_id': pid,
            'quick_cmd': f'{PY} -m hidverif check {pid} --tier quick',
            'thorough_cmd': f'{PY} -m hidverif check {pid} --tier thorough',
            'evidence_file': f'/verif/evidence/{pid}.json',
            'engine': 'hidverif',
            'level_claimed': {'category': 'other', 'text': c['text'], 'design_ref': f'DESIGN.md section 3, {c["design"]}'},
            'level_note': c.get('note', LEMMAS),
            'technique': 'static analysis: ' + c['technique'],
        })
    na = [{'property_id': p, 'reason': r} for p, r in sorted(NOT_APPLICABLE.items())]
    for p in PENDING:
        if p not in CHECKS and p not in NOT_APPLICABLE:
            na.append({'property_id': p, 'reason': 'check not built yet in this round (planned in DESIGN.md)'})
    manifest = {
        'version': 1,
        'setup_cmd': f'{PY} -c "import ast, sys; sys.exit(0 if sys.version_info >= (3, 10) else 1)"',
        'hooks': {
            'guard': 'HIDC_VERIF',
            'enable': 'no hooks: the checks read /repo source with ast only; nothing in /repo is instrumented',
            'baseline_off_cmd': 'cd /repo && /venv/bin/python -m pytest -ra -q -p no:cacheprovider --timeout=900 '
                                '--continue-on-collection-errors',
            'source_commits': [],
            'add_only': True,
        },
        'engines': [{
            'name': 'hidverif', 'path': '/verif/hidverif',
            'serves_properties': sorted(CHECKS),
            'kind_free_text': 'repository-specific static analysers over Python syntax trees (path enumeration of '
                              'instruction generators, finite-domain tabulation, table/sibling agreement, '
                              'assembly-text CFG)',
        }],
        'checks': checks,
        'not_applicable': na,
        'notes': 'Static analysis only. exit 0 = all rule instances hold (known findings printed as KNOWN-FINDING); '
                 'exit 1 = VIOLATION lines; exit 2 = ANALYSIS-ERROR (analysis could not be carried out).',
    }
    with open(os.path.join(ROOT, 'MANIFEST.json'), 'w') as f:
        json.dump(manifest, f, indent=1)
    print('wrote MANIFEST.json with', len(checks), 'checks')


if __name__ == '__main__':
    main()
