#!/usr/bin/env python3
"""Developer aid: run checks against seeded changes without touching /repo.

usage: run_seeded.py <root-with-Cxx/N/patch.diff> [--all] [--only C03,C05]
Each patch is applied to a scratch copy of /repo/hidc under $TMPDIR (removed afterwards); the
property's own check is run with HIDVERIF_REPO pointing at the copy.  --all runs every built check.
"""
import glob
import json
import os
import shutil
import subprocess
import sys
import tempfile

VERIF = os.path.dirname(os.path.dirname(os.path.abspath(__file__)))


def built_props():
    return sorted(os.path.basename(p)[:-3].upper() for p in glob.glob(os.path.join(VERIF, 'hidverif/checks/c*.py')))


def run_one(patch, props):
    d = tempfile.mkdtemp(prefix='hidverif-seed-')
    try:
        shutil.copytree('/repo/hidc', os.path.join(d, 'hidc'))
        r = subprocess.run(['patch', '-p1', '-s', '-i', patch], cwd=d, capture_output=True, text=True)
        if r.returncode != 0:
            return {'apply': 'FAILED ' + (r.stdout + r.stderr)[:200]}
        res = {}
        for prop in props:
            env = dict(os.environ, HIDVERIF_REPO=d, HIDVERIF_EVIDENCE_DIR=os.path.join(d, 'evidence'))
            r = subprocess.run(['/venv/bin/python', '-m', 'hidverif', 'check', prop], cwd=VERIF, env=env,
                               capture_output=True, text=True)
            viol = [l.strip() for l in r.stdout.splitlines() if l.startswith('  rule=')]
            err = [l for l in r.stdout.splitlines() if l.startswith('ANALYSIS-ERROR')]
            res[prop] = (r.returncode, viol[:3], err[:1])
        return res
    finally:
        shutil.rmtree(d, ignore_errors=True)


def main():
    root = sys.argv[1]
    run_all = '--all' in sys.argv
    only = None
    if '--only' in sys.argv:
        only = sys.argv[sys.argv.index('--only') + 1].split(',')
    built = built_props()
    jobs = []
    for patch in sorted(glob.glob(os.path.join(root, 'C*', '*', 'patch.diff'))):
        parts = patch.split(os.sep)
        prop, n = parts[-3], parts[-2]
        if only and prop not in only and f'{prop}/{n}' not in only:
            continue
        props = built if run_all else ([prop] if prop in built else [])
        summary = ''
        try:
            summary = json.load(open(os.path.join(os.path.dirname(patch), 'meta.json'))).get('summary', '')[:90]
        except Exception:
            pass
        jobs.append((patch, prop, n, props, summary))

    def work(job):
        patch, prop, n, props, summary = job
        return job, (run_one(patch, props) if props else None)

    from concurrent.futures import ThreadPoolExecutor
    with ThreadPoolExecutor(max_workers=int(os.environ.get('HIDVERIF_JOBS', '14'))) as ex:
        results = list(ex.map(work, jobs))
    for (patch, prop, n, props, summary), res in results:
        if res is None:
            print(f'{prop}/{n}: (check not built) {summary}')
            continue
        if 'apply' in res:
            print(f'{prop}/{n}: {res["apply"]}')
            continue
        det = [p for p, (rc, v, e) in res.items() if rc == 1]
        errs = [p for p, (rc, v, e) in res.items() if rc not in (0, 1)]
        own = res.get(prop)
        status = 'DETECTED' if own and own[0] == 1 else ('ERROR' if own and own[0] not in (0, 1) else 'missed')
        print(f'{prop}/{n}: {status} by={det} errors={errs} :: {summary}')
        if own and own[1]:
            print(f'      {own[1][0][:200]}')
        if own and own[2]:
            print(f'      {own[2][0][:200]}')


if __name__ == '__main__':
    main()
