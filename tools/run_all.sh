#!/bin/sh
# run every registered quick check on /repo; print exit codes
cd /verif
for c in $(ls hidverif/checks/c*.py | sed 's/.*\/c\([0-9]*\)\.py/C\1/'); do
  /venv/bin/python -m hidverif check $c --tier ${1:-quick} > /tmp/run_all_$c.txt 2>&1
  rc=$?
  echo "$c exit=$rc $(head -1 /tmp/run_all_$c.txt | cut -c1-120)"
  if [ $rc -ne 0 ]; then grep -A2 -E "VIOLATION|ANALYSIS" /tmp/run_all_$c.txt | cut -c1-250 | head -12; fi
done
