#!/usr/bin/env python3
"""Developer aid: behaviour-preserving changes must keep every check silent.

usage: run_benign.py <root-with-*/N/patch.diff> [--only B03,B07/2]
Each patch is applied to a scratch copy of /repo/hidc under $TMPDIR (removed afterwards) and ALL checks are run on
it with HIDVERIF_REPO pointing at the copy.  Prints SILENT, or ALARM with the reporting rules (exit 1 / exit 2).
"""
import glob
import json
import os
import shutil
import subprocess
import sys
import tempfile
from concurrent.futures import ThreadPoolExecutor

VERIF = os.path.dirname(os.path.dirname(os.path.abspath(__file__)))


def built_props():
    return sorted(os.path.basename(p)[:-3].upper() for p in glob.glob(os.path.join(VERIF, 'hidverif/checks/c*.py')))


def run_one(patch, props):
    d = tempfile.mkdtemp(prefix='hidverif-benign-')
    try:
        shutil.copytree('/repo/hidc', os.path.join(d, 'hidc'))
        r = subprocess.run(['patch', '-p1', '-s', '-i', patch], cwd=d, capture_output=True, text=True)
        if r.returncode != 0:
            return {'apply': 'FAILED ' + (r.stdout + r.stderr)[:200]}
        res = {}
        for prop in props:
            env = dict(os.environ, HIDVERIF_REPO=d, HIDVERIF_EVIDENCE_DIR=os.path.join(d, 'evidence'))
            r = subprocess.run(['/venv/bin/python', '-m', 'hidverif', 'check', prop], cwd=VERIF, env=env,
                               capture_output=True, text=True)
            lines = r.stdout.splitlines()
            viol = []
            for i, l in enumerate(lines):
                if l.startswith('  rule='):
                    viol.append(l.strip() + ' || ' + (lines[i + 1].strip()[:160] if i + 1 < len(lines) else ''))
            err = [l for l in lines if l.startswith('ANALYSIS-ERROR')]
            res[prop] = (r.returncode, viol[:4], err[:1])
        return res
    finally:
        shutil.rmtree(d, ignore_errors=True)


def main():
    root = sys.argv[1]
    only = None
    if '--only' in sys.argv:
        only = sys.argv[sys.argv.index('--only') + 1].split(',')
    props = built_props()
    jobs = []
    for patch in sorted(glob.glob(os.path.join(root, '*', '*', 'patch.diff')) + glob.glob(os.path.join(root, '*', 'patch.diff'))):
        parts = patch.split(os.sep)
        grp, n = parts[-3], parts[-2]
        if os.path.dirname(os.path.dirname(patch)) == os.path.abspath(root).rstrip(os.sep) or parts[-3] == os.path.basename(os.path.abspath(root)):
            grp, n = parts[-2].rsplit('-', 1) if '-' in parts[-2] else (parts[-2], '')
        if only and grp not in only and f'{grp}/{n}' not in only:
            continue
        summary = ''
        try:
            summary = json.load(open(os.path.join(os.path.dirname(patch), 'meta.json'))).get('summary', '')[:110]
        except Exception:
            pass
        jobs.append((patch, grp, n, summary))
    with ThreadPoolExecutor(max_workers=int(os.environ.get('HIDVERIF_JOBS', '14'))) as ex:
        results = list(ex.map(lambda j: (j, run_one(j[0], props)), jobs))
    alarms = 0
    for (patch, grp, n, summary), res in results:
        if 'apply' in res:
            print(f'{grp}/{n}: {res["apply"]}')
            continue
        bad = {p: r for p, r in res.items() if r[0] != 0}
        if not bad:
            print(f'{grp}/{n}: SILENT :: {summary}')
            continue
        alarms += 1
        print(f'{grp}/{n}: ALARM by={sorted(bad)} :: {summary}')
        for p, (rc, viol, err) in sorted(bad.items()):
            for v in viol[:3]:
                print(f'      {p}: {v[:330]}')
            for e in err:
                print(f'      {p}: {e[:300]}')
    print(f'{len(results)} patches, {alarms} with alarms')


if __name__ == '__main__':
    main()
