"""Exact emulator for Sphinx, including the Turing jump.

`j addr` jumps iff falling through would eventually reach a halt.  We run the
fall-through as the presumptive timeline with a stack of checkpoints; reaching
a halt rolls back to the newest checkpoint and takes that jump instead.  When
the presumptive timeline provably repeats a full machine state (pc + state
memory) it can never halt, so every pending fall-through is correct and the
whole timeline is committed.  (This is the least fixed point of
"halts(j) = halts(fallthrough) and halts(target)".)

The committed timeline is computed on the first step() and then replayed one
instruction per step(), so contexts only ever see committed effects.
"""
import os
from .errors import SphinxFault, CycleLimit
from .context import ExecutionContext
from .parser import IMM, STATE

# 'floor' (Python-style, what hidc's constant folder uses) or 'trunc' (C-style)
DIV_MODE = os.environ.get('SPHINX_DIV_MODE', 'floor')
DEFAULT_MAX_WORK = int(os.environ.get('SPHINX_MAX_WORK', 20_000_000))


def _divmod(a, b, mode):
    q, r = divmod(a, b)
    if mode == 'trunc' and r and (a < 0) != (b < 0):
        q, r = q + 1, r - b
    return q, r


class Emulator:
    def __init__(self, program, ctx=None, max_work=None, div_mode=None):
        self.program = program
        self.ctx = ctx if ctx is not None else ExecutionContext()
        self.max_work = DEFAULT_MAX_WORK if max_work is None else max_work
        self.div_mode = div_mode or DIV_MODE
        if self.div_mode not in ('floor', 'trunc'):
            raise ValueError(f'bad div mode {self.div_mode!r}')
        self.trace = None        # committed timeline: one entry per instruction
        self.outcome = None      # 'halt' or 'loop'
        self.loop_start = None   # index in trace where the endless cycle starts
        self.work = 0            # instructions executed incl. rolled-back ones
        self.steps = 0           # committed instructions replayed so far
        self.halted = False
        self._pos = 0

    # ---- public API ---------------------------------------------------
    def step(self):
        """Execute one committed instruction.  False once really halted."""
        if self.trace is None:
            self._compute()
        if self.halted:
            return False
        if self._pos >= len(self.trace):      # only when outcome == 'halt'
            self.halted = True                # this step is the halt itself
            self.steps += 1
            return False
        ev = self.trace[self._pos]
        self._pos += 1
        self.steps += 1
        if self.outcome == 'loop' and self._pos == len(self.trace):
            self._pos = self.loop_start
        if type(ev) is tuple:
            kind, val = ev
            if kind == 'o':
                W = self.program.word_size
                self.ctx.output(bytes([val & 0xFF]) if self.program.output_format == 'byte'
                                else val.to_bytes(W, 'little'))
            elif kind == 's':
                self.ctx.sleep(val)
            else:
                self.ctx.on_flag(self.program, val)
        return True

    def run(self, max_steps=None):
        """Step until halt, until the endless cycle is entered, or max_steps."""
        if self.trace is None:
            self._compute()
        n = 0
        while max_steps is None or n < max_steps:
            if self.outcome == 'loop' and self.steps >= len(self.trace):
                break
            if not self.step():
                break
            n += 1
        return self.outcome

    # ---- timeline computation ----------------------------------------
    def _compute(self):
        prog = self.program
        W = prog.word_size
        BITS = 8 * W
        M = 1 << BITS
        MASK, SIGN = M - 1, M >> 1
        code, const = prog.code, prog.const
        mem = bytearray(prog.state)
        ncode, nmem, nconst = len(code), len(mem), len(const)
        journal = []      # (addr, old bytes) undo log for state memory
        trace = []        # None | int (unique id of a `j` visit) | (kind, value)
        stack = []        # checkpoints: (trace len, journal len, memver, target)
        seen = {}         # pc of j -> (visit id, trace index, memver)
        ids = vers = memver = 0   # equal memver => identical state memory
        snap, snap_age, snap_period = None, 0, 16   # Brent-style full-state snapshot
        pc = work = 0
        mode, max_work = self.div_mode, self.max_work

        def fault(msg):
            spec = f' [while {len(stack)} Turing jumps were still undecided]' if stack else ''
            raise SphinxFault(f'{msg} at {prog.where(pc)}{spec}')

        def load(buf, size, addr, n, what):
            if addr + n > size:
                fault(f'{what} read of {n} bytes at address {addr} out of range (size {size})')
            return int.from_bytes(buf[addr:addr + n], 'little')

        def val(o):
            return o[1] if o[0] == IMM else (
                load(mem, nmem, o[1], W, 'state') if o[0] == STATE else
                load(const, nconst, o[1], W, 'const'))

        def store(addr, value, n):
            nonlocal vers, memver
            if addr + n > nmem:
                fault(f'state write of {n} bytes at address {addr} out of range (size {nmem})')
            new = (value & ((1 << (8 * n)) - 1)).to_bytes(n, 'little')
            old = bytes(mem[addr:addr + n])
            if old != new:   # no-op writes keep memver, so pure loops are recognised
                journal.append((addr, old))
                mem[addr:addr + n] = new
                vers += 1
                memver = vers

        def signed(v):
            return v - M if v & SIGN else v

        while True:
            if work >= max_work:
                self.work = work
                raise CycleLimit(
                    f'work limit of {max_work} instructions reached with {len(stack)} '
                    f'undecided Turing jumps at {prog.where(pc)}',
                    [e for e in trace if type(e) is tuple])
            if not 0 <= pc < ncode:
                fault('execution left the code section')
            work += 1
            op, args, _ = code[pc]
            halting = False
            event = None
            if op == 'j':
                target = val(args[0])
                prev = seen.get(pc)
                if (prev is not None and prev[2] == memver and prev[1] < len(trace)
                        and trace[prev[1]] == prev[0]):
                    # Same pc and memory as an earlier visit that is still on the
                    # timeline: the machine cycles forever, nothing can halt.
                    self.trace, self.outcome, self.loop_start = trace, 'loop', prev[1]
                    self.work = work
                    return
                # Slow path for cycles that do write memory: compare against a
                # full snapshot taken at exponentially spaced `j` visits.
                live = snap is not None and snap[3] < len(trace) and trace[snap[3]] == snap[2]
                if live and snap[0] == pc and snap[1] == mem:
                    self.trace, self.outcome, self.loop_start = trace, 'loop', snap[3]
                    self.work = work
                    return
                ids += 1
                snap_age += 1
                if not live or snap_age >= snap_period:
                    if snap_age >= snap_period:
                        snap_period *= 2
                    snap, snap_age = (pc, bytes(mem), ids, len(trace)), 0
                seen[pc] = (ids, len(trace), memver)
                trace.append(ids)
                stack.append((len(trace), len(journal), memver, target))
                pc += 1
                continue
            elif op == 'halt':
                halting = True
            elif op[0] == 'h':
                a, b = val(args[0]), val(args[1])
                if not op.endswith('u'):
                    a, b = signed(a), signed(b)
                c = op[1:3]
                halting = (a == b if c == 'eq' else a != b if c == 'ne' else a < b if c == 'lt'
                           else a <= b if c == 'le' else a > b if c == 'gt' else a >= b)
            elif op == 'mov':
                store(args[0][1], val(args[1]), W)
            elif op in _ARITH:
                a, b = signed(val(args[1])), signed(val(args[2]))
                if op == 'add': r = a + b
                elif op == 'sub': r = a - b
                elif op == 'mul': r = a * b
                elif op in ('div', 'mod'):
                    if b == 0:
                        fault(f'{op} by zero')
                    r = _divmod(a, b, mode)[op == 'mod']
                elif op == 'and': r = a & b
                elif op == 'or': r = a | b
                elif op == 'xor': r = a ^ b
                else:
                    if b < 0:
                        fault(f'{op} by negative amount {b}')
                    b = min(b, BITS)
                    r = a << b if op == 'asl' else a >> b
                store(args[0][1], r & MASK, W)
            elif op[0] == 'l':      # lws lwc lbs lbc (+o)
                addr = val(args[1])
                if len(args) == 3:
                    addr = (addr + val(args[2])) & MASK
                n = W if op[1] == 'w' else 1
                v = (load(mem, nmem, addr, n, 'state') if op[2] == 's'
                     else load(const, nconst, addr, n, 'const'))
                store(args[0][1], v, W)
            elif op[0] == 's' and op != 'sleep':   # sws sbs swso sbso
                addr = val(args[0])
                if len(args) == 3:
                    addr = (addr + val(args[1])) & MASK
                store(addr, val(args[-1]), W if op[1] == 'w' else 1)
            elif op == 'yield':
                event = ('o', val(args[0]))
            elif op == 'sleep':
                event = ('s', val(args[0]))
            elif op == 'flag':
                event = ('f', args[0])
            else:
                fault(f'unimplemented instruction {op}')

            if not halting:
                trace.append(event)
                pc += 1
            elif not stack:
                self.trace, self.outcome, self.work = trace, 'halt', work
                return
            else:
                # Falling through the newest undecided `j` led here: undo it
                # and take the jump instead.
                tlen, jlen, memver, pc = stack.pop()
                del trace[tlen:]
                while len(journal) > jlen:
                    addr, old = journal.pop()
                    mem[addr:addr + len(old)] = old


_ARITH = frozenset(('add', 'sub', 'mul', 'div', 'mod', 'and', 'or', 'xor', 'asl', 'asr'))
