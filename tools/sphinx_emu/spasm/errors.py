class SphinxFault(Exception):
    """The program did something this emulator considers undefined
    (out-of-range memory access, bad jump target, division by zero...)."""


class SphinxSyntaxError(SphinxFault):
    """The assembly source could not be parsed."""


class SphinxArgError(SphinxFault):
    """Command-line arguments do not match %argv / .arg formats."""


class CycleLimit(Exception):
    """The work budget ran out before the timeline could be committed
    (no real halt and no provably non-halting cycle found yet)."""
    def __init__(self, msg, events=()):
        super().__init__(msg)
        self.events = list(events)  # presumptive (uncommitted) events
