"""Minimal stand-in for the `spasm` Sphinx emulator (see ../NOTES.md)."""
from .errors import SphinxFault, SphinxSyntaxError, SphinxArgError, CycleLimit

__all__ = ['SphinxFault', 'SphinxSyntaxError', 'SphinxArgError', 'CycleLimit']
