import sys


class ExecutionContext:
    """Receives the externally visible effects of a Sphinx program.

    Only *committed* effects are ever delivered: the emulator resolves all
    Turing jumps before calling any of these, so nothing is ever retracted.
    """
    def __init__(self):
        pass

    def output(self, val):
        # val is bytes: 1 byte for `%format output byte`, else the word (LE)
        sys.stdout.buffer.write(bytes(val[:1]))
        sys.stdout.buffer.flush()

    def sleep(self, millis):
        pass

    def on_flag(self, prog, flag):
        print(f'[flag {flag}]', file=sys.stderr)

    def virtualize(self):
        # Kept for API parity with the real spasm; this emulator buffers
        # speculative effects internally and never calls it.
        return VirtualContext()


class VirtualContext(ExecutionContext):
    """Swallows effects, recording them in plain lists."""
    def __init__(self):
        super().__init__()
        self.outputs = []
        self.flags = []
        self.slept = 0

    def output(self, val):
        self.outputs.append(bytes(val))

    def sleep(self, millis):
        self.slept += millis

    def on_flag(self, prog, flag):
        self.flags.append(flag)

    def virtualize(self):
        return self
