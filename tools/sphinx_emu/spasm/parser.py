"""Two-pass assembler for the subset of Sphinx assembly that hidc emits."""
import re
from .errors import SphinxSyntaxError, SphinxArgError

# operand kinds
IMM, STATE, CONST = 0, 1, 2

# mnemonic -> operand pattern: d = `[imm]` destination, v = value, f = flag name
ARITH = ('add', 'sub', 'mul', 'div', 'mod', 'and', 'or', 'xor', 'asl', 'asr')
HALTS = ('heq', 'hne', 'hlt', 'hle', 'hgt', 'hge', 'hltu', 'hleu', 'hgtu', 'hgeu')
PATTERNS = {
    'mov': 'dv', 'halt': '', 'j': 'v', 'yield': 'v', 'sleep': 'v', 'flag': 'f',
    **{m: 'dvv' for m in ARITH}, **{m: 'vv' for m in HALTS},
    **{m: 'dv' for m in ('lws', 'lwc', 'lbs', 'lbc')},
    **{m: 'dvv' for m in ('lwso', 'lwco', 'lbso', 'lbco')},
    'sws': 'vv', 'sbs': 'vv', 'swso': 'vvv', 'sbso': 'vvv',
}

_LABEL = re.compile(r'\s*([A-Za-z_][A-Za-z0-9_]*)\s*:')
_TOKEN = re.compile(r"""\s*(?:
    (?P<num>0[xX][0-9a-fA-F]+|0[bB][01]+|0[oO][0-7]+|\d+)(?P<w>w?)(?![A-Za-z0-9_])
  | '(?P<chr>\\x[0-9a-fA-F]{2}|\\.|[^\\'])'
  | (?P<name>\$?[A-Za-z_][A-Za-z0-9_]*)
  | (?P<op><<|>>|[-+*/%&|^~()])
)""", re.X)
_ESCAPES = {'n': 10, 'r': 13, 't': 9, '0': 0, '\\': 92, "'": 39, '"': 34}


def unescape(text, where):
    out, i = bytearray(), 0
    while i < len(text):
        ch = text[i]
        if ch != '\\':
            out += ch.encode('latin-1')
            i += 1
        elif text[i + 1:i + 2] == 'x' and re.fullmatch('[0-9a-fA-F]{2}', text[i + 2:i + 4]):
            out.append(int(text[i + 2:i + 4], 16))
            i += 4
        elif text[i + 1:i + 2] in _ESCAPES and i + 1 < len(text):
            out.append(_ESCAPES[text[i + 1]])
            i += 2
        else:
            raise SphinxSyntaxError(f'{where}: bad escape in {text!r}')
    return bytes(out)


def split_outside_quotes(text, sep, where):
    """Split text at sep, ignoring sep inside '...' / "..." (backslash escapes)."""
    parts, cur, quote, i = [], '', None, 0
    while i < len(text):
        ch = text[i]
        if quote:
            if ch == '\\':
                cur += text[i:i + 2]
                i += 2
                continue
            if ch == quote:
                quote = None
        elif ch in '\'"':
            quote = ch
        elif ch == sep:
            parts.append(cur)
            cur = ''
            i += 1
            continue
        cur += ch
        i += 1
    if quote:
        raise SphinxSyntaxError(f'{where}: unterminated {quote} literal in {text!r}')
    return parts + [cur]


class Program:
    def __init__(self, word_size, output_format, state, const, code, labels, lines):
        self.word_size = word_size          # bytes
        self.output_format = output_format  # 'byte' or None (whole word)
        self.state = bytes(state)           # initial state memory
        self.const = bytes(const)
        self.code = code                    # [(mnemonic, operands, lineno)]
        self.labels = labels                # name -> (section, value)
        self.lines = lines                  # lineno -> source text (for messages)

    def where(self, pc):
        if 0 <= pc < len(self.code):
            n = self.code[pc][2]
            return f'pc={pc} (line {n}: {self.lines.get(n, "?").strip()})'
        return f'pc={pc}'


class Parser:
    def __init__(self, args=()):
        self.args = [a if isinstance(a, str) else bytes(a).decode('utf-8') for a in args]
        self.word_size = 2
        self.output_format = None
        self.section = None
        self.argv = None                 # name -> str | list[str]
        self.labels = {}                 # name -> (section, offset/index)
        self.items = {'state': [], 'const': []}   # (kind, payload, where)
        self.sizes = {'state': 0, 'const': 0}
        self.code = []                   # (mnemonic, [operand text], lineno)
        self.lines = {}
        self.lineno = 0

    # ---- pass 1 -------------------------------------------------------
    def parse_lines(self, lines):
        for raw in lines:
            self.lineno += 1
            text = raw.decode('latin-1') if isinstance(raw, (bytes, bytearray)) else raw
            self.lines[self.lineno] = text
            where = f'line {self.lineno}'
            text = split_outside_quotes(text, ';', where)[0].strip() if ';' in text else text.strip()
            while m := _LABEL.match(text):
                self._define(m.group(1), where)
                text = text[m.end():].strip()
            if not text:
                continue
            head, *rest = text.split(None, 1)
            rest = rest[0].strip() if rest else ''
            if head.startswith('%'):
                self._percent(head, rest, where)
            elif self.section is None:
                raise SphinxSyntaxError(f'{where}: content before any %section')
            elif head.startswith('.'):
                self._data(head, rest, where)
            else:
                self._instr(head, rest, where)

    def _define(self, name, where):
        if self.section is None:
            raise SphinxSyntaxError(f'{where}: label {name} outside any section')
        if name in self.labels:
            raise SphinxSyntaxError(f'{where}: duplicate label {name}')
        pos = len(self.code) if self.section == 'code' else self.sizes[self.section]
        self.labels[name] = (self.section, pos)

    def _percent(self, head, rest, where):
        words = rest.split()
        if head == '%section' and rest in ('state', 'const', 'code'):
            self.section = rest
        elif head == '%format' and len(words) == 2 and words[0] == 'word':
            if self.sizes['state'] or self.sizes['const'] or self.code:
                raise SphinxSyntaxError(f'{where}: %format word after data/code')
            self.word_size = int(words[1], 0)
            if self.word_size < 1:
                raise SphinxSyntaxError(f'{where}: bad word size')
        elif head == '%format' and words == ['output', 'byte']:
            self.output_format = 'byte'
        elif head == '%argv':
            self._bind_argv(words, where)
        else:
            raise SphinxSyntaxError(f'{where}: unsupported directive {head} {rest}')

    def _bind_argv(self, specs, where):
        names, rest_at = [], None
        for i, spec in enumerate(specs):
            if m := re.fullmatch(r'<(\w+)>', spec):
                names.append(m.group(1))
            elif (m := re.fullmatch(r'\[<(\w+)>\.\.\.\]', spec)) and rest_at is None:
                names.append(m.group(1))
                rest_at = i
            else:
                raise SphinxSyntaxError(f'{where}: unsupported %argv spec {spec!r}')
        fixed = len(names) - (rest_at is not None)
        usage = f'expected arguments: {" ".join(specs)}; got {len(self.args)}'
        if len(self.args) < fixed or (rest_at is None and len(self.args) != fixed):
            raise SphinxArgError(usage)
        self.argv = {}
        n_rest = len(self.args) - fixed
        it = iter(self.args)
        for i, name in enumerate(names):
            if i == rest_at:
                self.argv[name] = [next(it) for _ in range(n_rest)]
            else:
                self.argv[name] = next(it)

    def _emit(self, kind, payload, size, where):
        self.items[self.section].append((kind, payload, self.sizes[self.section], where))
        self.sizes[self.section] += size

    def _data(self, head, rest, where):
        if self.section == 'code':
            raise SphinxSyntaxError(f'{where}: data directive in code section')
        W = self.word_size
        if head in ('.word', '.byte'):
            exprs = [e.strip() for e in split_outside_quotes(rest, ',', where)]
            self._emit(head[1:], exprs, len(exprs) * (W if head == '.word' else 1), where)
        elif head == '.ascii':
            if not re.fullmatch(r'"(?:[^"\\]|\\.)*"', rest):
                raise SphinxSyntaxError(f'{where}: .ascii needs one well-formed "string"')
            data = unescape(rest[1:-1], where)
            self._emit('raw', data, len(data), where)
        elif head == '.zero':
            n = self.evaluate(rest, where, labels_ok=False)
            if n < 0:
                raise SphinxSyntaxError(f'{where}: negative .zero size')
            self._emit('raw', bytes(n), n, where)
        elif head == '.arg':
            self._arg(rest.split(), where)
        else:
            raise SphinxSyntaxError(f'{where}: unsupported directive {head}')

    def _arg(self, words, where):
        if len(words) < 2 or self.argv is None or words[0] not in self.argv:
            raise SphinxSyntaxError(f'{where}: .arg needs a name declared in %argv and a format')
        name, fmt, params = words[0], words[1], words[2:]
        value = self.argv[name]
        many = isinstance(value, list)
        values = value if many else [value]
        W = self.word_size
        if fmt in ('word', 'byte') and not params:
            size = W if fmt == 'word' else 1
            lo, hi = -(1 << (8 * size - 1)), 1 << (8 * size)
            data = b''
            for v in values:
                try:
                    n = int(v, 10)
                except ValueError:
                    raise SphinxArgError(f'argument <{name}>: {v!r} is not a base-10 integer')
                if not lo <= n < hi:
                    raise SphinxArgError(f'argument <{name}>: {n} does not fit in a {fmt}')
                data += (n % hi).to_bytes(size, 'little')
            self._emit('raw', data, len(data), where)
        elif fmt == 'asciip' and not params and not many:
            s = value.encode('utf-8')
            self._emit('raw', len(s).to_bytes(W, 'little') + s, W + len(s), where)
        elif fmt == 'asciip' and params == ['array']:
            # pointer table immediately followed by the length-prefixed bodies
            table_at = self.sizes[self.section]
            at = table_at + W * len(values)
            table = body = b''
            for v in values:
                s = v.encode('utf-8')
                table += at.to_bytes(W, 'little')
                body += len(s).to_bytes(W, 'little') + s
                at += W + len(s)
            self._emit('raw', table + body, len(table) + len(body), where)
        else:
            raise SphinxSyntaxError(f'{where}: unsupported .arg form: {" ".join(words)}')

    def _instr(self, head, rest, where):
        if self.section != 'code':
            raise SphinxSyntaxError(f'{where}: instruction outside code section')
        if head not in PATTERNS:
            raise SphinxSyntaxError(f'{where}: unknown instruction {head!r}')
        ops = [o.strip() for o in split_outside_quotes(rest, ',', where)] if rest else []
        if len(ops) != len(PATTERNS[head]):
            raise SphinxSyntaxError(f'{where}: {head} takes {len(PATTERNS[head])} operands')
        self.code.append((head, ops, self.lineno))

    # ---- expressions --------------------------------------------------
    def evaluate(self, text, where, labels_ok=True):
        """Evaluate an immediate expression to a Python int (not yet wrapped)."""
        py, pos = [], 0
        while pos < len(text):
            if text[pos:].isspace():
                break
            m = _TOKEN.match(text, pos)
            if not m:
                raise SphinxSyntaxError(f'{where}: cannot parse expression {text!r}')
            pos = m.end()
            if m['num']:
                n = int(m['num'], 0) if not m['num'].isdigit() else int(m['num'])
                py.append(str(n * self.word_size if m['w'] else n))
            elif m['chr']:
                py.append(str(unescape(m['chr'], where)[0]))
            elif m['name']:
                name = m['name']
                if name == '$argc':
                    py.append(str(len(self.args)))
                elif labels_ok and name in self.labels:
                    py.append(str(self.labels[name][1]))
                else:
                    raise SphinxSyntaxError(f'{where}: undefined name {name!r} in {text!r}')
            else:
                py.append('//' if m['op'] == '/' else m['op'])
        try:
            return int(eval(' '.join(py), {'__builtins__': {}}))
        except Exception as e:
            raise SphinxSyntaxError(f'{where}: bad expression {text!r} ({e})')

    def _operand(self, text, kind, where):
        mask = (1 << (8 * self.word_size)) - 1
        if kind == 'f':
            if not re.fullmatch(r'\w+', text):
                raise SphinxSyntaxError(f'{where}: bad flag name {text!r}')
            return text
        k = {'[]': STATE, '{}': CONST}.get(text[:1] + text[-1:]) if len(text) >= 2 else None
        if k is None and kind == 'v':
            return (IMM, self.evaluate(text, where) & mask)
        if k is None or (kind == 'd' and k != STATE):
            raise SphinxSyntaxError(f'{where}: destination must be a [state] operand, got {text!r}')
        if any(c in text[1:-1] for c in '[]{}'):
            raise SphinxSyntaxError(f'{where}: nested memory operand {text!r}')
        return (k, self.evaluate(text[1:-1], where) & mask)

    # ---- pass 2 -------------------------------------------------------
    def get_program(self):
        W = self.word_size
        if self.argv is None and self.args:
            raise SphinxArgError(f'program declares no %argv but {len(self.args)} arguments given')
        images = {}
        for sec in ('state', 'const'):
            img = bytearray()
            for kind, payload, offset, where in self.items[sec]:
                assert len(img) == offset
                if kind == 'raw':
                    img += payload
                else:
                    size = W if kind == 'word' else 1
                    for e in payload:
                        img += (self.evaluate(e, where) % (1 << (8 * size))).to_bytes(size, 'little')
            images[sec] = img
        code = []
        for mnem, ops, lineno in self.code:
            where = f'line {lineno}'
            decoded = tuple(self._operand(o, k, where) for o, k in zip(ops, PATTERNS[mnem]))
            code.append((mnem, decoded, lineno))
        return Program(W, self.output_format, images['state'], images['const'],
                       code, dict(self.labels), self.lines)
