#!/venv/bin/python
"""Run a Sphinx assembly file: run.py [--max-work N] [--div floor|trunc] file.s [args...]"""
import os
import sys
sys.path.insert(0, os.path.dirname(os.path.abspath(__file__)))
from spasm import SphinxFault, CycleLimit
from spasm.parser import Parser
from spasm.context import VirtualContext
from spasm.emulator import Emulator


def main(argv):
    opts = {'--max-work': None, '--div': None}
    while argv and argv[0] in opts:
        opts[argv[0]] = argv[1]
        argv = argv[2:]
    if not argv:
        print(__doc__, file=sys.stderr)
        return 2
    with open(argv[0], 'rb') as f:
        lines = f.read().split(b'\n')
    ctx = VirtualContext()
    try:
        parser = Parser(argv[1:])
        parser.parse_lines(lines)
        emu = Emulator(parser.get_program(), ctx=ctx, div_mode=opts['--div'],
                       max_work=int(opts['--max-work']) if opts['--max-work'] else None)
        outcome = emu.run()
    except CycleLimit as e:
        out = bytes(v & 0xFF for k, v in e.events if k == 'o')
        print('outcome: cycle-limit (nothing committed):', e)
        print('presumptive output:', out)
        print('presumptive flags:', [v for k, v in e.events if k == 'f'])
        return 3
    except SphinxFault as e:
        print(f'outcome: fault ({type(e).__name__}): {e}')
        return 4
    out = b''.join(o[:1] for o in ctx.outputs)
    print('output:', out)
    sys.stdout.flush()
    sys.stdout.buffer.write(b'--- output text ---\n' + out + b'\n-------------------\n')
    print('flags:', ' '.join(ctx.flags) or '(none)')
    if outcome == 'halt':
        kind = 'real halt'
    elif ctx.flags and ctx.flags[-1] == 'win':
        kind = 'win loop'
    elif 'error' in ctx.flags:
        kind = 'error loop'
    else:
        kind = 'endless loop (no win/error flag)'
    print(f'outcome: {kind}')
    if outcome == 'loop':
        cyc = emu.trace[emu.loop_start:]
        print(f'cycle: {len(cyc)} instructions repeated forever (the output/flags above include its '
              f'first pass); per pass it emits output '
              f'{bytes(e[1] & 0xFF for e in cyc if type(e) is tuple and e[0] == "o")} '
              f'and flags {[e[1] for e in cyc if type(e) is tuple and e[0] == "f"]}')
    print(f'committed instructions: {emu.steps}; executed incl. rolled back: {emu.work}; '
          f'sleep total: {ctx.slept} ms')
    return 0


if __name__ == '__main__':
    sys.exit(main(sys.argv[1:]))
